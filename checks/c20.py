"""C20 — type ids are structural (DESIGN §4 C20).

Proof side: Props/C20.v (canonical bytes of a layout = layout up to documentation; the worklist
closure returns the sorted set of reachable canonical layouts for every pop order; hashed bytes
<-> wire description; record round trip).  Correspondence: harness `intro` (random families of
introspectable types installed behind hand-implemented `Introspectable` types, driven through the
public builders, `TypeId::compute_from_dyn`, `Introspection::from_dyn` and its
Serialize/Deserialize) against the extracted model with UUIDv5 supplied by the OCaml driver, op by
op; Python recomputes every root id as uuid5(namespace, model bytes) with hashlib; the monitor
evaluates the property statement on the Rust outputs alone.  Derive-consistency stream (per shard,
deterministic): a fixed family of hand-written types (harness/src/intro_types.rs: implicit, explicit
and mixed ids, optional/fallback members, tuple/unit/newtype shapes) whose `Introspectable` derive
output is compared with what the `Serialize`/`Deserialize` derives of the same type do on the wire
(ids, optional-ness, fallback, TypeId against explicit-id and position twins).
"""
import hashlib
import json
import os
import shutil

from vlib import core
from vlib.codec import merge_stats
from vlib.core import BuildLock, Outcome, finish, proof_side

PROP = "C20"
PROPS_FILE = "Props/C20.v"
GEN_FILES = {"IntroConsts.v"}
PINS = {
    "C20_docs_insensitive": "forall l, canon_layout (erase_doc l) = canon_layout l",
    "C20_layout_canon_iff": "(canon_layout a = canon_layout b <-> erase_doc a = erase_doc b)",
    "C20_closure_every_order": "(forall l, Permutation (pi l) l) -> well_formed U -> coherent U -> forall fuel x, "
                               "compute_bytes (U_T U) (U_lay U) (U_refs U) pi fuel (U_root U) = Ok x -> "
                               "exists lb s, canon_layout (U_lay U (U_root U)) = Ok lb /\\ bsorted s /\\ "
                               "(forall b, In b s <-> KsetU U b) /\\ x = canon_compute lb s",
    "C20_insensitive": "well_formed A -> coherent A -> well_formed B -> coherent B -> wire_equal A B -> "
                       "type_id H (U_T A) (U_lay A) (U_refs A) piA fa (U_root A) = Ok ia -> "
                       "type_id H (U_T B) (U_lay B) (U_refs B) piB fb (U_root B) = Ok ib -> ia = ib",
    "C20_canon_injective": "compute_bytes (U_T A) (U_lay A) (U_refs A) piA fa (U_root A) = Ok x -> "
                           "compute_bytes (U_T B) (U_lay B) (U_refs B) piB fb (U_root B) = Ok x -> wire_equal A B",
    "C20_iff": "hash_separates H A B piA piB fa fb -> "
               "type_id H (U_T A) (U_lay A) (U_refs A) piA fa (U_root A) = Ok ia -> "
               "type_id H (U_T B) (U_lay B) (U_refs B) piB fb (U_root B) = Ok ib -> (ia = ib <-> wire_equal A B)",
    "C20_terminates": "(forall t, u_reach U t -> In t all) -> "
                      "(length (U_refs U (U_root U)) + S (mref (U_T U) (U_refs U) all) * length all < fuel)%nat -> "
                      "exists x, compute_bytes (U_T U) (U_lay U) (U_refs U) pi fuel (U_root U) = Ok x",
    "C20_terms": "(wire_equal (to_univ H A) (to_univ H B) <-> wire_equal_terms H A B)",
    "C20_roundtrip": "forall r, intro_ok r = true -> exists bs, encode_intro r = Ok bs /\\ decode_intro bs = Ok r",
    "C20_references_resolve": "forall ir r, from_ir ir = Some r -> resolved r",
    "C20_builder_order_struct": "Permutation fs fs' -> NoDup (map f_id fs) -> "
                                "build_struct schema name d fs fb = build_struct schema name d fs' fb",
    "C20_incoherent_order_matters": "~ coherent (mkUniv T5 lay5 refs5 QRoot)",
}
# (families per shard, shards); one family = a universe of up to 40 types + 2 irrelevant variations +
# 4 single semantic edits + error-path variants, about 50 ops
SIZES = {"quick": (400, 8), "thorough": (12000, 16)}


def build(o):
    ok = True
    with BuildLock():
        core.regen_for(o, GEN_FILES)
        okc, outc, _ = core.cargo_build(["intro"], features=["c20-macros"])
        if not okc:
            o.obligation_broken("cargo build of the intro harness against /repo", outc)
            ok = False
        okb, outb, _ = core.coq_build(["Intro/TypeId.v"])
        if not okb:
            o.obligation_broken("coq build of the executable introspection model", outb)
            return False
        okd, outd = core.build_driver("ExtractIntro.v", "intro_model", "intro_driver.ml", "intro_driver")
        if not okd:
            o.obligation_broken("extraction/compilation of the introspection model driver", outd)
            ok = False
    return ok


def workdir(name):
    d = os.path.join(core.WORK, PROP, name)
    shutil.rmtree(d, ignore_errors=True)
    os.makedirs(d, exist_ok=True)
    return d


def model_cmd(d, cases="cases.txt", model="model.txt"):
    return (f"ulimit -s unlimited 2>/dev/null || ulimit -s 1000000; "
            f"{os.path.join(core.BUILD, 'intro_driver')} {d}/{cases} {d}/{model}")


def uuid5(ns_hex, name_hex):
    """UUIDv5 of a byte-string name (RFC 4122), independent of the OCaml and the Rust code"""
    d = bytearray(hashlib.sha1(bytes.fromhex(ns_hex) + bytes.fromhex(name_hex)).digest()[:16])
    d[6] = (d[6] & 0x0F) | 0x50
    d[8] = (d[8] & 0x3F) | 0x80
    return d.hex()


def hash_crosscheck(d):
    """for every `cbytes i` op: uuid5(namespace, the MODEL's canonical bytes) must be the id the
    IMPLEMENTATION answered for `tid i` in the same universe; returns (checked, mismatches)"""
    checked = 0
    bad = []
    univ = None
    tids = {}
    with open(f"{d}/cases.txt") as fc, open(f"{d}/impl.txt") as fi, open(f"{d}/model.txt") as fm:
        for case, impl, model in zip(fc, fi, fm):
            case = case.rstrip("\n")
            impl = impl.rstrip("\n")
            model = model.rstrip("\n")
            if case.startswith("U "):
                univ = case
                tids = {}
                continue
            op, _, k = case.partition(" ")
            if op == "tid":
                tids[k] = impl
            elif op == "cbytes":
                parts = model.split(" ")
                if len(parts) != 2 or k not in tids:
                    bad.append({"universe": univ, "node": k, "model": model[:200], "impl_tid": tids.get(k)})
                    continue
                checked += 1
                want = uuid5(parts[0], parts[1])
                if want != tids[k]:
                    bad.append({"universe": univ, "node": k, "uuid5_of_model_bytes": want, "impl_tid": tids[k]})
    return checked, bad


def correspondence(o, n, shards, seed):
    if not build(o):
        return
    dirs = [workdir(f"s{i}") for i in range(shards)]
    res = core.parallel([f"VERIF_SEED={seed * 1000 + i} {core.harness_bin('intro')} gen {d} {n}"
                         for i, d in enumerate(dirs)], timeout=3000)
    for (rc, out), d in zip(res, dirs):
        if rc != 0:
            o.obligation_broken(f"harness intro gen (exit {rc})", out)
    res = core.parallel([model_cmd(d) for d in dirs], timeout=3000)
    for (rc, out), d in zip(res, dirs):
        if rc != 0:
            o.obligation_broken(f"model driver on {d}/cases.txt (exit {rc})", out)
    compared = 0
    ndiff = 0
    first = []
    hashed = 0
    hash_bad = []
    for d in dirs:
        try:
            c, diffs = core.diff_lines(f"{d}/cases.txt", f"{d}/impl.txt", f"{d}/model.txt")
            h, hb = hash_crosscheck(d)
        except OSError as e:
            o.obligation_broken("correspondence files", str(e))
            continue
        compared += c
        ndiff += len(diffs)
        first += [{k: str(v)[:600] for k, v in x.items()} for x in diffs if x][:3]
        hashed += h
        hash_bad += hb
    # monitor lines: "<what>: ... universe=<U ...> root=<k> [variant=<U ...> vroot=<k>]"
    mon = []
    for d in dirs:
        p = os.path.join(d, "monitor.txt")
        if os.path.exists(p):
            with open(p, encoding="utf-8", errors="replace") as f:
                mon += [l.rstrip("\n") for l in f if l.strip()]
    mon.sort(key=len)
    for line in mon[:200]:
        what = line.split(" universe=")[0]
        kind = what.split(":")[0].split(" of node")[0]
        rest = line[len(what):]
        fields = {}
        for key in ("universe", "root", "variant", "vroot"):
            tag = f" {key}="
            i = rest.find(tag)
            if i >= 0:
                j = min([x for x in (rest.find(f" {k2}=", i + 1) for k2 in ("universe", "root", "variant", "vroot")) if x > 0]
                        or [len(rest)])
                fields[key] = rest[i + len(tag):j]
        o.violation(kind + ": " + what[:300], {"input": fields, "how": "./check C20 --replay <this file> runs lexid/canon/tid/"
                                               "intro/rt of every node of `universe` (and `variant`) on the real code "
                                               "and on the model"})
    if ndiff:
        o.obligation_broken("correspondence lexical ids / canonical layout bytes / type ids / Introspection records: "
                            "model and implementation differ on %d of %d ops" % (ndiff, compared),
                            json.dumps(first[:5])[:3000])
    if hash_bad:
        o.obligation_broken("uuid5(namespace, model's canonical bytes) differs from the implementation's TypeId on "
                            "%d of %d roots" % (len(hash_bad), hashed + len(hash_bad)), json.dumps(hash_bad[:3])[:3000])
    st = merge_stats(dirs)
    # the derive-consistency stream is the same fixed family in every shard: report ONE shard's counts
    derive = {}
    for d in dirs:
        try:
            derive = json.load(open(os.path.join(d, "stats.json"))).get("derive_consistency", {})
        except (OSError, ValueError):
            continue
        if derive:
            break
    if not derive.get("hand_written_types"):
        o.obligation_broken("derive-consistency stream did not run (feature c20-macros / harness/src/intro_types.rs)",
                            json.dumps(derive))
    o.coverage.update({
        "evaluations": compared,
        "distinct_nontrivial": st.get("distinct_nontrivial", 0),
        "rule": "one evaluation = one op (lexical id, serialized LayoutIr bytes, TypeId, Introspection record as a "
                "decoded Value, record round trip) answered identically by /repo and by the extracted model. "
                "distinct_nontrivial = distinct base universes (text) with at least 2 types. A family: 1-5 custom "
                "types (struct/enum/newtype/service, some generic instantiations, names incl. non-ASCII and empty) "
                "whose members' types are random lexical-id terms (19 built-ins, Option/Box/Vec/Set/Sender/Receiver, "
                "Map, Result, Array, customs -> cycles and mutual recursion), ids biased to u32 boundaries and "
                "duplicates (last builder call wins), one table entry per referenced type (wrappers included); then "
                "2 variations that must keep the root's id (all docs redrawn, builder calls shuffled, references "
                "shuffled and duplicated, table permuted), 4 single semantic edits that must change it exactly when "
                "the wire description (computed by the harness without the code under test) changes, and error paths "
                "(a reference left out -> `incomplete introspection references`, a lexical id claimed by two types). "
                "Per shard additionally: the 7 types x 3 variants generated by aldrin::generate! from "
                "harness/schemas/c20 (their IR graphs read back through the public accessors and run like any family; "
                "ids equal between variants A and B, different between A and C exactly for the types that reach the "
                "edited one), one incoherent probe (recorded, outside the hypothesis), and the derive-consistency "
                "stream: hand-written types with implicit / explicit / mixed ids (explicit followed by implicit, gaps, "
                "descending, id 0, u32::MAX and wrap-around), optional and fallback members, tuple / unit / empty / "
                "newtype structs, unit / empty-tuple / one-element variants, raw identifiers, nested and recursive "
                "member types, doc/crate/ref_type attributes; per type the ids, required flags and fallback the "
                "Introspectable derive reports are compared with the ids read off values serialized by the derived "
                "Serialize (decoded as generic Value), with what the derived Deserialize accepts when a field is "
                "missing / an unknown field or variant is present, and the TypeId with the id of the wire layout and "
                "of the positional layout rebuilt through the public builders and with derived explicit-id and "
                "position twins; every derived layout graph is also run against the model (counts: "
                "coverage.derive_consistency_per_shard)",
        "samples": st.get("samples", []),
        "input_distribution": {k: st.get(k) for k in ("families", "nodes", "ops", "layout_kinds", "edit_kinds",
                                                      "result_classes", "root_on_a_cycle", "irrelevant_variations",
                                                      "edits_reachable", "edits_unreachable",
                                                      "edits_leaving_incoherent_universe", "incoherent_families")},
        "derive_consistency_per_shard": derive,
        "type_ids_recomputed_with_python_uuid5": hashed,
        "monitor_failures": len(mon),
        "disagreements": ndiff,
    })


def run(tier, seed):
    o = Outcome(PROP, tier, seed)
    o.assumptions = list(core.TRUSTED_BASE_COMMON) + [
        "modelled, not verified: ir/*.rs Serialize impls and builders as Intro/Ir.v + Intro/Canon.v (mode MIr), the "
        "resolved layout types' Serialize impls (mode MRs), lexical_id.rs, type_id.rs, IntrospectionIr::from_dyn, "
        "Introspection::from_ir and its Serialize impl as Intro/TypeId.v; the typed Deserialize impls of the resolved "
        "types are modelled as `generic decode + reading the Value` and compared on valid records only",
        "outside the proof: SHA-1/UUIDv5 (the hash is a Section variable H; C20_iff assumes it separates the two "
        "inputs at hand). The check recomputes each root id as uuid5(namespace, model bytes) with Python hashlib and "
        "compares it with the implementation's TypeId; the OCaml driver has its own SHA-1",
        "hypothesis `coherent` (two reachable types with the same layout reference the same set of layouts): holds "
        "when types are identified by schema and name; Example C20_incoherent_order_matters shows the visit order "
        "changes the hashed bytes without it",
        "generated code: three variants of one schema (harness/schemas/c20/{va,vb,vc}/c20s.aldrin: base, re-documented "
        "and re-ordered, one semantic edit) are compiled into the harness with aldrin::generate!(.., introspection = "
        "true), i.e. through the code generator's Rust backend and the Introspectable derive macro; the aldrin-gen "
        "CLI front end (same backend) is not driven separately; random schemas are not generated",
        "derive macros: monitored, not proved. For the fixed family of hand-written types in harness/src/intro_types.rs "
        "the output of #[derive(Introspectable)] (ids, required flags, fallback, TypeId) is compared with the wire "
        "behaviour of #[derive(Serialize, Deserialize)] of the same type; field/variant names and the fallback name are "
        "written down by hand in the harness (the wire carries no names); types outside the family, the service! macro "
        "and the derives' compile-time rejections are not covered",
    ]
    if os.path.exists(os.path.join(core.COQ, PROPS_FILE)):
        proof_side(o, PROPS_FILE, PINS)
    else:
        o.obligation_broken(PROPS_FILE, "theorem file missing")
    o.coverage["trusted_base"] = o.assumptions
    o.coverage["explanation"] = ("proved for all universes, all pop orders and every hash function: the hashed bytes "
                                 "are a function of the wire description (root layout and set of reachable layouts, "
                                 "both up to documentation) and determine it; record round trip; the hash itself and "
                                 "random macro/code-generator output are outside (three fixed schema variants are "
                                 "driven; derive output for a fixed family of hand-written types is monitored against "
                                 "the wire, not a theorem)")
    n, shards = SIZES[tier]
    correspondence(o, n, shards, seed)
    if o.broken and not o.violations and tier == "quick":
        o.coverage["search_note"] = "monitors re-run on a 10x larger sample after an obligation broke"
        o2 = Outcome(PROP, tier, seed + 7)
        correspondence(o2, n * 10, 16, seed + 7)
        o.violations += o2.violations
    return finish(o)


def replay(path):
    r = json.load(open(path))
    print(json.dumps({k: v for k, v in r.items() if k != "input"}, indent=1)[:3000])
    inp = r.get("input", {})
    derive = str(r.get("what", "")).startswith("derive consistency")
    if not inp.get("universe") and not derive:
        return 0
    o = Outcome(PROP, "quick", 0)
    if not build(o):
        return 1
    if derive:
        # the family is fixed: re-run the derived Serialize/Deserialize/Introspectable of every hand-written type
        dd = workdir("replay-derive")
        rc, out, _ = core.sh(f"{core.harness_bin('intro')} derive {dd}", timeout=600)
        print("--- derive-consistency stream on the real code (harness/src/intro_types.rs):")
        print(out[:6000])
        print("--- the layout the derive produced (`universe`) and the layout the wire uses (`variant`) on code and model:")
        if not inp.get("universe") or inp.get("universe", "").startswith("U 0"):
            return 0
    d = workdir("replay")
    lines = []
    for key in ("universe", "variant"):
        u = inp.get(key)
        if not u:
            continue
        n = int(u.split(" ")[1])
        lines.append(u)
        for k in range(n):
            lines += [f"lexid {k}", f"canon {k}", f"tid {k}"]
        root = inp.get("root" if key == "universe" else "vroot", "0")
        lines += [f"cbytes {root}", f"intro {root}", f"rt {root}"]
    open(f"{d}/cases.txt", "w").write("\n".join(lines) + "\n")
    rc, out, _ = core.sh(f"{core.harness_bin('intro')} run {d}/cases.txt {d}/impl.txt", timeout=600)
    if rc != 0:
        print(out)
        return 1
    core.sh(model_cmd(d), timeout=600)
    for c, i, m in zip(open(f"{d}/cases.txt"), open(f"{d}/impl.txt"), open(f"{d}/model.txt")):
        c = c.strip()
        if c.startswith("U "):
            print(c[:200])
            continue
        flag = "" if (i == m or i.strip() == "-") else "   <-- differ"
        print(f"{c}: impl={i.strip()[:120]} model={m.strip()[:120]}{flag}")
    return 0
