"""C15 — client termination (DESIGN §4 C15, design/C15.md).

Proof side: Props/C15.v — the automaton of `Client::run` (Proto/ClientLife.v): a transport fault at
any index returns Transport(e) in one step, the clean causes end with Ok once the flush result and
the peer's Shutdown have arrived, every waiter is owned by exactly one place until completed and
all are completed when run returns, requests after the return are refused at once.

Code side (`harness fault`): the REAL client/broker under scenario x every transport-operation
index k x {injected error, EOF} x clean causes x seeded schedules on an executor with real wakers.
Scenarios (harness/src/bin/fault.rs SCENARIOS): objsvc call listener channel sync mixed lifetime mixed14
twotasks calldrop calldrop14 -- the last two drop the PendingReply of unanswered calls at seeded points
before / after the stop was requested (Selected::AbortFunctionCall in the main loop and while draining).
A `run` that spins inside one poll is caught by the spin guard of the victim's transport (`hang:`).
Kinds: err eof (fault at operation k and later) | shutdown lastdrop broker connclose conndrop (clean cause applied
when operation k completed) | <clean>+err <clean>+eof (the clean cause, then a fault at operation k COUNTED FROM THE
MOMENT THE CAUSE WAS APPLIED, every index up to the end of the shutdown handshake: a fault that fires must be the
result of run() whatever clean cause was under way).
The monitor evaluates the property statement on the Rust run alone; the correspondence feeds the
observed transport results to the extracted automaton and compares result and waiter outcomes.
"""
import json
import os
import shutil

from vlib import core
from vlib.codec import merge_stats
from vlib.core import BuildLock, Outcome, finish, proof_side

PROP = "C15"
PROPS_FILE = "Props/C15.v"
TIE_FILE = "Proto/ClientLifeTie.v"   # source tables of client.rs = what the model handlers do (gen/ClientLifeSig.v)
PINS = {
    "C15_returns_fault": "forall s0 pre a post e, is_done (run s0 pre) = false -> enabled (run s0 pre) a = true -> "
                         "fault_of a = Some e -> phase (run s0 (pre ++ a :: post)) = Done (Some (ETransport e)) /\\ "
                         "resolved (run s0 (pre ++ [a])) = map (fun w => (w, Dropped)) (pend (run s0 pre)) ++ resolved (run s0 pre)",
    "C15_fault_enabled": "is_done s = false -> enabled s (match phase s with InlineFlush => ISelFlushed (Some e) "
                         "| _ => ISelTransport (TErr e) end) = true",
    "C15_returns_clean": "wf s0 -> phase (run s0 pre) = Running -> clean_cause (run s0 pre) a = Some w -> no_fault post -> "
                         "(w = true -> existsb is_shutdown_msg post = true) -> existsb is_flushed_ok post = true -> "
                         "phase (run s0 (pre ++ a :: post)) = Done None",
    "C15_clean_waits": "exists w', phase (run s0 (pre ++ a :: post)) = Draining w'",
    "C15_clean_result": "phase (run s0 (pre ++ a :: post)) = Done r -> r = None \\/ exists e, r = Some (ETransport e)",
    "C15_done_final": "forall ins s r, phase s = Done r -> phase (run s ins) = Done r",
    "C15_select_fair": "length rs = 4%nat -> Forall (fun r => r x = true) rs -> In (Some x) (selects p rs)",
    "C15_no_orphan": "count_occ N.eq_dec (qws (queue s) ++ mws (maps s) ++ map fst (resolved s)) w = "
                     "if w <? nextw s then 1%nat else 0%nat",
    "C15_pending_resolved": "In w (pend (run (init v) ins)) -> phase (run (init v) (ins ++ more)) = Done r -> "
                            "count_occ N.eq_dec (map fst (resolved (run (init v) (ins ++ more)))) w = 1%nat",
    "C15_after_stop": "phase s' = Done r /\\ maps s' = [] /\\ queue s' = [] /\\ (if has_reply q then "
                      "resolved s' = (nextw s, Dropped) :: resolved s /\\ nextw s' = nextw s + 1 else s' = s)",
}
# (schedules per (scenario, kind, k), shards, scenarios)
SIZES = {"quick": (8, 8, 11), "thorough": (384, 16, 11)}


def build(o):
    ok = True
    with BuildLock():
        okc, outc, _ = core.cargo_build(["fault"])
        if not okc:
            o.obligation_broken("cargo build of the fault harness against /repo", outc)
            ok = False
        okb, outb, _ = core.coq_build(["Proto/ClientLife.v"])
        if not okb:
            o.obligation_broken("coq build of the executable client life-cycle model", outb)
            return False
        okd, outd = core.build_driver("ExtractClientLife.v", "clientlife_model", "clientlife_driver.ml",
                                      "clientlife_driver")
        if not okd:
            o.obligation_broken("extraction/compilation of the client life-cycle model driver", outd)
            ok = False
    return ok


def workdir(name):
    d = os.path.join(core.WORK, PROP, name)
    shutil.rmtree(d, ignore_errors=True)
    os.makedirs(d, exist_ok=True)
    return d


def replay_of(case_id):
    sc, kind, k, seed = case_id.split()
    return {"scenario": sc, "kind": kind, "k": int(k), "schedule_seed": int(seed)}


def correspondence(o, schedules, shards, nscen, seed):
    if not build(o):
        return
    dirs = [workdir(f"s{i}") for i in range(shards)]
    res = core.parallel([f"VERIF_SEED={seed} {core.harness_bin('fault')} gen {d} {schedules} {i} {shards} {nscen}"
                         for i, d in enumerate(dirs)], timeout=3000)
    for (rc, out), d in zip(res, dirs):
        if rc != 0:
            o.obligation_broken(f"harness fault gen (exit {rc})", out)
    res = core.parallel([f"{os.path.join(core.BUILD, 'clientlife_driver')} {d}/trace.txt {d}/model.txt" for d in dirs],
                        timeout=3000)
    for (rc, out), d in zip(res, dirs):
        if rc != 0:
            o.obligation_broken(f"model driver on {d}/trace.txt (exit {rc})", out)
    compared = 0
    ndiff = 0
    first = []
    for d in dirs:
        try:
            c, diffs = core.diff_lines(f"{d}/cases.txt", f"{d}/impl.txt", f"{d}/model.txt", skip=lambda a, b: False)
        except OSError as e:
            o.obligation_broken("correspondence files", str(e))
            continue
        compared += c
        ndiff += len(diffs)
        first += [{k: str(v)[:600] for k, v in x.items()} for x in diffs if x][:3]
    mon = []
    for d in dirs:
        p = os.path.join(d, "monitor.txt")
        if os.path.exists(p):
            with open(p, encoding="utf-8", errors="replace") as f:
                for line in f:
                    parts = line.rstrip("\n").split("\t")
                    if len(parts) == 3:
                        mon.append(parts)
    # smallest fault index first: the shortest history is the replay
    mon.sort(key=lambda m: (m[0], int(m[1].split()[2]), m[1]))
    per_kind = {}
    for what, case_id, detail in mon:
        per_kind[what] = per_kind.get(what, 0) + 1
        if per_kind[what] > 3:      # three replays per kind of failure are enough (the smallest k first)
            continue
        # the text starts with the kind of failure, e.g. "clean-broker-shutdown-unclean: ..." (known_findings.json
        # matches on that prefix), "hang: ...", "wrong-result: ...", "panic: ..."
        o.violation(detail[:400] if detail.startswith(what) else f"{what}: {detail[:400]}",
                    {"input": replay_of(case_id), "detail": detail[:2000],
                     "how": "target/debug/fault one <scenario> <kind> <k> <schedule_seed>  (./check C15 --replay <this file>)"})
    if ndiff:
        o.obligation_broken("correspondence automaton/client: predicted and observed result or waiter outcomes differ on "
                            "%d of %d cases" % (ndiff, compared), json.dumps(first[:5])[:3000])
    st = merge_stats(dirs)
    o.coverage.update({
        "evaluations": compared,
        "distinct_nontrivial": st.get("distinct_nontrivial", 0),
        "rule": "one evaluation = one complete run of the real broker + peer + victim client (scenario, kind, k, schedule "
                "seed) to executor quiescence, judged by the monitor (no panic, every task finished, no task spinning "
                "inside one poll, result class, late operations refused, peer served, broker idle), and replayed through "
                "the extracted automaton with equal result class and equal outcome for every labelled waiter (value / "
                "shutdown / dropped by the application). Kinds: err, eof at every transport operation index k; the "
                "clean causes shutdown, lastdrop, broker, connclose, conndrop at k <= 6 and every even k; the combined "
                "kinds <clean>+err, <clean>+eof = the clean cause (at the first quiescence for half of the seeds, at a "
                "seed-drawn operation index otherwise) followed by a fault at every operation index counted from the "
                "moment the cause was applied (transport_ops_after_clean_cause = measured length of that phase) -- a "
                "fault that fired must be run()'s result (never Ok), an unfired one leaves the clean result. Scenarios: objsvc, call, listener, channel, sync, mixed, lifetime, "
                "mixed14, twotasks, calldrop, calldrop14 (reply futures of unanswered calls dropped at seeded points before "
                "and after the stop was requested; reply_drops counts where they fell). distinct_nontrivial = distinct "
                "(scenario, kind, k, observed summary) with at least 4 completed transport operations (the handshake "
                "alone is 3).",
        "samples": st.get("samples", []),
        "input_distribution": {k: st.get(k) for k in ("cases", "case_kinds", "scenarios", "result_classes", "fault_fired",
                                                      "transport_ops_per_scenario", "ops", "labelled_waiters", "polls",
                                                      "reply_drops", "transport_ops_after_clean_cause")},
        "monitor_failures": len(mon),
        "monitor_failures_by_kind": per_kind,
        "disagreements": ndiff,
    })


def run(tier, seed):
    o = Outcome(PROP, tier, seed)
    o.assumptions = list(core.TRUSTED_BASE_COMMON) + [
        "modelled, not verified: Client::run / drain_transport / handle_message / handle_request / "
        "abort_function_call / SerialMap / the sender-owning part of Proxies as Proto/ClientLife.v (hand transcription, "
        "line table in design/C15.md); payloads, filters and event sets are abstracted to the outcome bits the inputs carry",
        "futures-channel: dropping a oneshot::Sender / mpsc::UnboundedSender completes and wakes its receiver; an "
        "UnboundedReceiver that is dropped drops the queued requests; mpsc FIFO order",
        "the harness executor (real wakers, one woken task per step chosen by the seeded Rng), the fault-injecting "
        "transport wrapper and its operation counter, the reconstruction of unobservable inputs in "
        "extract/clientlife_driver.ml (selection time of queued requests, requests sent by Drop impls, handle counts, "
        "the selection of a dropped call's abort while draining or below protocol 1.16)",
        "AsyncTransport has no EOF value: a closed transport reports an error; the EOF kind drops the inner channel and "
        "returns its own error value",
    ]
    if os.path.exists(os.path.join(core.COQ, PROPS_FILE)):
        proof_side(o, PROPS_FILE, PINS, extra_files=(TIE_FILE,))
    else:
        o.obligation_broken(PROPS_FILE, "theorem file missing")
    o.coverage["trusted_base"] = o.assumptions
    o.coverage["explanation"] = (
        "PROVED (Coq, no axioms, all input sequences): on the automaton of Client::run a transport error at any index "
        "returns RunError::Transport(e) in that very step and drops every pending waiter; the clean causes (peer "
        "Shutdown, Handle::shutdown, last handle dropped) return Ok(()) exactly when the flush result and, if awaited, "
        "the peer's Shutdown have arrived, and never any other error; Done is final; every waiter ever created is in "
        "exactly one of queue / one map entry / completed log in every reachable state and completed exactly once when "
        "run has returned; a request after the return is refused in the same step; Select serves a ready source within "
        "4 calls. OBSERVED on the real code, not proved: that the run future is polled again after a transport event and "
        "that dropping a sender wakes the awaiting task (wake-ups: the executor polls only woken tasks, a lost wake-up "
        "shows as a hang), futures-channel oneshot/mpsc drop semantics, real scheduling (seeded random schedules), the "
        "broker side of the connection (idle shutdown completes, peer still served), panics. The tie between automaton "
        "and code is the transcription table of design/C15.md plus the per-case replay of the observed transport "
        "results through the extracted automaton.")
    schedules, shards, nscen = SIZES[tier]
    correspondence(o, schedules, shards, nscen, seed)
    return finish(o)


def replay(path):
    r = json.load(open(path))
    print(json.dumps({k: v for k, v in r.items() if k not in ("input",)}, indent=1)[:3000])
    i = r.get("input")
    if not i:
        return 0
    o = Outcome(PROP, "quick", 0)
    with BuildLock():
        okc, outc, _ = core.cargo_build(["fault"])
    if not okc:
        print(outc[-2000:])
        return 1
    rc, out, _ = core.sh(f"{core.harness_bin('fault')} one {i['scenario']} {i['kind']} {i['k']} {i['schedule_seed']}",
                         timeout=600)
    print(out[-6000:])
    print("reproduced" if rc != 0 else "not reproduced")
    return 1 if rc != 0 else 0
