"""C07 — decoding untrusted bytes is total; skipping agrees with decoding (DESIGN §4 C07)."""
import json
import os

from vlib import codec, core
from vlib.core import Outcome, finish, proof_side

PROP = "C07"
PROPS_FILE = "Props/C07.v"
PINS = {
    "C07_skip_agrees": "forall b v r, de_value true b = Ok (v, r) -> skip_value b = Ok r",
    "C07_skip_exact": "forall b r, skip_value b = Ok r <-> (exists v, de_value false b = Ok (v, r))",
    "C07_validating_subset": "forall b v r, de_value true b = Ok (v, r) -> de_value false b = Ok (v, r)",
    "C07_split_redecode": "forall b v r, de_value true b = Ok (v, r) -> exists p, split_off b = Ok (p, r) /\\ b = p ++ r /\\ de_value true p = Ok (v, [])",
    "C07_peek_kind": "forall b k, peek_kind b = Ok k -> exists r, b = kind_byte k :: r",
    "C07_total": "forall b, de_value true b <> Err Fuel /\\ skip_value b <> Err Fuel",
    "C07_key_skip_widths": "forall i, key_skip_width i = int_width i",
    "C07_no_amplification": "de_value utf8 b = Ok (v, r) -> (vsize v + length r <= length b)%nat",
    "C07_utf8_converse_naive_refuted": "exists b v r, de_value false b = Ok (v, r) /\\ wf true v = true /\\ de_value true b <> Ok (v, r)",
    "C07_validating_iff": "forall b v r, de_value true b = Ok (v, r) <-> de_value false b = Ok (v, r) /\\ all_strings_valid b = true",
    "C07_validating_error": "forall b v r, de_value false b = Ok (v, r) -> all_strings_valid b = false -> de_value true b = Err Invalid",
    "C07_error_kinds": "forall utf8 b e, de_value utf8 b = Err e -> e = Eoi \\/ e = Invalid \\/ e = TooDeep",
    "C07_skip_bounded": "forall b r, skip_value b = Ok r -> exists p, b = p ++ r /\\ p <> []",
    "C07_split_bounded": "forall b p r, split_off b = Ok (p, r) -> b = p ++ r /\\ p <> [] /\\ skip_value b = Ok r /\\ lenN p <= lenN b",
    "C07_value_len_bounded": "forall b n, value_len b = Ok n -> 1 <= n <= lenN b",
}
SIZES = {"quick": (40000, 8), "thorough": (3000000, 16)}


def correspondence(o, n, shards, seed):
    if not codec.build(o):
        return
    dirs = codec.gen_shards(o, PROP, "mut", n, shards, seed)
    codec.model_shards(o, dirs)
    compared = 0
    ndiff = 0
    first = []
    for d in dirs:
        try:
            c, diffs = core.diff_lines(f"{d}/cases.txt", f"{d}/impl.txt", f"{d}/model.txt")
        except OSError as e:
            o.obligation_broken("correspondence files", str(e))
            continue
        compared += c
        ndiff += len(diffs)
        first += [x for x in diffs if x][:3]
        judge_diffs(o, d, [x for x in diffs if x])
    mon = codec.read_monitor(dirs)
    # shortest failing input first: it is the replay
    def blen(line):
        i = line.find("bytes=")
        return len(line[i:].split(" ")[0]) if i >= 0 else 1 << 30
    for line in sorted(mon, key=blen)[:200]:
        what, _, rest = line.partition(" bytes=")
        fields = rest.split(" ")
        o.violation(what, {"input": {"bytes": fields[0][:40000]}, "impl_output": " ".join(fields[1:])[:2000]})
    if ndiff:
        o.obligation_broken("correspondence decode/skip/split/kind: model and implementation differ on %d of %d ops"
                            % (ndiff, compared), json.dumps(first[:5])[:3000])
    st = codec.merge_stats(dirs)
    o.coverage.update({
        "evaluations": compared,
        "distinct_nontrivial": st.get("distinct_nontrivial", 0),
        "rule": "byte strings from three streams (valid serializations of generated values in both epochs; 1-3 "
                "mutations of them: bit flips, byte edits biased to varint headers, truncation, insertion, deletion, "
                "splices; random strings biased to valid kind bytes); each goes through deserialize_as_value, "
                "Deserializer::len/skip, deserialize::<SerializedValue>() and kind() under catch_unwind with a counting "
                "allocator, and through de/skip/split_off/peek_kind of the model; result class, value, consumed length "
                "and error kind compared. distinct_nontrivial = distinct inputs of >= 2 bytes",
        "samples": st.get("samples", []),
        "input_distribution": {k: st.get(k) for k in ("inputs", "streams", "result_classes")},
        "max_alloc_per_input_byte": st.get("max_alloc_per_input_byte"),
        "monitor_failures": len(mon),
        "disagreements": ndiff,
    })


def judge_diffs(o, d, diffs):
    """A disagreement between the real walker and the model's is turned into a concrete violation when
    the property statement fails on the IMPLEMENTATION's own answers, with the proved model as the
    arbiter of the one thing the real code cannot tell apart (a UTF-8 error from a malformed value):
    * the real skip/split-off ACCEPTS bytes the model's skip rejects (so, by C07_skip_exact, the
      non-validating decoder rejects them too: not a UTF-8 matter) and the real decoder rejects them;
    * the real skip REJECTS bytes that the real decoder accepts."""
    if not diffs:
        return
    try:
        cases = open(f"{d}/cases.txt", encoding="utf-8", errors="replace").read().split("\n")
        impl = open(f"{d}/impl.txt", encoding="utf-8", errors="replace").read().split("\n")
    except OSError:
        return
    for x in diffs[:50]:
        op, _, b = x["case"].partition(" ")
        if op not in ("skip", "split") or x["line"] < 0:
            continue
        # the ops of one input are written next to each other: find this input's `dec` answer
        dec = None
        for j in range(max(0, x["line"] - 4), min(len(cases), x["line"] + 5)):
            if cases[j] == "dec " + b:
                dec = impl[j]
        if dec is None:
            continue
        impl_ok = not x["impl"].startswith("!")
        model_ok = not x["model"].startswith("!")
        dec_ok = not dec.startswith("!")
        if impl_ok and not model_ok and not dec_ok:
            o.violation("skip_accepts_what_decoding_rejects: %s succeeds on bytes that deserialize_as_value rejects and that "
                        "are malformed beyond UTF-8 (the model's walker, equivalent to the non-validating decoder by "
                        "C07_skip_exact, rejects them)" % op,
                        {"input": {"bytes": b[:40000]}, "impl_output": "%s=%s dec=%s model_%s=%s" % (op, x["impl"][:200], dec[:200], op, x["model"][:200])})
        elif (not impl_ok) and dec_ok:
            o.violation("decode_succeeds_but_%s_fails" % op,
                        {"input": {"bytes": b[:40000]}, "impl_output": "%s=%s dec=%s" % (op, x["impl"][:200], dec[:200])})


def run(tier, seed):
    o = Outcome(PROP, tier, seed)
    o.assumptions = list(core.TRUSTED_BASE_COMMON) + [
        "modelled, not verified: Deserializer::{skip,len,split_off_serialized_value,peek_value_kind}, the *Deserializer::skip methods and KeyTagImpl::skip as Codec/Skip.v; decoder as Codec/De.v (separate transcriptions)",
        "partial: absence of panics / out-of-bounds reads and the byte-level allocation bound (peak <= 1024*len + 64 KiB) are observed by the harness (catch_unwind, counting allocator), not proved",
    ]
    if os.path.exists(os.path.join(core.COQ, PROPS_FILE)):
        proof_side(o, PROPS_FILE, PINS)
    else:
        o.obligation_broken("Props/C07.v", "theorem file missing")
    o.coverage["trusted_base"] = o.assumptions
    o.coverage["explanation"] = ("logic proved on the model (agreement of skip and decode, exactness up to UTF-8, "
                                 "re-decoding of split-off values, fuel totality); panics and allocation observed")
    n, shards = SIZES[tier]
    correspondence(o, n, shards, seed)
    if o.broken and not o.violations and tier == "quick":
        o.coverage["search_note"] = "monitors re-run on a 10x larger sample after an obligation broke"
        o2 = Outcome(PROP, tier, seed + 7)
        correspondence(o2, n * 10, 16, seed + 7)
        o.violations += o2.violations
    return finish(o)


def replay(path):
    r = json.load(open(path))
    print(json.dumps(r, indent=1)[:3000])
    b = r.get("input", {}).get("bytes")
    if not b:
        return 0
    o = Outcome(PROP, "quick", 0)
    if not codec.build(o):
        return 1
    d = codec.workdir(PROP, "replay")
    open(f"{d}/cases.txt", "w").write("".join(f"{op} {b}\n" for op in ("dec", "skip", "split", "kind")))
    codec.impl_run_shards(o, [d], "cases.txt", "impl.txt")
    codec.model_shards(o, [d])
    for op, i, m in zip(("dec", "skip", "split", "kind"), open(f"{d}/impl.txt"), open(f"{d}/model.txt")):
        print(f"{op}: impl={i.strip()[:300]}  model={m.strip()[:300]}")
    return 0
