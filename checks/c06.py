"""C06 — clients and broker agree under every schedule (DESIGN §4 C06, design/C06.md).

Proof side: Props/C06.v (client view automaton + handle typestate, channel ends, listeners,
queueing network).  Search + monitor: harness `sched` runs randomly composed multi-client programs
over the REAL public API (2-4 `Client::run` + `Broker::run` + `Connection::run` + application and
server tasks) on a waker-honouring single-threaded executor with a seeded scheduler, transports
unbounded and bounded(1..16); the oracle is the property statement; failing programs are shrunk by
delta debugging.  Correspondence: every session observed at a client's transport — undisturbed
ones and ones a fault-injecting tap disturbed (drop / duplicate / stale re-delivery / swap) — is
replayed through the extracted acceptance automaton and its verdict compared with what the real
`Client::run` did (accepted / UnexpectedMessageReceived / panic)."""
import json
import os
import re
import shutil

from vlib import core
from vlib.core import BuildLock, Outcome, finish, proof_side

PROP = "C06"
PROPS_FILE = "Props/C06.v"
GEN_FILES = {"ClientConsts.v"}
PINS = {
    "C06_channel_ends_refuted": "exists sched, run {| fl_refused_closed := false; fl_close_asserts := true; fl_cancel := false |} "
                                "(created 7 1 CSender []) sched = CPanic 1 S_CLOSE_ABSENT",
    "C06_channel_ends": "forall fl, fl_refused_closed fl = true -> fl_cancel fl = false -> forall k c0 ec others sched, "
                        "(forall c, run fl (created k c0 ec others) sched <> CReject c) /\\ "
                        "(forall c site, run fl (created k c0 ec others) sched <> CPanic c site)",
    "C06_channel_ends_this_tree": "this_tree_statement CLAIM_REFUSED_MARKS_CLOSED CLOSE_REPLY_ASSERTS",
    "C06_refused_claim_witness": "f1_statement CLAIM_REFUSED_MARKS_CLOSED CLOSE_REPLY_ASSERTS",
    "C06_cancelled_claim_refuted": "exists sched, run {| fl_refused_closed := true; fl_close_asserts := true; fl_cancel := true |} "
                                   "(created 7 1 CSender []) sched = CPanic 1 S_CLOSE_ABSENT",
    "C06_double_bind_refuted": "forall fl, fl_cancel fl = true -> exists sched, run fl (created 7 1 CSender []) sched "
                               "= CPanic 1 S_SEND_ITEM_ABSENT",
    "C06_listeners": "forall k ops, exists z, lrun k lcreated ops = LOk z",
    "C06_reply_matching": "forall asserts ver ops K s, rrun asserts {| r_v := view0 ver; r_up := []; r_down := [] |} ops "
                          "<> RUnmatched K s",
    "C06_reply_contract_model": "Model.step s (Message c x) fresh b = Done (s', o) -> (exists m1, Model.handle {| ms := s; "
                                "mw := work0; mo := [] |} c x fresh b = Done m1) -> rkeys o = match rq x with Some key => "
                                "[(c, key)] | None => [] end",
    "C06_reply_contract_other_events": "(forall c x, e <> Message c x) -> Model.step s e fresh b = Done (s', o) -> rkeys o = []",
    "C06_calls": "forall sc ops, exists z, wrun sc wcreated ops = WOk z",
    "C06_channel_slice_is_recv": "forall fl k v x m, crel k v x -> about k v m -> match crecv fl x m, "
                                 "recv_with (fl_close_asserts fl) true v m with",
    "C06_listener_slice_is_recv": "forall asserts alive k v z m, lrel k v z -> labout k v m -> match lrecv z m, "
                                  "recv_with asserts alive v m with",
    "C06_service_slice_is_recv": "forall asserts alive sc v z m, wrel sc v z -> wabout sc v m -> match wrecv alive z m, "
                                 "recv_with asserts alive v m with",
    "C06_no_deadlock": "forall n : net, (1 <= bcap n)%nat -> match cap n with Some c => (1 <= c)%nat | None => True end -> "
                       "busy n = true -> exists s, enabled n s = true",
}
# (programs per shard, shards, operations per client, schedules per directed program)
SIZES = {"quick": (80, 8, 60, 60), "thorough": (1250, 16, 60, 400)}

# the minimal programs of the four findings of design/C06.md (they run first, under many schedules)
DIRECTED = [
    "n=1 fifo=0 sched=7 spur=0 barrier=0 faults=0 | 0:ks.1 0:es.0.2.1 0:llr.0.16.0 0:sy.1",
    "n=1 fifo=0 sched=7 spur=0 barrier=0 faults=0 | 0:kr.4.1 0:er.0.2.1 0:lls.0.0 0:sy.1",
    "n=1 fifo=0 sched=7 spur=0 barrier=0 faults=0 | 0:ks.1 0:es.0.2.1 0:llr.0.16.1 0:sy.1",
    "n=1 fifo=0 sched=7 spur=0 barrier=0 faults=0 | 0:kr.4.0 0:cls.0.1 0:er.0.5.0 0:cls.0.2 0:sd.0.3 0:sd.0.3 0:yi.3 0:sd.0.2",
    "n=1 fifo=0 sched=7 spur=0 barrier=0 faults=0 | 0:co.2 0:cs.0.2.1 0:px.0 0:ca.2.6.2 0:sh",
    "n=2 fifo=1 sched=7 spur=0 barrier=0 faults=0 | 0:co.2 0:cs.0.2.1 0:sy.1 1:yi.4 1:px.0 1:ca.2.6.2 1:sh",
    # event oracle, two shapes that must PASS on a correct tree: (a) three proxies of one service in one
    # client, two subscribed to event 0, one to nothing; one of the two is dropped; the other still
    # gets event 0.  (b) an all-events subscriber on one connection, the last single-event
    # subscription (another connection) ends; the all-events subscriber still gets every event.
    "n=2 fifo=0 sched=7 spur=0 barrier=0 faults=0 | 0:co.0 0:cs.0.0.1 0:rz 1:rz 1:pf.0.3.17 1:rz 0:rz 1:dp.0 1:rz 0:rz "
    "0:sv.0.0.0 0:rz 1:rz 1:pe.1.1",
    "n=3 fifo=2 sched=7 spur=0 barrier=0 faults=0 | 0:co.0 0:cs.0.0.1 0:rz 1:rz 2:rz 1:pf.0.1.8 2:pf.0.1.1 0:rz 1:rz 2:rz "
    "2:dp.0 0:rz 1:rz 2:rz 0:sv.0.0.1 0:rz 1:rz 2:rz 1:pe.0.1",
    # protocol versions, shapes that must PASS: (c) a client that negotiated exactly 1.17 drops the last proxy of a
    # service and goes on using its connection; (d) owner at 1.14 (old Connect handshake), subscribers at 1.16 / 1.18 /
    # 1.19: families with subscribe_all (NotSupported: the owner is below 1.18), emits, every proxy dropped.
    "n=2 fifo=0 sched=7 spur=0 barrier=0 faults=0 ver=20,17 | 0:co.0 0:cs.0.0.1 0:rz 1:rz 1:px.0 1:dp.0 1:sy.1 1:sy.1 1:rz 0:rz",
    "n=4 fifo=1 sched=7 spur=0 barrier=0 faults=0 ver=14,16,18,19 | 0:co.0 0:cs.0.0.1 0:rz 1:rz 2:rz 3:rz 0:pf.0.2.145 "
    "1:pf.0.2.145 2:pf.0.2.145 3:pf.0.2.145 0:rz 1:rz 2:rz 3:rz 0:sv.0.0.0 0:sv.0.0.1 1:dp.0 2:dp.0 3:dp.0 0:dp.0 0:rz 1:rz "
    "2:rz 3:rz 1:dp.0 2:dp.0 3:dp.0 0:dp.0 0:sy.1 1:sy.1 2:sy.1 3:sy.1 0:rz 1:rz 2:rz 3:rz",
]

WHAT = {
    "refused-claim-assert":
        "refused-claim-assert: Client::run panics in msg_close_channel_end_reply (debug_assert!(contained.is_some())): "
        "UnclaimedSender/UnclaimedReceiver::claim calls set_claimed() before the claim is answered; a refused claim "
        "drops the end claimed and Open, its drop-driven CloseChannelEnd{claimed: true} is answered and the client "
        "removes a map entry that was never inserted",
    "cancelled-claim-assert":
        "cancelled-claim-assert: the same assertion of msg_close_channel_end_reply, reached only because a claim "
        "future was dropped while its request was in flight and the broker refused the claim (the program passes "
        "when every claim is awaited to completion)",
    "double-bind-closes-held-end":
        "double-bind-closes-held-end: a client binds a channel end it already holds; the refused second claim closes "
        "the held end with claimed = true, the client drops its map entry, and the next item / capacity update of "
        "the held end trips debug_assert!(contains_key) in req_send_item / req_add_channel_capacity",
    "event-lost":
        "event-lost: an event the service owner emitted while a proxy held a confirmed subscription to it (subscribe() / "
        "subscribe_all() returned Ok, then every client synced with the broker twice around a barrier; the application "
        "has not unsubscribed or dropped THAT proxy since) never reaches that proxy: its awaited next_event() does not "
        "complete although the peer has acted, or a later emit overtakes it (subscriptions of sibling proxies of the "
        "same client / of other connections, client/proxies.rs and client/broker_subscriptions.rs bookkeeping)",
    "event-unsubscribed":
        "event-unsubscribed: a proxy delivered an event although, at no time between the emit and the delivery, it was "
        "subscribed to that event id or to all events of the service",
    "event-order":
        "event-order: a proxy delivered the events of its service twice or not in emit order",
    "event-foreign":
        "event-foreign: a proxy delivered an event that was emitted by another service",
    "event-stream-end":
        "event-stream-end: next_event() returned None (service destroyed) although events emitted BEFORE the owner began "
        "to destroy the service, under a confirmed subscription of this proxy, were never delivered (they precede the "
        "destruction on every FIFO between owner and proxy)",
    "closed-by-broker":
        "closed-by-broker: the broker shut a client's connection down (Shutdown received before the client sent its own): "
        "the client used a message the broker does not accept on this connection, e.g. one newer than the negotiated "
        "protocol version",
    "drain-abort-spin":
        "drain-abort-spin: Client::drain_transport ignores Selected::AbortFunctionCall without marking the call "
        "aborted, so select() returns it again at once: Client::run loops inside one poll and never yields (a "
        "PendingReply dropped after the client started to shut down)",
}

OPS = {
    "co": "create_object(uuid #{0})", "do": "object #{0}: {1:destroy().await then |}drop",
    "cs": "object #{0}: create_service(uuid #{1}, version {2}) + server task",
    "sv": "server #{0}: {1:emit event|destroy().await and stop|stop (drop the Service)} {2}",
    "px": "Proxy::new(global service #{0})",
    "pf": "proxy family: {1} x Proxy::new(global service #{0}), member j subscribes per bits 4j..4j+3 of {2} "
          "(1 = event 0, 2 = event 1, 4 = event 2, 8 = subscribe_all)",
    "rz": "rendezvous with all clients: sync_broker(), barrier, sync_broker(), barrier (confirms subscriptions)",
    "ca": "proxy #{0}: call(function*8+answer class = {1}; classes 0-2 ok, 3 err, 4 abort, 5 drop promise, 6 invalid_function, 7 invalid_args), {2:awaited|reply dropped at once|reply polled once, then dropped|reply held}",
    "aw": "await held call #{0}", "su": "proxy #{0}: subscribe({1})", "us": "proxy #{0}: unsubscribe({1})",
    "sa": "proxy #{0}: subscribe_all()", "ua": "proxy #{0}: unsubscribe_all()", "pe": "proxy #{0}: await every event owed to it (confirmed subscription at the emit), then poll up to {1} more",
    "dp": "drop proxy #{0}", "ks": "create channel claiming the SENDER; unclaimed receiver: {0:unbind into the pool|keep}",
    "kr": "create channel claiming the RECEIVER (capacity {0}); unclaimed sender: {1:unbind into the pool|keep}",
    "clr": "bind pool receiver #{0} and claim({1}); flags {2} (bit0 leave the cookie in the pool, bit1 drop the claim future after its first poll)",
    "cls": "bind pool sender #{0} and claim(); flags {1} (bit0 leave the cookie in the pool, bit1 drop the claim future after its first poll)",
    "llr": "claim({1}) the kept unclaimed receiver #{0}{2: (awaited)| (future dropped after its first poll)}",
    "lls": "claim() the kept unclaimed sender #{0}{1: (awaited)| (future dropped after its first poll)}",
    "ul": "kept unclaimed {0:sender|receiver} #{1}: {2:drop|close().await|unbind into the pool}",
    "es": "pending sender #{0}: poll_wait_established x{1}, establish() if ready, else {2:keep|drop|close().await}",
    "er": "pending receiver #{0}: poll_wait_established x{1}, establish() if ready, else {2:keep|drop|close().await}",
    "sd": "sender #{0}: send up to {1} items", "rv": "receiver #{0}: receive up to {1} items",
    "xs": "sender #{0}: {1:drop|close().await}", "xr": "receiver #{0}: {1:drop|close().await}",
    "bc": "create_bus_listener()", "bf": "listener #{0}: filter {1} {2:add|remove|clear}", "bs": "listener #{0}: start(scope {1})",
    "bt": "listener #{0}: stop()", "bp": "listener #{0}: poll up to {1} events", "bd": "listener #{0}: {1:drop|destroy().await then drop}",
    "sy": "{0:sync_client()|sync_broker()}", "yi": "yield x{0}", "sh": "Handle::shutdown()",
}


def describe(case):
    """human-readable form of a case line"""
    head, _, body = case.partition("|")
    out = [head.strip()]
    for tok in body.split():
        who, _, op = tok.partition(":")
        parts = op.split(".")
        tmpl = OPS.get(parts[0], parts[0])
        args = [int(x) for x in parts[1:]]

        def sub(m):
            i = int(m.group(1))
            alt = m.group(2)
            if i >= len(args):
                return "?"
            if alt is None:
                return str(args[i])
            alts = alt[1:].split("|")
            return alts[min(args[i], len(alts) - 1)]
        out.append(f"client {who}: " + re.sub(r"\{(\d)(:[^}]*)?\}", sub, tmpl))
    return out


def workdir(name):
    d = os.path.join(core.WORK, PROP, name)
    shutil.rmtree(d, ignore_errors=True)
    os.makedirs(d, exist_ok=True)
    return d


def build(o):
    ok = True
    with BuildLock():
        core.regen_for(o, GEN_FILES)
        okc, outc, _ = core.cargo_build(["sched"])
        if not okc:
            o.obligation_broken("cargo build of the sched harness against /repo", outc)
            ok = False
        okb, outb, _ = core.coq_build(["Proto/ClientView.v"])
        if not okb:
            o.obligation_broken("coq build of the executable client view", outb)
            return False
        okd, outd = core.build_driver("ExtractClientView.v", "clientview_model", "clientview_driver.ml", "clientview_driver")
        if not okd:
            o.obligation_broken("extraction/compilation of the client view driver", outd)
            ok = False
    return ok


def read_monitor(d):
    out = []
    p = os.path.join(d, "monitor.txt")
    if os.path.exists(p):
        with open(p, encoding="utf-8", errors="replace") as f:
            for line in f:
                parts = line.rstrip("\n").split("\t")
                if len(parts) >= 6:
                    out.append({"class": parts[0], "case": parts[2], "detail": parts[3], "tag": parts[5]})
    return out


def merge_stats(dirs):
    tot = {"cases": 0, "failures": 0, "polls": 0, "ops": 0, "traced_msgs": 0, "fault_cases": 0}
    maps = {"by_transport": {}, "by_clients": {}, "result_classes": {}, "failure_tags": {}}
    hashes = set()
    samples = []
    for d in dirs:
        try:
            st = json.load(open(os.path.join(d, "stats.json")))
        except (OSError, ValueError):
            continue
        for k in tot:
            tot[k] += st.get(k, 0)
        for k, m in maps.items():
            for a, b in st.get(k, {}).items():
                m[a] = m.get(a, 0) + b
        hashes.update(st.get("distinct_hashes", []))
        samples += st.get("samples", [])[:1]
    tot.update(maps)
    tot["distinct_nontrivial"] = len(hashes)
    tot["samples"] = samples[:6]
    return tot


def search(o, per_shard, shards, ops, reps, seed):
    if not build(o):
        return
    sched = core.harness_bin("sched")
    cmds, dirs, kinds = [], [], []
    # directed programs first (each under `reps` schedules), shrinking on
    d = workdir("directed")
    with open(f"{d}/in.txt", "w") as f:
        f.write("".join(x + "\n" for x in DIRECTED))
    cmds.append(f"{sched} run {d}/in.txt {d} {reps} --shrink")
    dirs.append(d)
    kinds.append("directed")
    for i in range(shards):
        d = workdir(f"s{i}")
        # half of the shards never drop a running claim future (that stream must be clean once
        # the refused-claim repair is in), the other half does everything
        opts = "--trace --trace-max 150" + (" --no-cancel-claims" if i % 2 == 1 else "")
        cmds.append(f"VERIF_SEED={seed * 1000 + i} {sched} gen {d} {per_shard} {ops} {opts}")
        dirs.append(d)
        kinds.append("random")
    nf = max(2, shards // 4)
    for i in range(nf):
        d = workdir(f"f{i}")
        cmds.append(f"VERIF_SEED={seed * 1000 + 500 + i} {sched} gen {d} {per_shard} {max(20, ops // 2)} "
                    f"--trace --trace-max 400 --no-shrink --no-cancel-claims --faults {10 + 10 * (i % 3)}")
        dirs.append(d)
        kinds.append("faults")
    res = core.parallel(cmds, timeout=3000)
    for (rc, out), d in zip(res, dirs):
        if rc != 0:
            o.obligation_broken(f"harness sched in {d} (exit {rc})", out)
    # monitor: shortest program first within each tag
    mon = []
    for d, k in zip(dirs, kinds):
        if k != "faults":
            mon += read_monitor(d)
    mon.sort(key=lambda m: len(m["case"].split()))   # stable: the directed programs come first
    per_tag = {}
    for m in mon:
        tag = m["tag"]
        per_tag[tag] = per_tag.get(tag, 0) + 1
        if tag in WHAT:
            what = WHAT[tag] + " — " + m["detail"]
        else:
            what = m["class"].replace(":", "@") + ": " + m["detail"]
        if per_tag[tag] <= 50:
            o.violation(what, {"input": {"case": m["case"], "program": describe(m["case"])},
                               "tag": tag, "failure_class": m["class"], "impl_output": m["detail"],
                               "how": "./check C06 --replay <this file> runs the program under 300 schedules on the real "
                                      "clients and broker"})
    # correspondence: sessions through the extracted acceptance automaton
    tdirs = [d for d, k in zip(dirs, kinds) if k != "directed" and os.path.exists(os.path.join(d, "trace.txt"))]
    drv = os.path.join(core.BUILD, "clientview_driver")
    disturbed = {d for d, k in zip(dirs, kinds) if k == "faults"}
    res = core.parallel([f"{drv} {d}/trace.txt {d}/model.txt 20" + (" disturbed" if d in disturbed else "") for d in tdirs],
                        timeout=3000)
    agree = {"AGREE": 0, "DISAGREE": 0, "SKIP": 0}
    verdicts = {}
    by_version = {}
    recv = 0
    first = []
    for (rc, out), d in zip(res, tdirs):
        if rc != 0:
            o.obligation_broken(f"client view driver on {d}/trace.txt (exit {rc})", out)
            continue
        with open(f"{d}/model.txt", encoding="utf-8", errors="replace") as f:
            for line in f:
                w = line.split()
                if not w or w[0] not in agree:
                    continue
                agree[w[0]] += 1
                m = re.search(r"real=(.*?) model=(\S+)", line)
                if m:
                    key = f"real {m.group(1)} / model {m.group(2)}"
                    verdicts[key] = verdicts.get(key, 0) + 1
                m = re.search(r"recv=(\d+)", line)
                if m and w[0] == "AGREE":
                    recv += int(m.group(1))
                m = re.search(r" ver=(\d+)", line)
                if m:
                    key = f"1.{m.group(1)} {w[0]}"
                    by_version[key] = by_version.get(key, 0) + 1
                if w[0] == "DISAGREE" and len(first) < 5:
                    first.append(d + ": " + line.strip()[:600])
    if agree["DISAGREE"]:
        o.obligation_broken("correspondence client view: the acceptance automaton and Client::run disagree on %d of %d sessions"
                            % (agree["DISAGREE"], sum(agree.values())), "\n".join(first))
    st = merge_stats(dirs)
    o.coverage.update({
        "evaluations": st["cases"],
        "distinct_nontrivial": st["distinct_nontrivial"],
        "rule": "one evaluation = one multi-client program executed to quiescence on the real Client/Broker/Connection "
                "tasks under one seeded schedule and judged by the oracle (run() results, panics, API error classes, call "
                "values, item order, hang/spin/budget, idle shutdown, and the EVENT oracle: per proxy and key (event id 0..3, "
                "all events) the subscription state known from the program; a key subscribed before a rendezvous (rz: all "
                "clients sync_broker, barrier, sync_broker, barrier) of the proxy's client and the owner is confirmed, and every "
                "event emitted under a confirmed key must reach that proxy exactly once, in emit order, until the application "
                "unsubscribes/drops that very proxy - awaited without bound, quiescence = event-lost; a delivered event must "
                "have been emitted while the proxy was subscribed at some time between emit and delivery). distinct_nontrivial = distinct operation lists "
                "(FNV hash) with >= 2 active clients, >= 8 operations and at least one cross-client operation (proxy of "
                "another client's service or claim of another client's channel end). Programs: 2-4 clients x up to "
                f"{ops} operations each over objects, services + server tasks, proxies, calls (awaited / dropped / "
                "cancelled / held), events, subscribe-all, channels created either way (half of the programs); the other half "
                "is event-themed: 1-3 services, per client up to 8 live proxies in families of 1-5 per service created at "
                "different times with different subscription sets (single events, all events, both, none), subscribe / "
                "unsubscribe / subscribe_all / unsubscribe_all / drops at any point while siblings stay, rendezvous rounds, "
                "owner emit bursts over subscribed and unsubscribed ids racing with the next round's changes, early "
                "disconnects; one third of these sparse (few single-event subscriptions that come and go next to all-events "
                "subscriptions of the same and of other connections); measured shape counters in result_classes: "
                "subend.siblings_mixed[_confirmed], subend.last_single_event_while_all_events_{elsewhere,same_client}, "
                "proxy.siblings_at_creation.N, event.must_{recorded,delivered}. Also claims by any client incl. refused, "
                "cancelled and repeated claims, items with capacity, bus listeners, explicit shutdown; transports "
                "unbounded and bounded(1..16); 1/6 of the cases with spurious polls; protocol versions: in half of the programs "
                "every client negotiates its own version 1.14..1.20 (recorded as ver= in the program; 1.14 through the old "
                "Connect handshake, 1.15-1.19 by clamping the minor version of the client's Connect2 in the tap), the oracle "
                "allows Error::NotSupported for subscribe_all exactly when the proxy's or the owner's connection is below 1.18, "
                "checks Handle::version() and that no client receives a Shutdown it did not ask for (closed-by-broker); the "
                "acceptance automaton replays every session with that session's negotiated version. Plus the directed programs of "
                "design/C06.md under many schedules, and disturbed sessions (fault-injecting tap) for the correspondence only",
        "samples": st["samples"],
        "input_distribution": {k: st.get(k) for k in ("cases", "ops", "polls", "by_transport", "by_clients",
                                                      "result_classes", "fault_cases")},
        "monitor_failures": len(mon),
        "failure_tags": per_tag,
        "correspondence_sessions": agree,
        "correspondence_verdicts": verdicts,
        "correspondence_sessions_by_protocol_version": dict(sorted(by_version.items())),
        "correspondence_received_messages_agreed": recv,
    })


def run(tier, seed):
    o = Outcome(PROP, tier, seed)
    o.assumptions = list(core.TRUSTED_BASE_COMMON) + [
        "modelled, not verified: Client::handle_message and every msg_* handler as Proto/ClientView.v recv (checked "
        "against the real Client::run on observed and disturbed sessions, both verdict directions); RawChannel / "
        "Unclaimed* / Pending* / Sender / Receiver typestate as app_step (two source shapes read by tools/rs2v_client.py); "
        "the broker's channel arms through Broker/Model.v chan_* functions; listener arms mirrored in lbroker",
        "the deterministic executor of harness/src/bin/sched.rs (wakers honoured, seeded choice among woken tasks, optional "
        "spurious polls), its oracle, its shrinker and its classification of failures",
        "std HashMap iteration order and Uuid::new_v4 are not replayed: a stored program is re-run under many schedules",
        "partial: wake-up delivery, fairness of the select loops and absence of livelock are explored by the seeded "
        "scheduler (exploration, not proof); the queueing-network theorem proves only that some step is enabled",
    ]
    if os.path.exists(os.path.join(core.COQ, PROPS_FILE)):
        proof_side(o, PROPS_FILE, PINS)
    else:
        o.obligation_broken(PROPS_FILE, "theorem file missing")
    o.coverage["trusted_base"] = o.assumptions
    try:
        src = open(os.path.join(core.COQ, "gen", "ClientConsts.v"), encoding="utf-8").read()
        shape = {k: (re.search(r"Definition %s : bool := (\w+)\." % k, src) or [None, "?"])[1]
                 for k in ("CLAIM_REFUSED_MARKS_CLOSED", "CLOSE_REPLY_ASSERTS", "DRAIN_MARKS_ABORTED")}
    except OSError:
        shape = {}
    o.coverage["source_shape"] = shape
    o.coverage["explanation"] = (
        "proof for the protocol logic, partial for scheduling: the acceptance automaton of the client, the handle-side "
        "typestate of channel ends, the listener protocol and one service's call protocol are Coq models; "
        "C06_reply_matching, C06_calls, C06_listeners, C06_no_deadlock and C06_channel_ends (repaired claim() error path, "
        "claims awaited) hold for ALL schedules of their composed systems, and the slices used there are proved to be the "
        "acceptance automaton restricted to one cookie; C06_channel_ends is REFUTED for the source shape at the pinned "
        "commit (witness reproduced on the real code) and C06_channel_ends_this_tree states what holds for the shape read "
        "from the tree; cancelled claims and double binds stay refuted (known findings). The broker side of the composed "
        "systems is Model.v's channel functions / a mirror of its listener and service arms / the reply contract (which "
        "Model.step is proved to keep: C06_reply_contract_model), not the whole Model.step. Lost wake-ups, deadlock of the real tasks on "
        "bounded FIFOs, livelock and fairness are runtime behaviour: explored by the seeded scheduler over random "
        "programs, not proved")
    per_shard, shards, ops, reps = SIZES[tier]
    search(o, per_shard, shards, ops, reps, seed)
    return finish(o)


def replay(path):
    r = json.load(open(path))
    print(json.dumps({k: v for k, v in r.items() if k != "input"}, indent=1)[:3000])
    case = r.get("input", {}).get("case")
    if not case:
        return 0
    print("\n".join(describe(case)))
    o = Outcome(PROP, "quick", 0)
    if not build(o):
        return 1
    d = workdir("replay")
    with open(f"{d}/in.txt", "w") as f:
        f.write(case + "\n")
    rc, out, _ = core.sh(f"{core.harness_bin('sched')} run {d}/in.txt {d} 300", timeout=900)
    if rc != 0:
        print("harness failed:", out)
        return 1
    classes = {}
    with open(f"{d}/impl.txt", encoding="utf-8", errors="replace") as f:
        for line in f:
            key = "ok" if line.startswith("ok") else line.split(" :: ")[0]
            classes[key] = classes.get(key, 0) + 1
    for k, v in sorted(classes.items(), key=lambda x: -x[1]):
        print(f"{v:5d} schedules: {k}")
    first = next((l for l in open(f"{d}/impl.txt") if not l.startswith("ok")), None)
    if first:
        print("first failure:", first.strip()[:1500])
    bad = sum(v for k, v in classes.items() if k != "ok")
    print("reproduced" if bad else "not reproduced under 300 schedules")
    return 1 if bad else 0
