"""Shared body of the broker-family checks (C02 C03 C04 C05 C09 C10 C11 C12)."""
import json
import os

from vlib import broker, core
from vlib.core import Outcome, finish, proof_side

SIZES = {"quick": (4000, 80, 8), "thorough": (400000, 120, 16)}

ASSUME = [
    "modelled, not verified: broker/src/broker.rs handle_event + process_loop_result and broker/src/broker/{channel,"
    "service,object,conn_state,state}.rs, broker/src/bus_listener.rs as the abstract machine coq/Broker/Model.v (one "
    "atomic step per dequeued event; state without the Rust's redundant mirrors)",
    "fresh cookies (Uuid::new_v4) and broker-side call serials (SerialMap::insert) are model inputs read off the "
    "implementation's trace; theorems assume only that they are not in use",
    "hash-map iteration order: the model iterates in key order; outputs are compared per connection as multisets "
    "(at ShutdownBroker only the Shutdown messages, the rest depends on that order and goes to connections being removed)",
    "payloads are opaque ids in the model (the harness maps them to byte strings); the Connection task's payload "
    "conversion is covered by C12/C13",
    "the deterministic executor (no-op waker, poll to quiescence) and futures-channel mpsc semantics",
    "feature set as the test suite builds the broker: statistics on, introspection off",
]


def run_check(prop, props_file, pins, mixes, tier, seed, extra_assume=(), explanation=None, extra=None):
    o = Outcome(prop, tier, seed)
    o.assumptions = list(core.TRUSTED_BASE_COMMON) + ASSUME + list(extra_assume)
    if props_file and os.path.exists(os.path.join(core.COQ, props_file)):
        proof_side(o, props_file, pins)
    else:
        o.obligation_broken(f"{props_file}", "theorem file missing")
    o.coverage["trusted_base"] = o.assumptions
    if explanation:
        o.coverage["explanation"] = explanation
    broker.correspondence(o, prop, tier, seed, mixes, SIZES)
    if extra:
        extra(o, tier, seed)
    if o.broken and not o.violations and tier == "quick":
        o.coverage["search_note"] = "correspondence re-run on a 10x larger sample after an obligation broke"
        o2 = Outcome(prop, tier, seed + 7)
        h, s, sh = SIZES["quick"]
        broker.correspondence(o2, prop, "quick", seed + 7, mixes, {"quick": (h * 10, s, 16)})
        o.violations += o2.violations
    return finish(o)


def replay(prop, path):
    r = json.load(open(path))
    print(json.dumps({k: v for k, v in r.items() if k != "history"}, indent=1)[:3000])
    for e in r.get("history", []):
        print("  EV", e)
    print("(the history is the list of injected events; harness seed = history_seed; "
          "re-run `./check %s` to regenerate and compare)" % prop)
    return 0
