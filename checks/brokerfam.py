"""Shared body of the broker-family checks (C02 C03 C04 C05 C09 C10 C11 C12)."""
import json
import os

from vlib import broker, core
from vlib.core import Outcome, finish, proof_side

SIZES = {"quick": (4000, 80, 8), "thorough": (400000, 120, 16)}

ASSUME = [
    "modelled, not verified: broker/src/broker.rs handle_event + process_loop_result and broker/src/broker/{channel,"
    "service,object,conn_state,state}.rs, broker/src/bus_listener.rs as the abstract machine coq/Broker/Model.v (one "
    "atomic step per dequeued event; state without the Rust's redundant mirrors)",
    "fresh cookies (Uuid::new_v4) are model inputs read off the implementation's trace; theorems assume only that "
    "they are not in use.  Broker-side call serials are NOT inputs: SerialMap::insert is modelled (Broker/Model.v "
    "sm_probe/sm_choice, text of the Rust function pinned by tools/rs2v_broker.py); the serial observed on the trace "
    "is only compared with the model's choice (a difference is a C02 divergence); theorems assume that fewer than "
    "2^32 calls are pending",
    "hash-map iteration order: the model iterates in key order; outputs are compared per connection as multisets "
    "(at ShutdownBroker only the Shutdown messages, the rest depends on that order and goes to connections being removed)",
    "payloads are opaque ids in the model (the harness maps them to byte strings); the Connection task's payload "
    "conversion is covered by C12/C13",
    "the deterministic executor (no-op waker, poll to quiescence) and futures-channel mpsc semantics",
    "feature set as the test suite builds the broker: statistics on, introspection off",
]


def run_check(prop, props_file, pins, mixes, tier, seed, extra_assume=(), explanation=None, extra=None):
    o = Outcome(prop, tier, seed)
    o.assumptions = list(core.TRUSTED_BASE_COMMON) + ASSUME + list(extra_assume)
    if props_file and os.path.exists(os.path.join(core.COQ, props_file)):
        proof_side(o, props_file, pins)
    else:
        o.obligation_broken(f"{props_file}", "theorem file missing")
    o.coverage["trusted_base"] = o.assumptions
    if explanation:
        o.coverage["explanation"] = explanation
    broker.correspondence(o, prop, tier, seed, mixes, SIZES)
    if extra:
        extra(o, tier, seed)
    if o.broken and not o.violations and tier == "quick":
        o.coverage["search_note"] = "correspondence re-run on a 10x larger sample after an obligation broke"
        o2 = Outcome(prop, tier, seed + 7)
        h, s, sh = SIZES["quick"]
        broker.correspondence(o2, prop, "quick", seed + 7, mixes, {"quick": (h * 10, s, 16)})
        o.violations += o2.violations
    return finish(o)


def replay(prop, path):
    """re-execute the stored history against the real broker and the extracted Coq model; exit 1
    iff a fresh run diverges with a class that contains `prop` (or the implementation panics).
    The broker's hash maps are seeded per process and cookies are random, so a defect that depends
    on iteration order shows only in some executions of the same history: the history is
    re-executed up to VERIF_REPLAY_TRIES (default 12) times, until the violation shows."""
    r = json.load(open(path))
    events = r.get("history", [])
    print("recorded violation:")
    print(json.dumps({k: v for k, v in r.items() if k != "history"}, indent=1)[:3000])
    print(f"history: {len(events)} injected events (recorded harness seed {r.get('history_seed')}, mix {r.get('mix', '?')})")
    for e in events:
        print("  EV", e)
    if not events:
        print("the replay file has no history (an obligation replay): nothing to re-execute; "
              "re-run `./check %s`" % prop)
        return 0
    o = Outcome(prop, "replay", 0)
    if not broker.build(o):
        print("BUILD FAILED: " + "; ".join(str(b)[:2000] for b in o.broken))
        return 2
    tries = max(1, int(os.environ.get("VERIF_REPLAY_TRIES", "12") or "12"))
    agreeing, foreign = 0, []
    for attempt in range(1, tries + 1):
        d, rc, out, ok, steps, divs = broker.replay_history(prop, events)
        if rc != 0:
            print(f"REPLAY MACHINERY FAILED in {d} (exit {rc}): {out[:2000]}")
            return 2
        if not divs:
            agreeing += 1
            print(f"re-execution {attempt}: fresh verdict: OK replay steps={steps}")
            continue
        for dv in divs:
            print(f"re-execution {attempt} in {d} (trace.txt = what the real broker did, verdict.txt = comparison "
                  f"with the model): fresh verdict: DIVERGE step={dv['step']} what={dv['what']}")
            print(f"  event: {dv['ev']}")
            print(f"  impl : {dv['impl']}")
            print(f"  model: {dv['model']}")
            if dv["what"].startswith(("DRIVER", "HARNESS")):
                print("  the history could not be re-executed to the end (harness/driver error)")
                return 2
            if prop in broker.classes(dv["what"]) or "implementation-panic" in dv["what"]:
                same = "the same class as recorded" if dv["what"] == r.get("what") else f"recorded class: {r.get('what')}"
                at = "at the recorded step" if dv["step"] == r.get("failing_step") else f"recorded step: {r.get('failing_step')}"
                print(f"  REPRODUCED: violation of {prop} ({same}; {at}) in re-execution {attempt} of at most {tries}"
                      + (f"; {agreeing} earlier re-execution(s) agreed with the model: the failure depends on the "
                         f"broker's per-process hash-map order / random cookies" if agreeing else ""))
                return 1
            foreign.append(dv["what"])
    print(f"the recorded violation did NOT reproduce in {tries} re-executions: {agreeing} agreed with the model on every step"
          + (f", {len(foreign)} diverged with a class that does not contain {prop}: {sorted(set(foreign))}" if foreign else ""))
    return 0
