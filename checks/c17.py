"""C17 — the schema front end is total and repeatable (DESIGN §4 C17).  Level: partial — the span
arithmetic and determinism of the modelled functions are proved; panics are observed."""
import os

from checks import c18 as base
from vlib import core
from vlib.core import Outcome, finish, proof_side

PROP = "C17"
PROPS_FILE = "Props/C17.v"
PINS = {
    "C17_span": "forall docs tl col e, 1 <= col -> linecol_to_index docs tl col e <> RPanic",
    "C17_span_in_bounds": "forall docs tl col e i, 1 <= col -> linecol_to_index docs tl col e = RSome i -> exists d idx, In d docs /\\ i = d_start d + idx /\\ idx <= lenN (d_value d) /\\ is_char_boundary (d_value d) idx = true",
    "C17_span_column_zero_refuted": "linecol_to_index",
    "C17_indent": "forall ind a, (forall n, (n <= 12)%nat -> ind n = indent_real n) -> print_with ind a = print a",
    "C17_sourcepos": "forall docs sl sc el ec, 1 <= sc -> 1 <= ec -> sourcepos_to_span docs sl sc el ec <> SPanic",
}
SIZES = {"quick": (24000, 8), "thorough": (800000, 16)}
# generator coverage the check insists on (per run, all shards together): every (markdown link form x
# import situation of the link's target schema) cell, and both outcomes of every lookup that is keyed by
# a name from the source text (see design/C17.md, "Name-keyed lookups")
MIN_CELL = {"quick": 40, "thorough": 1000}
REQUIRED_RESOLUTIONS = [
    # LinkResolver::resolve: import list of the linking schema (absent / present), then the schema map (absent / present)
    "Err:SchemaNotFound:not_imported", "Err:SchemaNotFound:not_imported_but_in_schema_map",
    "Err:SchemaNotFound:imported_but_not_in_schema_map", "Ok:Schema:other_schema",
    # definitions of the target schema: own / import that parsed / import without text / import with a syntax error
    "Err:DefinitionNotFound:own_schema", "Err:DefinitionNotFound:import", "Err:DefinitionNotFound:unreadable_import",
    "Err:DefinitionNotFound:import_without_definitions",
    "Ok:Struct", "Ok:Struct:other_schema", "Ok:Enum", "Ok:Enum:other_schema", "Ok:Service", "Ok:Service:other_schema",
    "Ok:Const", "Ok:Const:other_schema", "Ok:Newtype", "Ok:Newtype:other_schema",
    # members
    "Ok:Field", "Ok:Field:other_schema", "Err:FieldNotFound", "Ok:FallbackField", "Err:LinkIntoField",
    "Ok:Variant", "Ok:Variant:other_schema", "Err:VariantNotFound", "Ok:FallbackVariant", "Err:LinkIntoVariant",
    "Ok:Function", "Ok:Function:other_schema", "Ok:Event", "Ok:Event:other_schema", "Err:ItemNotFound",
    "Ok:FunctionFallback", "Ok:EventFallback", "Err:InvalidFunctionPart", "Err:InvalidEventPart",
    "Ok:FunctionPartInlineType", "Ok:FunctionPartInlineMember", "Ok:EventInlineType", "Ok:EventInlineMember",
    "Err:InlineFieldNotFound", "Err:InlineVariantNotFound", "Err:NoFunctionArgsInlineType", "Err:NoFunctionOkInlineType",
    "Err:NoFunctionErrInlineType", "Err:NoEventInlineType", "Err:LinkIntoConst", "Err:LinkIntoNewtype", "Err:InvalidFormat",
    "Ok:Foreign",
]
REQUIRED_REFS = [f"{pos}|{sit}|{cls}" for pos in ("type", "array_len")
                 for sit, cls in (("self", "right_kind"), ("self", "wrong_kind"), ("self", "undefined"), ("resolves", "right_kind"),
                                  ("resolves", "wrong_kind"), ("resolves", "undefined"), ("missing", "undefined"),
                                  ("unreadable", "undefined"), ("syntax_error", "undefined"), ("not_imported", "undefined"),
                                  ("not_imported", "right_kind"), ("keyword", "undefined"))]
REQUIRED_KINDS = ["ImportNotFound", "MissingImport", "TypeNotFound", "ConstIntNotFound", "ExpectedTypeFoundConst",
                  "ExpectedTypeFoundService", "ExpectedConstIntFoundType", "ExpectedConstIntFoundService",
                  "ExpectedConstIntFoundString", "InvalidArrayLen", "InvalidKeyType", "RecursiveStruct", "RecursiveEnum",
                  "RecursiveNewtype", "DuplicateServiceUuid", "DuplicateImport", "UnusedImport", "IoError", "InvalidSyntax",
                  "ReservedIdent", "InvalidEscapeCode", "BrokenDocLink"]


def generator_coverage(o, st, tier):
    """the input distribution is part of the check: a generator that silently stops producing a class of
    inputs (a link form, an import situation, a lookup outcome) is a broken obligation, not a pass"""
    m = st.get("doc_link_matrix") or {}
    low = sorted((v, k) for k, v in m.items() if v < MIN_CELL[tier])
    forms = {k.split("|")[0] for k in m}
    sits = {k.split("|")[1] for k in m}
    if not m or low or len(forms) < 16 or len(sits) < 7:
        o.obligation_broken("generator coverage: doc links by (link form x import situation of the target schema)",
                            f"{len(forms)} forms x {len(sits)} situations; cells below {MIN_CELL[tier]}: {low[:12]}")
    res = st.get("link_resolutions") or {}
    miss = [k for k in REQUIRED_RESOLUTIONS if not res.get(k)]
    refs = st.get("named_ref_matrix") or {}
    miss += [k for k in REQUIRED_REFS if not refs.get(k)]
    kinds = st.get("diagnostic_kinds") or {}
    miss += [k for k in REQUIRED_KINDS if not kinds.get(k)]
    classes = st.get("result_classes") or {}
    if not classes.get("stream_class:valid_doc_links_clean:no_errors"):
        miss.append("stream_class:valid_doc_links_clean:no_errors (code generation over schemas with doc links)")
    if miss:
        o.obligation_broken("generator coverage: outcomes of the name-keyed lookups never observed", ", ".join(miss))
    return {"doc_link_matrix_min_cell": min(m.values()) if m else 0, "doc_link_forms": len(forms),
            "doc_link_situations": len(sits), "doc_links_generated": sum(m.values()),
            "links_resolved_by_the_real_resolver": sum(res.values())}


def correspondence(o, n, shards, seed, tier="quick"):
    if not base.build(o):
        return
    lst, nfiles = base.repo_files(PROP)
    per = max(1, n // shards)
    cmds = []
    for i in range(shards):
        d = base.workdir(PROP, f"s{i}")
        cmds.append((f"VERIF_SEED={seed * 1000 + i} {core.harness_bin('schema')} c17 {d} {per} {lst}", d))
    base.run_harness(o, cmds)
    dirs = [d for _, d in cmds]
    base.run_model(o, dirs)
    compared, ops, abstained, ndiff = base.diff_dirs(o, dirs, "accept/reject + AST of the model parser; doc-link spans")
    kinds = base.report_monitor(o, base.read_lines(dirs, "monitor.txt"), mode="c17")
    ties = base.read_lines(dirs, "tie.txt")
    if ties:
        o.obligation_broken(f"correspondence of the span model with BrokenDocLink ({len(ties)} cases)", "\n".join(t[:600] for t in ties[:5]))
    st = base.merge_stats(dirs)
    o.coverage.update({
        "evaluations": compared,
        "distinct_nontrivial": st.get("distinct_nontrivial", 0),
        "rule": "source texts from seven streams (token soups over the grammar's alphabet incl. stray characters and Unicode "
                "spaces; 1-3 mutations of generated valid schemas; 1-3 mutations of every repository schema; the repository "
                "schemas; generated valid schemas with adversarial doc comments: markdown links/references/footnotes/tables/"
                "task lists, CR/LF mixes, tabs, multi-byte characters at span boundaries) with six import situations (none, "
                "resolvable, unreadable, mutated/soup imports, cyclic imports sharing a service uuid); name-directed schemas "
                "(valid_doc_links, a quarter of them free of diagnostics so that code generation runs, and byte mutations of "
                "them): a main schema in a world of schemas in known situations (import missing from the resolver / unreadable / "
                "syntax error / resolves incl. cycles through main and transitively loaded schemas / not imported / the schema "
                "itself / keyword names), whose doc comments carry links in 16 markdown forms (inline, title, <..>, full/"
                "collapsed/shortcut references, broken-reference callbacks with and without code spans, autolinks, images, "
                "nested, in lists/quotes/headings/tables/footnotes/code, split over lines and CRs) whose schema component and "
                "item path are drawn from that world (defined / near miss / mangled / generic / schema only; scoped, unscoped, "
                "self::, ::self::, own name, malformed), and whose named references in type, key and array-length position are "
                "drawn the same way (right kind / wrong kind / undefined); the matrices are in input_distribution and every "
                "(link form x situation) cell and every outcome of the name-keyed lookups is REQUIRED (generator_coverage); "
                "each input goes TWICE through "
                "Parser::parse, every Error/Warning render (colour/unicode/width 20..400), Formatter and, only when there is "
                "no error, Generator::rust (client/server/introspection variants) under catch_unwind; monitors: no panic, "
                "same position-free diagnostics, same rendered text (as sorted multisets), same formatted and generated "
                "text, code generation never reached with errors, doc-link spans in bounds on char boundaries; "
                "correspondence: model parser accept/reject and AST, model sourcepos_to_span vs the spans of the real "
                "BrokenDocLink warnings (comrak positions re-derived with the same options). distinct_nontrivial = distinct "
                "source texts of >= 2 bytes",
        "samples": st.get("samples", []),
        "input_distribution": {k: st.get(k) for k in ("inputs", "result_classes", "diagnostic_kinds", "doc_link_matrix",
                                                        "doc_link_paths", "named_ref_matrix", "link_resolutions")},
        "generator_coverage": generator_coverage(o, st, tier),
        "correspondence_ops": ops,
        "model_abstained": abstained,
        "repository_files": nfiles,
        "monitor_failures": kinds,
        "disagreements": ndiff,
    })


def run(tier, seed):
    o = Outcome(PROP, tier, seed)
    o.assumptions = list(core.TRUSTED_BASE_COMMON) + [
        "partial: 'never panics' is a fact about the Rust run time; it is observed under catch_unwind (overflow checks and debug "
        "assertions on), not proved. pest, comrak and annotate-snippets are not modelled",
        "modelled, not verified: BrokenDocLink::linecol_to_index / sourcepos_to_span as Schema/Span.v; Formatter::indent via Schema/Printer.v",
    ]
    if os.path.exists(os.path.join(core.COQ, PROPS_FILE)):
        proof_side(o, PROPS_FILE, PINS)
    else:
        o.obligation_broken("Props/C17.v", "theorem file missing")
    o.coverage["trusted_base"] = o.assumptions
    o.coverage["explanation"] = ("proved on the model: the span arithmetic never underflows for column >= 1 and yields in-bounds "
                                 "char-boundary indices or None (column 0 is a refuted lemma, never observed from comrak); "
                                 "indent never indexes past INDENT; the modelled functions are pure. Observed: panics, "
                                 "repeatability of diagnostics, reachability of code generation")
    n, shards = SIZES[tier]
    correspondence(o, n, shards, seed, tier)
    return finish(o)


def replay(path):
    return base.replay_common(PROP, "c17", path)
