"""C17 — the schema front end is total and repeatable (DESIGN §4 C17).  Level: partial — the span
arithmetic and determinism of the modelled functions are proved; panics are observed."""
import os

from checks import c18 as base
from vlib import core
from vlib.core import Outcome, finish, proof_side

PROP = "C17"
PROPS_FILE = "Props/C17.v"
PINS = {
    "C17_span": "forall docs tl col e, 1 <= col -> linecol_to_index docs tl col e <> RPanic",
    "C17_span_in_bounds": "forall docs tl col e i, 1 <= col -> linecol_to_index docs tl col e = RSome i -> exists d idx, In d docs /\\ i = d_start d + idx /\\ idx <= lenN (d_value d) /\\ is_char_boundary (d_value d) idx = true",
    "C17_span_column_zero_refuted": "linecol_to_index",
    "C17_indent": "forall ind a, (forall n, (n <= 12)%nat -> ind n = indent_real n) -> print_with ind a = print a",
    "C17_sourcepos": "forall docs sl sc el ec, 1 <= sc -> 1 <= ec -> sourcepos_to_span docs sl sc el ec <> SPanic",
}
SIZES = {"quick": (24000, 8), "thorough": (800000, 16)}


def correspondence(o, n, shards, seed):
    if not base.build(o):
        return
    lst, nfiles = base.repo_files(PROP)
    per = max(1, n // shards)
    cmds = []
    for i in range(shards):
        d = base.workdir(PROP, f"s{i}")
        cmds.append((f"VERIF_SEED={seed * 1000 + i} {core.harness_bin('schema')} c17 {d} {per} {lst}", d))
    base.run_harness(o, cmds)
    dirs = [d for _, d in cmds]
    base.run_model(o, dirs)
    compared, ops, abstained, ndiff = base.diff_dirs(o, dirs, "accept/reject + AST of the model parser; doc-link spans")
    kinds = base.report_monitor(o, base.read_lines(dirs, "monitor.txt"), mode="c17")
    ties = base.read_lines(dirs, "tie.txt")
    if ties:
        o.obligation_broken(f"correspondence of the span model with BrokenDocLink ({len(ties)} cases)", "\n".join(t[:600] for t in ties[:5]))
    st = base.merge_stats(dirs)
    o.coverage.update({
        "evaluations": compared,
        "distinct_nontrivial": st.get("distinct_nontrivial", 0),
        "rule": "source texts from five streams (token soups over the grammar's alphabet incl. stray characters and Unicode "
                "spaces; 1-3 mutations of generated valid schemas; 1-3 mutations of every repository schema; the repository "
                "schemas; generated valid schemas with adversarial doc comments: markdown links/references/footnotes/tables/"
                "task lists, CR/LF mixes, tabs, multi-byte characters at span boundaries) with six import situations (none, "
                "resolvable, unreadable, mutated/soup imports, cyclic imports sharing a service uuid); each goes TWICE through "
                "Parser::parse, every Error/Warning render (colour/unicode/width 20..400), Formatter and, only when there is "
                "no error, Generator::rust (client/server/introspection variants) under catch_unwind; monitors: no panic, "
                "same position-free diagnostics, same rendered text (as sorted multisets), same formatted and generated "
                "text, code generation never reached with errors, doc-link spans in bounds on char boundaries; "
                "correspondence: model parser accept/reject and AST, model sourcepos_to_span vs the spans of the real "
                "BrokenDocLink warnings (comrak positions re-derived with the same options). distinct_nontrivial = distinct "
                "source texts of >= 2 bytes",
        "samples": st.get("samples", []),
        "input_distribution": {k: st.get(k) for k in ("inputs", "result_classes", "diagnostic_kinds")},
        "correspondence_ops": ops,
        "model_abstained": abstained,
        "repository_files": nfiles,
        "monitor_failures": kinds,
        "disagreements": ndiff,
    })


def run(tier, seed):
    o = Outcome(PROP, tier, seed)
    o.assumptions = list(core.TRUSTED_BASE_COMMON) + [
        "partial: 'never panics' is a fact about the Rust run time; it is observed under catch_unwind (overflow checks and debug "
        "assertions on), not proved. pest, comrak and annotate-snippets are not modelled",
        "modelled, not verified: BrokenDocLink::linecol_to_index / sourcepos_to_span as Schema/Span.v; Formatter::indent via Schema/Printer.v",
    ]
    if os.path.exists(os.path.join(core.COQ, PROPS_FILE)):
        proof_side(o, PROPS_FILE, PINS)
    else:
        o.obligation_broken("Props/C17.v", "theorem file missing")
    o.coverage["trusted_base"] = o.assumptions
    o.coverage["explanation"] = ("proved on the model: the span arithmetic never underflows for column >= 1 and yields in-bounds "
                                 "char-boundary indices or None (column 0 is a refuted lemma, never observed from comrak); "
                                 "indent never indexes past INDENT; the modelled functions are pure. Observed: panics, "
                                 "repeatability of diagnostics, reachability of code generation")
    n, shards = SIZES[tier]
    correspondence(o, n, shards, seed)
    return finish(o)


def replay(path):
    return base.replay_common(PROP, "c17", path)
