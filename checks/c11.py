"""C11 — broker-family check (see checks/brokerfam.py and DESIGN.md §4 C11), plus the broker built WITH the
`introspection` feature (harness introdb, C09's extra step): a panic of that broker is a C11 violation too."""
import fcntl
import json
import os

from checks import brokerfam
from vlib import core
from vlib.core import Outcome

PROP = "C11"
PINS = {
    # the explicit fuel bound (Broker/FuelProofs.v): the model's own step is total
    "C11_fuel_suffices": "forall m, MI m -> exists m', settle (fuel_for m) m = Done m'",
    "C11_fuel_bound": "(3 + size (conns (ms m))) * (work_len (mw m) + state_load (ms m)) <= fuel)%nat -> exists m', settle fuel m = Done m'",
    "C11_step_total": "reachable s -> legal s i -> exists s' o, step s (i_ev i) (i_fresh i) (i_bserial i) = Done (s', o) /\\ Inv s'",
    "C11_never_panics": "reachable s -> legal s i -> step s (i_ev i) (i_fresh i) (i_bserial i) <> Panic site",
    "C11_run_total": "forall h, legal_run init h -> exists s os, run init h = Done (s, os)",
    # frame theorems (Broker/FuelProofsFrame.v, FuelProofsFrameCalls.v)
    "C11_channels_of_others_kept": "bystander_ok o1 e -> bystander_ok o2 e -> f ∉ cookies_in_use s -> step s e f b = Done (s', out) -> chans s' !! k = Some ch",
    "C11_services_of_others_kept": "bystander_ok g e -> f ∉ cookies_in_use s -> step s e f b = Done (s', out) -> owner_of_svc s' k = Some g /\\ exists sv', svcs s' !! k = Some sv' /\\ s_cookie sv' = s_cookie sv /\\ s_obj_cookie sv' = s_obj_cookie sv /\\ s_info sv' = s_info sv",
    "C11_calls_of_others_kept": "bystander_ok (c_caller cl) e -> bystander_ok g e -> f ∉ cookies_in_use s -> step s e f bs = Done (s', out) -> calls s' !! b = Some cl",
    "C11_no_panic": "site <> 0 -> step s (i_ev i) (i_fresh i) (i_bserial i) <> Panic site",
}
MIXES = ["abuse","all","abuse","all"]


def extra(o, tier, seed):
    """the introspection handlers (RegisterIntrospection / QueryIntrospection / replies, cleanup on disconnect) only
    exist with the cargo feature; C09's introdb step drives them against Broker/IntroDb.v (C09_introdb_no_panic):
    what it finds that is a PANIC of the broker task belongs to C11 as well"""
    from checks import c09
    lock = open(os.path.join(core.WORK, "C09.lock"), "w")     # the same lock `./check C09` holds (shared work/C09)
    fcntl.flock(lock, fcntl.LOCK_EX)
    try:
        o2 = Outcome("C09", tier, seed)
        c09.introdb(o2, tier, seed)
    finally:
        fcntl.flock(lock, fcntl.LOCK_UN)
    n = 0
    for what, replay in o2.violations:
        if "panic" in what.lower():
            n += 1
            o.violation("C11+C09:broker-with-introspection-feature-" + what.replace(" ", "-")[:150], replay)
    for b in o2.broken:
        if "introdb" in b["obligation"]:
            o.obligation_broken(b["obligation"], b["detail"])
    o.coverage["introspection_feature_broker"] = {"panics_found": n, "introdb": o2.coverage.get("introdb", {}).get("histories")}


def run(tier, seed):
    return brokerfam.run_check(PROP, "Props/C11.v", PINS, MIXES, tier, seed, extra=extra)


def replay(path):
    r = json.load(open(path))
    if r.get("introdb_history"):
        from checks import c09
        return c09.replay(path)
    return brokerfam.replay(PROP, path)
