"""C11 — broker-family check (see checks/brokerfam.py and DESIGN.md §4 C11)."""
from checks import brokerfam

PROP = "C11"
PINS = {
    # the explicit fuel bound (Broker/FuelProofs.v): the model's own step is total
    "C11_fuel_suffices": "forall m, MI m -> exists m', settle (fuel_for m) m = Done m'",
    "C11_fuel_bound": "(3 + size (conns (ms m))) * (work_len (mw m) + state_load (ms m)) <= fuel)%nat -> exists m', settle fuel m = Done m'",
    "C11_step_total": "reachable s -> legal s i -> exists s' o, step s (i_ev i) (i_fresh i) (i_bserial i) = Done (s', o) /\\ Inv s'",
    "C11_never_panics": "reachable s -> legal s i -> step s (i_ev i) (i_fresh i) (i_bserial i) <> Panic site",
    "C11_run_total": "forall h, legal_run init h -> exists s os, run init h = Done (s, os)",
    # frame theorems (Broker/FuelProofsFrame.v, FuelProofsFrameCalls.v)
    "C11_channels_of_others_kept": "bystander_ok o1 e -> bystander_ok o2 e -> f ∉ cookies_in_use s -> step s e f b = Done (s', out) -> chans s' !! k = Some ch",
    "C11_services_of_others_kept": "bystander_ok g e -> f ∉ cookies_in_use s -> step s e f b = Done (s', out) -> owner_of_svc s' k = Some g /\\ exists sv', svcs s' !! k = Some sv' /\\ s_cookie sv' = s_cookie sv /\\ s_obj_cookie sv' = s_obj_cookie sv /\\ s_info sv' = s_info sv",
    "C11_calls_of_others_kept": "bystander_ok (c_caller cl) e -> bystander_ok g e -> f ∉ cookies_in_use s -> step s e f bs = Done (s', out) -> calls s' !! b = Some cl",
    "C11_no_panic": "site <> 0 -> step s (i_ev i) (i_fresh i) (i_bserial i) <> Panic site",
}
MIXES = ["abuse","all","abuse","all"]


def run(tier, seed):
    return brokerfam.run_check(PROP, "Props/C11.v", PINS, MIXES, tier, seed)


def replay(path):
    return brokerfam.replay(PROP, path)
