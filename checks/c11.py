"""C11 — broker-family check (see checks/brokerfam.py and DESIGN.md §4 C11)."""
from checks import brokerfam

PROP = "C11"
PINS = {}
MIXES = ["abuse","all","abuse","all"]


def run(tier, seed):
    return brokerfam.run_check(PROP, "Props/C11.v", PINS, MIXES, tier, seed)


def replay(path):
    return brokerfam.replay(PROP, path)
