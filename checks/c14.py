"""C14 — byte-stream framing is independent of fragmentation and backpressure (DESIGN §4 C14).

Proof side: Props/C14.v (packetizer, TokioTransport, Buffered).  Correspondence: harness `stream`
(real Packetizer / TokioTransport / Buffered over a scripted I/O object) against the extracted
model, operation by operation; the monitor evaluates the property on the Rust outputs alone.
"""
import json
import os
import re
import shutil

from vlib import core
from vlib.codec import merge_stats
from vlib.core import BuildLock, Outcome, finish, proof_side

PROP = "C14"
PROPS_FILE = "Props/C14.v"
GEN_FILES = {"StreamConsts.v"}
PINS = {
    "C14_frames": "forall sh ops fs, Forall frame_ok fs -> fed sh ops = concat fs -> "
                  "delivered sh ops ++ drained_frames (final sh ops) = fs /\\ leftover (final sh ops) = []",
    "C14_frames_prefix": "Forall frame_ok fs -> incomplete rest -> fed sh ops = concat fs ++ rest -> "
                         "delivered sh ops ++ drained_frames (final sh ops) = fs /\\ leftover (final sh ops) = rest",
    "C14_fragmentation_independent": "fed sh1 ops1 = concat fs ++ rest -> fed sh2 ops2 = fed sh1 ops1 -> "
                                     "delivered sh1 ops1 ++ drained_frames (final sh1 ops1) = "
                                     "delivered sh2 ops2 ++ drained_frames (final sh2 ops2) /\\ "
                                     "leftover (final sh1 ops1) = leftover (final sh2 ops2)",
    "C14_only_complete": "fed sh (ops1 ++ ops2) = concat fs ++ rest -> (exists k, delivered sh ops1 = firstn k fs) /\\ "
                         "concat (delivered sh ops1) ++ buf (final sh ops1) = fed sh ops1",
    "C14_spare_nonempty": "forall sh s room, sh <> ShapeOrig -> reachable sh s -> 0 < snd (spare sh room s)",
    "C14_spare_nonempty_drained": "reachable sh s -> snd (next_message s) = None -> "
                                  "0 < snd (spare sh room (fst (next_message s)))",
    "C14_spare_nonempty_refuted": "exists s room, reachable ShapeOrig s /\\ snd (spare ShapeOrig room s) = 0",
    "C14_spare_this_tree": "| ShapeOrig => exists s room, reachable this_shape s /\\ snd (spare this_shape room s) = 0 "
                           "| _ => forall s room, reachable this_shape s -> 0 < snd (spare this_shape room s)",
    "C14_tokio_send": "snd (trun sh ops (tk_new r w)) ++ wbuf (fst (fst (fst (trun sh ops (tk_new r w))))) = sent_of ops",
    "C14_tokio_flush": "send_poll_flush t1 = (t2, PReady tt, out) -> o1 ++ out = sent_of ops /\\ wbuf t2 = []",
    "C14_tokio_write_zero": "wbuf t <> [] -> wscript t = WriteOk 0 :: w -> "
                            "send_poll_flush t = (mkTk (pz t) (wbuf t) (rscript t) w, PErr EWriteZero, [])",
    "C14_tokio_recv": "script_data r = concat fs ++ rest -> trun sh ops (tk_new r w) = (t', obs, cin, wout) -> "
                      "(exists k, recv_frames obs = firstn k fs) /\\ concat (recv_frames obs) ++ buf (pz t') = cin",
    "C14_tokio_recv_complete": "script_data (rscript t') = [] -> recv_frames obs = fs /\\ buf (pz t') = rest",
    "C14_tokio_recv_eof": "rscript t = ReadOk [] :: rs -> snd (fst (receive_poll sh (S fuel) rooms t)) = PErr EUnexpectedEof",
    "C14_buffered_fifo": "wout ++ wbuf (inner b') ++ concat (queue b') = wbuf (inner b) ++ concat (queue b) ++ bsent_of ops",
}
# (random cases per shard, shards); every shard also runs the directed cases and its part of the
# exhaustive chunkings of all streams of at most 12 bytes
SIZES = {"quick": (1500, 8), "thorough": (30000, 16)}
SPARE_WHAT = "spare_capacity_mut"


def spare_shape():
    try:
        src = open(os.path.join(core.COQ, "gen", "StreamConsts.v"), encoding="utf-8").read()
        m = re.search(r"Definition SPARE_SHAPE : N := (\d+)\.", src)
        return int(m.group(1)) if m else None
    except OSError:
        return None


def build(o):
    ok = True
    with BuildLock():
        core.regen_for(o, GEN_FILES)
        okc, outc, _ = core.cargo_build(["stream"])
        if not okc:
            o.obligation_broken("cargo build of the stream harness against /repo", outc)
            ok = False
        okb, outb, _ = core.coq_build(["Stream/Tokio.v"])
        if not okb:
            o.obligation_broken("coq build of the executable stream model", outb)
            return False
        okd, outd = core.build_driver("ExtractStream.v", "stream_model", "stream_driver.ml", "stream_driver")
        if not okd:
            o.obligation_broken("extraction/compilation of the stream model driver", outd)
            ok = False
    return ok


def workdir(name):
    d = os.path.join(core.WORK, PROP, name)
    shutil.rmtree(d, ignore_errors=True)
    os.makedirs(d, exist_ok=True)
    return d


def model_cmd(d, cases="cases.txt", model="model.txt"):
    return (f"ulimit -s unlimited 2>/dev/null || ulimit -s 1000000; "
            f"{os.path.join(core.BUILD, 'stream_driver')} {d}/{cases} {d}/{model}")


def correspondence(o, n, shards, seed):
    if not build(o):
        return
    dirs = [workdir(f"s{i}") for i in range(shards)]
    res = core.parallel([f"VERIF_SEED={seed * 1000 + i} {core.harness_bin('stream')} gen {d} {n} {i} {shards}"
                         for i, d in enumerate(dirs)], timeout=3000)
    for (rc, out), d in zip(res, dirs):
        if rc != 0:
            o.obligation_broken(f"harness stream gen (exit {rc})", out)
    res = core.parallel([model_cmd(d) for d in dirs], timeout=3000)
    for (rc, out), d in zip(res, dirs):
        if rc != 0:
            o.obligation_broken(f"model driver on {d}/cases.txt (exit {rc})", out)
    compared = 0
    ndiff = 0
    first = []
    for d in dirs:
        try:
            c, diffs = core.diff_lines(f"{d}/cases.txt", f"{d}/impl.txt", f"{d}/model.txt")
        except OSError as e:
            o.obligation_broken("correspondence files", str(e))
            continue
        compared += c
        ndiff += len(diffs)
        first += [{k: str(v)[:400] for k, v in x.items()} for x in diffs if x][:3]
    # monitor: what \t case id \t ops joined by ';' ; the shortest op list is the replay
    mon = []
    for d in dirs:
        p = os.path.join(d, "monitor.txt")
        if os.path.exists(p):
            with open(p, encoding="utf-8", errors="replace") as f:
                for line in f:
                    parts = line.rstrip("\n").split("\t")
                    if len(parts) == 3:
                        mon.append((parts[0], parts[2].split(";")))
    mon.sort(key=lambda m: (len(m[1]), sum(len(x) for x in m[1])))
    for what, ops in mon[:400]:
        o.violation(what, {"input": {"ops": ops}, "how": "run the ops in order against a fresh Packetizer/transport "
                           "(./check C14 --replay <this file>)"})
    if ndiff:
        o.obligation_broken("correspondence packetizer/tokio/buffered: model and implementation differ on %d of %d ops"
                            % (ndiff, compared), json.dumps(first[:5])[:3000])
    st = merge_stats(dirs)
    shape = spare_shape()
    spare_hits = sum(1 for w, _ in mon if w.startswith(SPARE_WHAT))
    if shape == 0 and spare_hits == 0 and not o.broken:
        o.obligation_broken("C14_spare_nonempty_refuted is in force for this tree but its witness did not reproduce "
                            "on the real Packetizer", "the directed refill cases returned non-empty slices")
    o.coverage.update({
        "evaluations": compared,
        "distinct_nontrivial": st.get("distinct_nontrivial", 0),
        "rule": "one evaluation = one operation executed on the real code and on the extracted model with equal "
                "canonical output (frames as hex, long ones as length+FNV). distinct_nontrivial = distinct operation "
                "sequences (hash of the op list) that feed at least two pieces or at least two frames. Streams: "
                "directed cases (unit tests of /repo, refill without draining, frames of 65535..131073 bytes), ALL "
                "chunkings of every frame stream of <= 12 bytes x {extend_from_slice, spare/bytes_written, mixed} x "
                "{next_message after every piece, never, at random}, random frame lists (5 bytes .. 131077 bytes, raw "
                "frames and real serialized messages) with random chunkings down to single bytes; TokioTransport and "
                "Buffered over scripted I/O (short reads/writes, Pending, errors, EOF, zero-length write)",
        "samples": st.get("samples", []),
        "input_distribution": {k: st.get(k) for k in ("cases", "case_kinds", "ops", "result_classes", "frame_sizes",
                                                      "chunk_sizes")},
        "monitor_failures": len(mon),
        "spare_empty_slice_hits": spare_hits,
        "disagreements": ndiff,
    })


def run(tier, seed):
    o = Outcome(PROP, tier, seed)
    o.assumptions = list(core.TRUSTED_BASE_COMMON) + [
        "modelled, not verified: Packetizer as Stream/Packetizer.v, TokioTransport and Buffered as Stream/Tokio.v; "
        "the bodies of the modelled functions are compared text-for-text by tools/rs2v.py (TieError on any change)",
        "bytes::BytesMut: reserve(n) leaves capacity >= len + n (any such capacity is allowed in the theorems; the "
        "correspondence feeds the spare room observed on the real BytesMut), set_len keeps the capacity, split_to(at) "
        "keeps the spare room; tokio's ReadBuf; Message::serialize_message/deserialize_message are the C08 model "
        "(frames are opaque byte strings here)",
        "outside: I/O objects that break the AsyncWrite contract (n > buf.len()); serialization failures in send_start",
    ]
    if os.path.exists(os.path.join(core.COQ, PROPS_FILE)):
        proof_side(o, PROPS_FILE, PINS)
    else:
        o.obligation_broken(PROPS_FILE, "theorem file missing")
    shape = spare_shape()
    o.coverage["trusted_base"] = o.assumptions
    o.coverage["spare_capacity_mut_shape"] = {0: "original (fallback only without cached length)",
                                              1: "fallback after the Some(len) branch (sequential)",
                                              2: "fallback as inner else-if"}.get(shape, "unknown")
    o.coverage["spare_theorem_in_force"] = ("C14_spare_nonempty_refuted (the tree has the original shape: the check "
                                            "must reproduce the empty slice on the real code and reports it)"
                                            if shape == 0 else "C14_spare_nonempty")
    o.coverage["explanation"] = ("framing, conservation, ordering and completeness proved on the model for all "
                                 "operation sequences and all capacities/scripts; non-emptiness of the spare slice "
                                 "proved for the repaired shapes and for the drained discipline, refuted for the "
                                 "original shape; waker registration and real sockets are outside the model")
    n, shards = SIZES[tier]
    correspondence(o, n, shards, seed)
    if o.broken and not o.violations and tier == "quick":
        o.coverage["search_note"] = "monitors re-run on a 10x larger sample after an obligation broke"
        o2 = Outcome(PROP, tier, seed + 7)
        correspondence(o2, n * 10, 16, seed + 7)
        o.violations += o2.violations
    return finish(o)


def replay(path):
    r = json.load(open(path))
    print(json.dumps({k: v for k, v in r.items() if k != "input"}, indent=1)[:3000])
    ops = r.get("input", {}).get("ops")
    if not ops:
        return 0
    o = Outcome(PROP, "quick", 0)
    if not build(o):
        return 1
    d = workdir("replay")
    with open(f"{d}/cases.txt", "w") as f:
        f.write("".join(x + "\n" for x in ops))
    rc, out, _ = core.sh(f"{core.harness_bin('stream')} run {d}/cases.txt {d}/impl.txt", timeout=600)
    if rc != 0:
        print("harness failed:", out)
        return 1
    rc, out, _ = core.sh(model_cmd(d), timeout=600)
    if rc != 0:
        print("model driver failed:", out)
        return 1
    bad = 0
    for op, i, m in zip(ops, open(f"{d}/impl.txt"), open(f"{d}/model.txt")):
        i, m = i.strip(), m.strip()
        flag = ""
        if op.startswith("spare") and (i == "panic" or i == "slice 0"):
            flag = "   <-- empty slice (documented: guaranteed to be non-empty)"
            bad += 1
        if i.startswith("!PANIC"):
            flag = "   <-- panic"
            bad += 1
        print(f"{op[:100]:<40} impl={i[:120]}  model={m[:120]}{flag}")
    print("reproduced" if bad else "not reproduced (op-level outputs above)")
    return 1 if bad else 0
