"""C13 — value epoch conversion (DESIGN §4 C13, design/C13.md)."""
import json
import os

from vlib import codec, core
from vlib.core import Outcome, finish, proof_side

PROP = "C13"
PROPS_FILE = "Props/C13.v"
PINS = {
    "C13_meaning": "forall b v, bytes_ok b = true -> lenN b <= 4294967295 -> de_value false b = Ok (v, []) -> "
                   "exists b', conv_value b = Ok (b', []) /\\ de_value false b' = Ok (v, [])",
    "C13_meaning_utf8": "forall b v, bytes_ok b = true -> lenN b <= 4294967295 -> de_value true b = Ok (v, []) -> "
                        "exists b', conv_value b = Ok (b', []) /\\ de_value true b' = Ok (v, [])",
    "C13_no_v2": "forall b b', bytes_ok b = true -> conv_value b = Ok (b', []) -> v1_only b' = true",
    "C13_v1_only_wellformed": "forall b, v1_only b = true -> skip_value b = Ok [] /\\ exists k r, b = k :: r /\\ k <= 42",
    "C13_idempotent": "forall b b', bytes_ok b = true -> conv_value b = Ok (b', []) -> conv_value b' = Ok (b', [])",
    "C13_api_idempotent": "forall from to b b', bytes_ok b = true -> convert_api from to b = Ok b' -> "
                          "convert_api from to b' = Ok b'",
    "C13_identity": "forall from to b ef et, epoch_of (match from with Some v => v | None => (1, 20) end) = Ok ef -> "
                    "epoch_of to = Ok et -> epoch_ltb et ef = false -> convert_api from to b = Ok b",
    "C13_versions": "forall maj min, epoch_of (maj, min) = Err InvalidVersion <-> ~ (maj = 1 /\\ 14 <= min <= 20)",
    "C13_epochs": "forall min, (14 <= min <= 19 -> epoch_of (1, min) = Ok E1) /\\ epoch_of (1, 20) = Ok E2",
    "C13_invalid_version": "epoch_of to = Err InvalidVersion -> convert_api from to b = Err InvalidVersion",
    "C13_fails_only_if": "forall b e, conv_value b = Err e -> (forall v, de_value false b <> Ok (v, [])) \\/ "
                         "4294967295 < lenN b",
    "C13_api_fails_only_if": "(forall v, de_value false b <> Ok (v, [])) \\/ 4294967295 < lenN b",
    "C13_accepts_exactly": "forall b, lenN b <= 4294967295 -> ((exists b', conv_value b = Ok (b', [])) <-> "
                           "(exists v, de_value false b = Ok (v, [])))",
    "C13_error_kinds": "forall b e, conv_value b = Err e -> e = Overflow \\/ exists e', de_value false b = Err e' /\\ "
                       "(e = e' \\/ (e = Eoi /\\ e' = Invalid))",
    "C13_too_deep": "forall b, lenN b <= 4294967295 -> (conv_value b = Err TooDeep <-> de_value false b = Err TooDeep)",
    "C13_output_bytes": "forall b b' r, bytes_ok b = true -> conv_value b = Ok (b', r) -> bytes_ok b' = true",
    "C13_total": "forall from to b, conv_value b <> Err Fuel /\\ convert_api from to b <> Err Fuel",
    "C13_downgrade": "(from = None \\/ from = Some (1, 20)) -> 14 <= min <= 19 -> bytes_ok b = true -> "
                     "lenN b <= 4294967295 -> de_value true b = Ok (v, []) -> exists b', "
                     "convert_api from (1, min) b = Ok b' /\\ de_value true b' = Ok (v, []) /\\ v1_only b' = true /\\ "
                     "convert_api from (1, min) b' = Ok b'",
    "C13_walker_error_kinds": "forall b e, conv_value b = Err e -> e = Eoi \\/ e = Invalid \\/ e = TooDeep \\/ e = Overflow",
    "C13_invalid_version_only": "forall from to b, convert_api from to b = Err InvalidVersion -> "
                                "epoch_of (match from with Some v => v | None => (1, 20) end) = Err InvalidVersion \\/ "
                                "epoch_of to = Err InvalidVersion",
    "C13_invalid_version_iff": "forall from to b, convert_api from to b = Err InvalidVersion <->",
    "C13_trailing_data_only": "convert_api from to b = Err TrailingData -> exists out x rest, conv_value b = Ok (out, x :: rest)",
    "C13_api_error_kinds": "e = InvalidVersion \\/ e = TrailingData \\/ e = Eoi \\/ e = Invalid \\/ e = TooDeep \\/ e = Overflow",
}
# inputs, shards: ~3.25 conversions per input -> ~1e5 / ~3e6 conversions
SIZES = {"quick": (32000, 8), "thorough": (960000, 16)}


def parse_monitor(line):
    what, _, rest = line.partition(" bytes=")
    fields = rest.split(" ")
    d = {"bytes": fields[0][:40000]}
    for f in fields[1:3]:
        k, _, v = f.partition("=")
        if k in ("from", "to"):
            d[k] = v
    return what, d, " ".join(fields[3:])[:2000]


def correspondence(o, n, shards, seed):
    if not codec.build(o):
        return
    dirs = codec.gen_shards(o, PROP, "convgen", n, shards, seed)
    codec.model_shards(o, dirs)
    compared = 0
    ndiff = 0
    first = []
    for d in dirs:
        try:
            c, diffs = core.diff_lines(f"{d}/cases.txt", f"{d}/impl.txt", f"{d}/model.txt")
        except OSError as e:
            o.obligation_broken("correspondence files", str(e))
            continue
        compared += c
        ndiff += len(diffs)
        first += [x for x in diffs if x][:3]
    mon = codec.read_monitor(dirs)

    def blen(line):
        i = line.find("bytes=")
        return len(line[i:].split(" ")[0]) if i >= 0 else 1 << 30
    for line in sorted(mon, key=blen)[:200]:
        what, inp, out = parse_monitor(line)
        o.violation(what, {"input": inp, "impl_output": out})
    if ndiff:
        o.obligation_broken("correspondence convert (slice API, in-place API) vs convert_api, and v1_only: model and "
                            "implementation differ on %d of %d ops" % (ndiff, compared), json.dumps(first[:5])[:3000])
    st = codec.merge_stats(dirs)
    o.coverage.update({
        "evaluations": compared,
        "conversions": st.get("conversions", 0),
        "distinct_nontrivial": st.get("distinct_nontrivial", 0),
        "rule": "inputs: serializations of generated values (all 43 kinds, depth 1..34) in epoch 2, in epoch 1 and MIXED "
                "(per container node a random choice between the counted and the terminated API, Bytes2 split into random "
                "chunks); 1-3 mutations of those (bit flips, varint-header edits, truncation, insertion, deletion, splices); "
                "the same nested below 1..40 extra Some (crosses the depth limit); random strings biased to kind bytes. Each "
                "input is converted for one real downgrade pair (from none|1.20, to 1.14..1.19), two pairs from "
                "{none,1.13..1.21}^2 and sometimes an exotic version pair, through SerializedValueSlice::convert and "
                "SerializedValue::convert (compared with each other) and through the model's convert_api: output bytes and "
                "error class compared exactly; every successful downgrade output also goes through the harness' independent "
                "pre-1.20 grammar scanner and the model's v1_only. distinct_nontrivial = distinct inputs on which a "
                "downgrade succeeded AND changed the bytes",
        "samples": st.get("samples", []),
        "input_distribution": {k: st.get(k) for k in ("inputs", "streams", "version_pairs", "result_classes")},
        "monitor_failures": len(mon),
        "disagreements": ndiff,
    })


def run(tier, seed):
    o = Outcome(PROP, tier, seed)
    o.assumptions = list(core.TRUSTED_BASE_COMMON) + [
        "modelled, not verified: core/src/convert_value.rs (Convert, Epoch, convert, convert_mut) and KeyTagImpl::convert "
        "as Codec/Convert.v; the decoder as Codec/De.v; tied by byte-exact differential execution",
        "the model's bytes are N: theorems about re-encoding assume bytes_ok b (every element < 256), which every Rust "
        "&[u8] satisfies",
        "the harness' v1_scan (60-line parser of the pre-1.20 wire grammar) is the monitor-side meaning of 'contains none "
        "of the container encodings introduced in 1.20'; it is compared with the model's v1_only on every converted value",
        "partial: 'never panics' is observed (catch_unwind on every conversion), the model proves totality of the logic; "
        "inputs longer than u32::MAX bytes (the only way to reach SerializeError::Overflow) are outside the theorems' "
        "hypothesis and are not generated",
    ]
    if os.path.exists(os.path.join(core.COQ, PROPS_FILE)):
        proof_side(o, PROPS_FILE, PINS)
    else:
        o.obligation_broken("Props/C13.v", "theorem file missing")
    o.coverage["trusted_base"] = o.assumptions
    o.coverage["explanation"] = ("proved on the model for all byte strings / all values in any mixture of epochs: conversion "
                                 "of a well-formed value succeeds, decodes to the same value (with and without UTF-8 "
                                 "validation), contains no 1.20 container kind, is idempotent; identity for same-or-newer "
                                 "epochs; versions accepted exactly 1.14..1.20; failure only for ill-formed input; fuel "
                                 "totality. Panics observed, not proved")
    n, shards = SIZES[tier]
    correspondence(o, n, shards, seed)
    if o.broken and not o.violations and tier == "quick":
        o.coverage["search_note"] = "monitors re-run on a 10x larger sample after an obligation broke"
        o2 = Outcome(PROP, tier, seed + 7)
        correspondence(o2, n * 10, 16, seed + 7)
        o.violations += o2.violations
    return finish(o)


def replay(path):
    r = json.load(open(path))
    print(json.dumps(r, indent=1)[:3000])
    inp = r.get("input", {})
    b = inp.get("bytes")
    if not b:
        return 0
    f = inp.get("from", "none")
    t = inp.get("to", "1.19")
    o = Outcome(PROP, "quick", 0)
    if not codec.build(o):
        return 1
    d = codec.workdir(PROP, "replay")
    ops = [f"conv {f} {t} {b}", f"conv none 1.19 {b}", f"dec {b}", f"skip {b}"]
    open(f"{d}/cases.txt", "w").write("".join(x + "\n" for x in ops))
    codec.impl_run_shards(o, [d], "cases.txt", "impl.txt")
    codec.model_shards(o, [d])
    rc = 0
    for op, i, m in zip(ops, open(f"{d}/impl.txt"), open(f"{d}/model.txt")):
        print(f"{op[:60]}: impl={i.strip()[:300]}  model={m.strip()[:300]}")
        if i.strip().startswith("!PANIC") or i.strip().startswith("!APIS"):
            rc = 1
    # converted value: decode, grammar scan, second conversion
    out = open(f"{d}/impl.txt").readline().strip()
    if out and not out.startswith("!"):
        d2 = codec.workdir(PROP, "replay2")
        ops2 = [f"dec {out}", f"v1only {out}", f"conv none 1.19 {out}"]
        open(f"{d2}/cases.txt", "w").write("".join(x + "\n" for x in ops2))
        codec.impl_run_shards(o, [d2], "cases.txt", "impl.txt")
        codec.model_shards(o, [d2])
        for op, i, m in zip(ops2, open(f"{d2}/impl.txt"), open(f"{d2}/model.txt")):
            print(f"{op[:60]}: impl={i.strip()[:300]}  model={m.strip()[:300]}")
    return rc
