"""C03 — broker-family check (see checks/brokerfam.py and DESIGN.md §4 C03)."""
from checks import brokerfam

PROP = "C03"
PINS = {}
MIXES = ["registry","all","registry","calls"]


def run(tier, seed):
    return brokerfam.run_check(PROP, "Props/C03.v", PINS, MIXES, tier, seed)


def replay(path):
    return brokerfam.replay(PROP, path)
