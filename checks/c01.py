"""C01 — Value codec round-trip and nesting limit (DESIGN §4 C01)."""
import json
import os

from vlib import codec, core
from vlib.core import Outcome, finish, proof_side

PROP = "C01"
PROPS_FILE = "Props/C01.v"
PINS = {
    "C01_roundtrip": "forall e v, wf true v = true -> (depth v <= 32)%nat -> exists bs, serialize e v = Ok bs /\\ de_as_value true bs = Ok v",
    "C01_too_deep_ser": "forall e v, wf true v = true -> (32 < depth v)%nat -> serialize e v = Err TooDeep",
    "C01_too_deep_de": "forall e v, wf true v = true -> (32 < depth v)%nat -> de_as_value true (ser_raw e v) = Err TooDeep",
    "C01_varint_roundtrip": "get_varint W (put_varint W n ++ r) = Ok (n, r)",
    "C01_zigzag_roundtrip": "forall z, zigzag_dec (zigzag_enc z) = z",
    "C01_roundtrip_general": "forall e v, wfd true v = true -> (depth v <= 32)%nat -> exists bs, serialize e v = Ok bs /\\ de_as_value true bs = Ok (norm v)",
    "C01_norm_wf_id": "forall v, wf true v = true -> wfd true v = true /\\ norm v = v",
    "C01_norm_wf": "forall v, wfd true v = true -> wf true (norm v) = true",
    "C01_map_last_wins": "de_as_value true bs = Ok (VMap k (dedup_map (map (fun p => (fst p, norm (snd p))) l)))",
    "C01_dedup_map_spec": "(forall k, map_lookup_last k (dedup_map l) = map_lookup_last k l)",
    "C01_dedup_struct_spec": "(forall k, struct_lookup_last k (dedup_struct l) = struct_lookup_last k l)",
    "C01_dedup_set_spec": "(forall k, existsb (key_eqb k) (dedup_set l) = existsb (key_eqb k) l)",
    "C01_decoded_no_duplicates": "forall utf8 b v r, de_value utf8 b = Ok (v, r) -> nodups v = true",
}
SIZES = {"quick": (6000, 8), "thorough": (400000, 16)}


def correspondence(o, n, shards, seed):
    """values -> real serializer/deserializer vs ser/de of the model, byte for byte; then the
    model's raw bytes of over-deep values through the real decoder"""
    if not codec.build(o):
        return
    dirs = codec.gen_shards(o, PROP, "gen", n, shards, seed)
    codec.model_shards(o, dirs)
    compared = 0
    ndiff = 0
    first = []
    # phase 2 inputs: raw bytes of over-deep values produced by the model
    for d in dirs:
        try:
            c, diffs = core.diff_lines(f"{d}/cases.txt", f"{d}/impl.txt", f"{d}/model.txt")
        except OSError as e:
            o.obligation_broken("correspondence files", str(e))
            continue
        compared += c
        ndiff += len(diffs)
        first += [x for x in diffs if x][:3]
        with open(f"{d}/cases.txt", encoding="utf-8") as fc, open(f"{d}/model.txt", encoding="utf-8") as fm, \
                open(f"{d}/cases2.txt", "w") as f2:
            for case, m in zip(fc, fm):
                if case.startswith("raw") and not m.startswith("!"):
                    f2.write("dec " + m.strip() + "\n")
    codec.impl_run_shards(o, dirs, "cases2.txt", "impl2.txt")
    codec.model_shards(o, dirs, "cases2.txt", "model2.txt")
    deep_checked = 0
    for d in dirs:
        try:
            c, diffs = core.diff_lines(f"{d}/cases2.txt", f"{d}/impl2.txt", f"{d}/model2.txt")
        except OSError as e:
            o.obligation_broken("correspondence files (phase 2)", str(e))
            continue
        compared += c
        ndiff += len(diffs)
        first += [x for x in diffs if x][:3]
        # monitor on the implementation alone: over-deep bytes must be rejected with the nesting error
        with open(f"{d}/cases2.txt") as fc, open(f"{d}/impl2.txt") as fi:
            for case, r in zip(fc, fi):
                deep_checked += 1
                if r.strip() != "!TooDeep":
                    o.violation("C01 deserialize over-deep value: expected nesting error, got " + r.strip()[:80],
                                {"input": {"op": "dec", "bytes": case.split(" ", 1)[1].strip()[:20000]},
                                 "impl_output": r.strip()[:2000], "expected": "!TooDeep"})
    for line in codec.read_monitor(dirs):
        what, _, rest = line.partition(" value=")
        o.violation(what, {"input": {"value": rest[:20000]}, "monitor_line": line[:4000]})
    if ndiff:
        o.obligation_broken("correspondence codec: model and implementation differ on %d of %d ops" % (ndiff, compared),
                            json.dumps(first[:5])[:3000])
    st = codec.merge_stats(dirs)
    o.coverage.update({
        "evaluations": compared,
        "distinct_nontrivial": st.get("distinct_nontrivial", 0),
        "rule": "values from the structured generator (harness/src/valuegen.rs: all 43 kinds, boundary-biased "
                "integers, NaN payloads, empty/large containers, every container kind as nesting step, depth 1..40); "
                "each value is serialized in both epochs by the real code and by the model (bytes compared exactly), "
                "decoded by both (canonical value compared); over-deep values: model's raw bytes through the real "
                "decoder. distinct_nontrivial = distinct canonical values of depth >= 2",
        "samples": st.get("samples", []),
        "input_distribution": {k: st.get(k) for k in ("values", "too_deep", "kinds", "depths", "encoded_sizes")},
        "over_deep_decodes_checked": deep_checked,
        "disagreements": ndiff,
    })


def run(tier, seed):
    o = Outcome(PROP, tier, seed)
    o.assumptions = list(core.TRUSTED_BASE_COMMON) + [
        "modelled, not verified: core/src/{serializer,deserializer,buf_ext,value,value_kind}.rs and tags/key_impl.rs as Codec/{Base,Value,Ser,De}.v",
        "legacy (epoch 1) encoding on the Rust side is produced by harness Legacy<'_> through the public serialize_*1 API",
        "String::from_utf8 vs the model's utf8_valid (cross-checked by the correspondence)",
        "'never by stack exhaustion' is a runtime fact: the model shows the walkers recurse at most 33 levels",
    ]
    proof_side(o, PROPS_FILE, PINS, extra_files=["Codec/KindsTie.v"])
    o.coverage["trusted_base"] = o.assumptions
    n, shards = SIZES[tier]
    correspondence(o, n, shards, seed)
    if o.broken and not o.violations and tier == "quick":
        # widen the search for a concrete failing input before reporting
        o.coverage["search_note"] = "monitors re-run on a 10x larger sample after an obligation broke"
        o2 = Outcome(PROP, tier, seed + 7)
        correspondence(o2, n * 10, 16, seed + 7)
        o.violations += o2.violations
    return finish(o)


def replay(path):
    r = json.load(open(path))
    print(json.dumps(r, indent=1)[:4000])
    inp = r.get("input", {})
    o = Outcome(PROP, "quick", 0)
    if not codec.build(o):
        return 1
    d = codec.workdir(PROP, "replay")
    if "bytes" in inp:
        open(f"{d}/cases.txt", "w").write("dec " + inp["bytes"] + "\n")
        codec.impl_run_shards(o, [d], "cases.txt", "impl.txt")
        codec.model_shards(o, [d])
        print("impl :", open(f"{d}/impl.txt").read().strip()[:2000])
        print("model:", open(f"{d}/model.txt").read().strip()[:2000])
    elif "value" in inp:
        open(f"{d}/cases.txt", "w").write("ser2 %s\nser1 %s\n" % (inp["value"], inp["value"]))
        codec.model_shards(o, [d])
        print("model:", open(f"{d}/model.txt").read().strip()[:2000])
        print("(re-run the generator with the recorded seed to reproduce the implementation side)")
    return 0
