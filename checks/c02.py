"""C02 — broker-family check (see checks/brokerfam.py and DESIGN.md §4 C02)."""
from checks import brokerfam

PROP = "C02"
PINS = {}
MIXES = ["calls","all","calls","registry"]


def run(tier, seed):
    return brokerfam.run_check(PROP, "Props/C02.v", PINS, MIXES, tier, seed)


def replay(path):
    return brokerfam.replay(PROP, path)
