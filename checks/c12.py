"""C12 — version negotiation, feature gating and cross-version payload interop."""
import os

from checks import brokerfam
from vlib import interop

PROP = "C12"
PINS = {}
MIXES = ["all", "calls", "events", "abuse"]


def extra(o, tier, seed):
    interop.run(o, PROP, tier, seed)
    try:
        from vlib import accept
        accept.handshake_correspondence(o, seed)
    except ImportError:
        o.notes.append("handshake correspondence (vlib/accept.py) not available yet")


def run(tier, seed):
    return brokerfam.run_check(PROP, "Props/C12.v", PINS, MIXES, tier, seed, extra=extra)


def replay(path):
    return brokerfam.replay(PROP, path)
