"""C12 — version negotiation, feature gating and cross-version payload interop."""
import os

import json

from checks import brokerfam
from vlib import interop, schedx

PROP = "C12"
PINS = {}
MIXES = ["all", "calls", "events", "abuse"]


SCHED = {"quick": (40, 4, 60), "thorough": (600, 16, 60)}     # programs per shard, shards, ops per client


def select(m):
    """failures of the scheduler harness that are about version gating: a client that negotiated less than
    1.20 is closed by the broker / stops, i.e. it used (or was sent) a message newer than its version"""
    d = m["detail"]
    old = "(protocol 1.1" in d
    if m["tag"] == "closed-by-broker" and old:
        return "client-gating-closed-by-broker: " + d[:400]
    if m["class"].startswith("RUN") and old:
        return "client-gating-run-ended: " + m["class"] + ": " + d[:400]
    return None


def extra(o, tier, seed):
    per, shards, ops = SCHED[tier]
    schedx.run(o, PROP, select, "client_side_version_gating", per, shards, ops, seed, gen_opts="--no-event-theme")
    o.assumptions.append("client-side gating (aldrin/src/client.rs): the send gates are tied to the protocol table "
                         "(C12_client_send_gates); real clients negotiating 1.14..1.19 are exercised by harness sched "
                         "(Connect2 minor clamped in the transport tap, 1.14 through connect1): no such client may be closed "
                         "by the broker or stop with an error")
    interop.run(o, PROP, tier, seed)
    try:
        from vlib import accept
        accept.handshake_correspondence(o, seed)
    except ImportError:
        o.notes.append("handshake correspondence (vlib/accept.py) not available yet")


def run(tier, seed):
    return brokerfam.run_check(PROP, "Props/C12.v", PINS, MIXES, tier, seed, extra=extra)


def replay(path):
    r = json.load(open(path))
    if r.get("input", {}).get("case"):
        from checks import c06
        return c06.replay(path)
    return brokerfam.replay(PROP, path)
