"""C12 — broker-family check (see checks/brokerfam.py and DESIGN.md §4 C12)."""
from checks import brokerfam

PROP = "C12"
PINS = {}
MIXES = ["all","calls","events","abuse"]


def run(tier, seed):
    return brokerfam.run_check(PROP, "Props/C12.v", PINS, MIXES, tier, seed)


def replay(path):
    return brokerfam.replay(PROP, path)
