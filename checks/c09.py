"""C09 — disconnect and shutdown cleanup: no residual state, exact counters.

Two correspondences: the broker family's (checks/brokerfam.py: the machine of coq/Broker/Model.v against the
real broker built WITHOUT the `introspection` feature) and `introdb`: the introspection database
(broker/src/introspection_database.rs + the cfg(feature = "introspection") handlers of broker.rs, model
coq/Broker/IntroDb.v) against the real broker built WITH that feature (harness `introdb`, its own cargo
invocation with `--features broker-introspection`; driver extract/introdb_driver.ml)."""
import json
import os
import shutil
import time

from checks import brokerfam
from vlib import broker, core
from vlib.core import BuildLock

PROP = "C09"
PINS = {
    "C09_introdb_invariant": "forall s, ireachable s -> idb_inv s",
    "C09_introdb_no_panic": "forall s e ch site, ireachable s -> ilegal s e -> istep s e ch <> IPanic site",
    "C09_introdb_release": "ireachable s -> e = IConnShutdown c \\/ e = IShutdownConn c -> istep s e ch = IDone (s', o) -> "
                           "idb_no_ref c s'",
    "C09_introdb_empty": "forall s, ireachable s -> i_conns s = ∅ -> i_entries s = ∅ /\\ i_qmap s = ∅",
    "C09_introdb_query_answered": "i_conns s' !! r = Some ci -> ci_alive ci = true -> (forall sr, e <> IReplyMsg r sr None) -> "
                                  "pend_of s' r ⊎ replies_to r o = pend_of s r ⊎ asked e r",
    "C09_introdb_outputs_connected": "forall c x, (c, x) ∈ o -> exists ci, i_conns s !! c = Some ci /\\ ci_alive ci = true",
    "C09_introdb_fuel": "ireachable s -> ilegal s e -> istep s e ch <> IHalt NoFuel",
    "C09_introdb_idle": "forall s, iexits s = true <-> i_idle s = true /\\ i_conns s = ∅",
    "C09_introdb_seeded_guard_panics": "entry_remove_conn_g guard_seeded seeded_e1 3%N = IPanic 101%N",
}

# introdb: (shards, histories per shard, max steps); rounds of IDB_ROUND histories per harness invocation
IDB_SIZES = {"quick": (16, 4000, 80), "thorough": (16, 240000, 100)}
IDB_ROUND = 8000

IDB_ASSUME = [
    "introdb step: aldrin-broker built with features channel+statistics+introspection (only the `introdb` harness "
    "binary; cargo feature `broker-introspection` of the harness); modelled, not verified: "
    "broker/src/introspection_database.rs and the cfg(feature = \"introspection\") bodies of register_introspection / "
    "query_introspection / query_introspection_reply / remove_introspection_conn (+ shutdown_connection, handle_event, "
    "the remove_conns stack) of broker/src/broker.rs as coq/Broker/IntroDb.v; the bodies of the database functions are "
    "pinned text for text by tools/rs2v_broker.py (INTRODB_PINNED_FNS)",
    "introdb step: the provider drawn by rand::rng().random_range(0..conn_ids.len()) is a model input (an index); the "
    "driver searches the choice lists that explain each observed step and keeps every explanation (which task-dropped "
    "connection a failed send removed is not visible in a trace); broker-made query serials are compared up to a "
    "bijection (they are handed out in hash-map iteration order); theorems hold for every choice list",
    "introdb step: introspection payloads are opaque ids in the model; the harness uses serialized "
    "aldrin_core::introspection::Introspection values and identifies them by their type id after deserializing",
]


def _idb_build(o):
    ok = True
    with BuildLock():
        core.regen_for(o, broker.GEN_FILES)
        okc, outc, _ = core.cargo_build(["introdb"], features=["broker-introspection"])
        if not okc:
            o.obligation_broken("cargo build of the introdb harness (aldrin-broker with the introspection feature) "
                                "against /repo", outc)
            ok = False
        core.ensure_makefile()
        okb, outb, _ = core.coq_build(["Broker/IntroDb.v"])
        if not okb:
            o.obligation_broken("coq build of the executable introspection-database model", outb)
            return False
        okd, outd = core.build_driver("ExtractIntroDb.v", "introdb_model", "introdb_driver.ml", "introdb_driver")
        if not okd:
            o.obligation_broken("extraction/compilation of the introdb model driver", outd)
            ok = False
    return ok


def _feature_off_in_broker_bin(o):
    """the ordinary broker harness must keep aldrin-broker's introspection feature OFF: ask cargo which features
    the default (no --features) resolution gives aldrin-broker"""
    rc, out, _ = core.sh("cargo tree --offline -e features -i aldrin-broker 2>&1 | head -40",
                         cwd=os.path.join(core.VERIF, "harness"), timeout=120)
    on = [l for l in out.splitlines() if 'aldrin-broker feature "introspection"' in l]
    if rc != 0:
        o.notes.append("cargo tree not available: feature separation checked only through the broker correspondence "
                       "(RegisterIntrospection/QueryIntrospection agree with the feature-off model)")
        return None
    if on:
        o.obligation_broken("harness/Cargo.toml: the default feature set enables aldrin-broker/introspection "
                            "(the broker correspondence models the feature-off handlers)", out)
        return False
    return True


def _workdir(name):
    d = os.path.join(core.WORK, PROP, name)
    shutil.rmtree(d, ignore_errors=True)
    os.makedirs(d, exist_ok=True)
    return d


def _merge(tot, s):
    for k in ("histories", "steps", "panics", "monitor_verdicts"):
        tot[k] = tot.get(k, 0) + s.get(k, 0)
    kk = tot.setdefault("kinds", {})
    for k, v in s.get("kinds", {}).items():
        kk[k] = kk.get(k, 0) + v


def introdb(o, tier, seed):
    """extra correspondence step of C09: the introspection database under disconnects"""
    o.assumptions += IDB_ASSUME
    o.coverage["trusted_base"] = o.assumptions
    if not _idb_build(o):
        return
    feat = _feature_off_in_broker_bin(o)
    shards, per, steps = IDB_SIZES[tier]
    exe = core.harness_bin("introdb")
    drv = os.path.join(core.BUILD, "introdb_driver")
    dirs, cmds = [], []
    for i in range(shards):
        base = _workdir(f"idb{i}")
        rounds = (per + IDB_ROUND - 1) // IDB_ROUND
        parts = []
        for r in range(rounds):
            d = os.path.join(base, f"r{r}")
            os.makedirs(d)
            dirs.append(d)
            k = min(IDB_ROUND, per - r * IDB_ROUND)
            # traces that agree are deleted at once (a thorough run writes several GB otherwise)
            parts.append(f"VERIF_SEED={(seed * 1000 + i) * 1000 + r} {exe} gen {d} {k} {steps}"
                         f" && (ulimit -s unlimited 2>/dev/null || ulimit -s 1000000; {drv} {d}/trace.txt {d}/verdict.txt)"
                         f" && grep -m 60 -E '^(EV|OUT|CLOSED) ' {d}/trace.txt > {d}/sample.txt"
                         f" ; if grep -q -E '^(DIVERGE|ABANDONED)' {d}/verdict.txt; then :; else rm -f {d}/trace.txt; fi")
        cmds.append(" && ".join(f"( {p} )" for p in parts))
    t0 = time.time()
    res = core.parallel(cmds, timeout=3000)
    run_seconds = round(time.time() - t0, 1)
    for (rc, out), i in zip(res, range(shards)):
        if rc != 0:
            o.obligation_broken(f"introdb harness/driver run of shard {i} (exit {rc})", out)
    ok, nsteps, divs = broker.read_verdicts(dirs)
    tot = {}
    summ = {"abandoned": 0, "choice_steps": 0, "choice_leaves": 0, "multi_candidate_steps": 0, "max_leaves": 0,
            "max_candidates": 0}
    sample = []
    for d in dirs:
        try:
            _merge(tot, json.load(open(os.path.join(d, "stats.json"))))
        except Exception as ex:  # noqa: BLE001
            o.obligation_broken(f"introdb stats in {d}", str(ex))
        try:
            for line in open(os.path.join(d, "verdict.txt"), encoding="utf-8", errors="replace"):
                if line.startswith("SUMMARY"):
                    for kv in line.split()[1:]:
                        k, _, v = kv.partition("=")
                        if k in ("max_leaves", "max_candidates"):
                            summ[k] = max(summ[k], int(v))
                        elif k in summ:
                            summ[k] += int(v)
        except OSError:
            pass
        if not sample and os.path.exists(os.path.join(d, "sample.txt")):
            sample = open(os.path.join(d, "sample.txt"), encoding="utf-8", errors="replace").read().split("\n")[:60]
    divs.sort(key=lambda d: d["step"])
    for d in divs[:50]:
        if d["what"].startswith(("DRIVER", "HARNESS")):
            o.obligation_broken("introdb correspondence machinery: " + d["what"], json.dumps(d)[:3000])
        else:
            o.violation("introdb " + d["what"], {"introdb_history": d["events"], "failing_step": d["step"], "event": d["ev"],
                                                  "impl_output": d["impl"], "model_output": d["model"],
                                                  "history_seed": d["seed"]})
    kinds = tot.get("kinds", {})
    o.coverage["introdb"] = {
        "rule": "one history = 2-6 initial connections (protocol 1.14-1.20; later connects up to 12) on the real broker "
                "built with the introspection feature; injected operations: RegisterIntrospection (a serialized set of "
                "1-4 of five type ids; sometimes an undecodable value), QueryIntrospection for registered and "
                "unregistered types, QueryIntrospectionReply Some/None from the asked provider / from a connection that "
                "was not asked / with a free serial, connect, disconnect by closing the transport / Shutdown message / "
                "BrokerHandle::shutdown_connection / dropping the connection task (also with its last request queued), "
                "idle shutdown; at the end task-dropped connections are forced out, every outstanding provider query "
                "is answered, every connection leaves in random order and manner, idle shutdown must complete. One "
                "injected operation = one broker step run to quiescence = one step of the Coq machine; per step the "
                "multiset of messages per connection (provider-query serials up to a bijection), the connections the "
                "broker closed, num_connections and num_introspections (against the model's map sizes) and the exit "
                "flag are compared. evaluations = executed steps; distinct_nontrivial = histories (distinct seeds) that "
                "agree on every step",
        "evaluations": nsteps,
        "histories": tot.get("histories", 0),
        "histories_fully_agreeing": ok,
        "distinct_nontrivial": ok,
        "divergences": len(divs),
        "implementation_panics": tot.get("panics", 0),
        "monitor_verdicts": tot.get("monitor_verdicts", 0),
        "message_kinds_in_and_out": kinds,
        "provider_choice_search": summ,
        "generate_and_compare_wall_seconds": run_seconds,
        "broker_bin_keeps_introspection_feature_off": feat,
        "monitors": "broker task never panics; every query of a live connection answered exactly once after all "
                    "providers answered (except the documented self-Unavailable case); no message after Shutdown; no "
                    "introspection entry left when no connection is left; idle shutdown completes",
        "sample": sample,
    }
    if isinstance(o.coverage.get("evaluations"), int):
        o.coverage["evaluations_broker"] = o.coverage["evaluations"]
        o.coverage["evaluations"] += nsteps
    else:
        o.coverage["evaluations"] = nsteps


def run(tier, seed):
    return brokerfam.run_check(PROP, "Props/C09.v", PINS, ["all", "channels", "registry", "all"], tier, seed,
                               extra=introdb)


def _idb_replay_once(events):
    d = _workdir("idb-replay")
    ev = os.path.join(d, "events.txt")
    with open(ev, "w", encoding="utf-8") as f:
        for e in events:
            f.write(e.strip() + "\n")
    rc, out, _ = core.sh(f"{core.harness_bin('introdb')} replay {d} {ev}"
                         f" && (ulimit -s unlimited 2>/dev/null || ulimit -s 1000000; "
                         f"{os.path.join(core.BUILD, 'introdb_driver')} {d}/trace.txt {d}/verdict.txt)", timeout=600)
    ok, steps, divs = broker.read_verdicts([d])
    return d, rc, out, ok, steps, divs


def replay(path):
    r = json.load(open(path))
    events = r.get("introdb_history")
    if events is None:
        return brokerfam.replay(PROP, path)
    print("recorded violation:")
    print(json.dumps({k: v for k, v in r.items() if k != "introdb_history"}, indent=1)[:3000])
    print(f"introdb history: {len(events)} injected events (recorded harness seed {r.get('history_seed')})")
    for e in events:
        print("  EV", e)
    o = core.Outcome(PROP, "replay", 0)
    if not _idb_build(o):
        print("BUILD FAILED: " + "; ".join(str(b)[:2000] for b in o.broken))
        return 2
    # the provider the broker draws (rand) differs from run to run: the history is re-executed several times,
    # answers of providers are re-targeted to whoever was asked this time (harness `introdb replay`)
    tries = max(1, int(os.environ.get("VERIF_REPLAY_TRIES", "12") or "12"))
    agreeing = 0
    for attempt in range(1, tries + 1):
        d, rc, out, ok, steps, divs = _idb_replay_once(events)
        if rc != 0:
            print(f"REPLAY MACHINERY FAILED in {d} (exit {rc}): {out[:2000]}")
            return 2
        if not divs:
            agreeing += 1
            print(f"re-execution {attempt}: fresh verdict: OK replay steps={steps}")
            continue
        for dv in divs:
            print(f"re-execution {attempt} in {d} (trace.txt = what the real broker did, verdict.txt = comparison with "
                  f"the model): fresh verdict: DIVERGE step={dv['step']} what={dv['what']}")
            print(f"  event: {dv['ev']}")
            print(f"  impl : {dv['impl']}")
            print(f"  model: {dv['model']}")
            if dv["what"].startswith(("DRIVER", "HARNESS")):
                print("  the history could not be re-executed to the end (harness/driver error)")
                return 2
            same = "the same class as recorded" if ("introdb " + dv["what"]) == r.get("what") else f"recorded class: {r.get('what')}"
            print(f"  REPRODUCED: violation of {PROP} ({same}) in re-execution {attempt} of at most {tries}"
                  + (f"; {agreeing} earlier re-execution(s) agreed with the model (the provider the broker draws is random)"
                     if agreeing else ""))
            return 1
    print(f"the recorded violation did NOT reproduce in {tries} re-executions: all agreed with the model on every step")
    return 0
