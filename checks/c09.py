"""C09 — disconnect and shutdown cleanup: no residual state, exact counters."""
from checks import brokerfam

PROP = "C09"
PINS = {}


def run(tier, seed):
    return brokerfam.run_check(PROP, "Props/C09.v", PINS, ["all", "channels", "registry", "all"], tier, seed)


def replay(path):
    return brokerfam.replay(PROP, path)
