"""C04 — broker-family check (see checks/brokerfam.py and DESIGN.md §4 C04), plus the client side of event
delivery: aldrin/src/client/{broker_subscriptions,proxies}.rs are anchors of C04 (the owner-side filter that
decides whether an emit is sent at all, and the per-proxy fan-out inside a client), exercised by the
scheduler harness' per-proxy event oracle."""
import json

from checks import brokerfam
from vlib import schedx

PROP = "C04"
PINS = {}
MIXES = ["events","all","events","registry"]
EVENT_TAGS = {"event-lost", "event-unsubscribed", "event-order", "event-foreign", "event-stream-end"}
SCHED = {"quick": (40, 4, 60), "thorough": (600, 16, 60)}     # programs per shard, shards, ops per client


def select(m):
    if m["tag"] in EVENT_TAGS:
        return "client-side-" + m["tag"] + ": " + m["detail"][:400]
    return None


def extra(o, tier, seed):
    per, shards, ops = SCHED[tier]
    schedx.run(o, PROP, select, "client_side_event_oracle", per, shards, ops, seed, gen_opts="--no-versions")
    o.assumptions.append("client side of event delivery (owner-side filter broker_subscriptions.rs, per-proxy fan-out "
                         "proxies.rs): NOT modelled in Coq; exercised by harness sched with its event oracle (per proxy and "
                         "event id: subscription state kept from the program; every emit under a confirmed subscription is "
                         "owed exactly once, in order); failures of other kinds in those programs belong to C06")


def run(tier, seed):
    return brokerfam.run_check(PROP, "Props/C04.v", PINS, MIXES, tier, seed, extra=extra)


def replay(path):
    r = json.load(open(path))
    if r.get("input", {}).get("case"):
        from checks import c06
        return c06.replay(path)
    return brokerfam.replay(PROP, path)
