"""C04 — broker-family check (see checks/brokerfam.py and DESIGN.md §4 C04)."""
from checks import brokerfam

PROP = "C04"
PINS = {}
MIXES = ["events","all","events","registry"]


def run(tier, seed):
    return brokerfam.run_check(PROP, "Props/C04.v", PINS, MIXES, tier, seed)


def replay(path):
    return brokerfam.replay(PROP, path)
