"""C05 — broker-family check (see checks/brokerfam.py and DESIGN.md §4 C05) plus the client-side
end-to-end credit correspondence: harness `chanflow` (real Clients + Broker + Sender/Receiver under
random schedules on one channel) against the extracted model of coq/Proto/Credit.v."""
import json
import os
import shutil

from checks import brokerfam
from vlib import core
from vlib.core import BuildLock

PROP = "C05"
PINS = {
    "C05_credit_all_sequences": "forall c e ops, endc_ok e -> Forall op_ok ops -> crun_inv (fold_left crun_step ops (crun_init c e))",
    "C05_forwarded_le_granted": "cr_fwd r <= cr_granted r /\\ cr_panic r = false",
    "C05_low_water_mark": "LOW_CAPACITY = 4",
    "C05_within_credit_never_cut": "exists ch' add, chan_send_item ch c = ItemForward ch' ro add",
    "C05_claim_once": "exists r', chan_claim ch' c2 e = ClaimErr r' /\\ r' = CLAlready",
    # end to end (Proto/Credit.v)
    "C05_e2e_never_cut": "forall cS cR cap sch, 1 <= cap -> cap <= 4294967295 -> let w := wrun cS cR (winit cS cR cap) sch in "
                         "f_cut w = false /\\ f_ovf w = false /\\ f_panic w = None /\\ f_unexp w = false",
    "C05_e2e_in_order_exactly_once": "(exists rest, sd_sent w = rv_got w ++ rest) /\\ (rv_open w = true -> sd_sent w = "
                                     "rv_got w ++ rv_queue w ++ br_items (q_br w) ++ sb_items (q_sb w)) /\\ "
                                     "(rv_open w = true -> quiet w -> rv_got w = sd_sent w)",
    "C05_e2e_conservation": "(sd_open w = true -> sd_cap w + added_sum (sd_added w) + len (sb_items (q_sb w)) + "
                            "bs_adds (q_bs w) = sc) /\\ sc <= rc /\\ (sc <= 4 -> sc = rc)",
    "C05_e2e_poll_closed_keeps_credit": "sd_cap w' + added_sum (sd_added w') = sd_cap w + added_sum (sd_added w)",
    "C05_e2e_progress": "exists sch, rv_got (wrun cS cR w sch) = sd_sent w ++ [v]",
    "C05_e2e_no_deadlock": "sd_open w = true -> rv_open w = true -> quiet w -> send_ready w = RdOk",
    "C05_client_low_water_mark": "CLIENT_LOW = 4",
}
MIXES = ["channels", "all", "channels", "channels"]

# chanflow: (shards, cases per shard at 120 steps); shard i runs schedules of at most STEPS[i % 4]
# steps (long schedules reach the first grant of the large capacities) with proportionally fewer cases
CF_SIZES = {"quick": (16, 800), "thorough": (16, 64000)}
CF_STEPS = [120, 120, 300, 800]
CF_ROUND = 16000   # cases per harness invocation

CF_ASSUME = [
    "modelled, not verified (client side): aldrin/src/low_level/channel/{established,raw}.rs Sender/Receiver and "
    "aldrin/src/client.rs msg_item_received / msg_add_channel_capacity / msg_channel_end_closed / "
    "msg_close_channel_end_reply as coq/Proto/Credit.v: one established channel, four FIFO links, the broker's entry "
    "driven through chan_* of Broker/Model.v; handle queue + Buffered + transport merged into one FIFO per direction; "
    "AddChannelCapacity absorbed into Sender.capacity when the client handles it (capacity_added is drained before "
    "capacity is read)",
    "task scheduling and waker delivery inside one step are not modelled: the chanflow executor runs every task to "
    "quiescence after each schedule step; the schedule (which link delivers next, which application acts) is the "
    "quantified part",
]


def _cf_build(o):
    ok = True
    with BuildLock():
        okc, outc, _ = core.cargo_build(["chanflow"])
        if not okc:
            o.obligation_broken("cargo build of the chanflow harness against /repo", outc)
            ok = False
        core.ensure_makefile()
        okb, outb, _ = core.coq_build(["Proto/Credit.v"])
        if not okb:
            o.obligation_broken("coq build of the executable credit model", outb)
            return False
        okd, outd = core.build_driver("ExtractCredit.v", "credit_model", "credit_driver.ml", "credit_driver")
        if not okd:
            o.obligation_broken("extraction/compilation of the credit model driver", outd)
            ok = False
    return ok


def _cf_workdir(name):
    d = os.path.join(core.WORK, PROP, name)
    shutil.rmtree(d, ignore_errors=True)
    os.makedirs(d, exist_ok=True)
    return d


def _case_of_line(cases, idx):
    """the `new <seed> <cap> <same>` line that opens the case containing line idx, and the steps up to idx"""
    j = idx
    while j >= 0 and not cases[j].startswith("new "):
        j -= 1
    if j < 0:
        return None, []
    return cases[j].split(), cases[j:idx + 1]


def _merge(tot, s):
    for k, v in s.items():
        if isinstance(v, dict):
            t = tot.setdefault(k, {})
            for kk, vv in v.items():
                t[kk] = t.get(kk, 0) + vv
        elif k == "max_in_flight":
            tot[k] = max(tot.get(k, 0), v)
        elif k in ("seed", "maxsteps"):
            continue
        elif isinstance(v, (int, float)):
            tot[k] = tot.get(k, 0) + v


def chanflow(o, tier, seed):
    """extra correspondence step of C05: the end-to-end credit model against the real clients"""
    o.assumptions += CF_ASSUME
    o.coverage["trusted_base"] = o.assumptions
    if not _cf_build(o):
        return
    shards, per = CF_SIZES[tier]
    dirs, cmds, steps_of = [], [], {}
    chan = core.harness_bin("chanflow")
    drv = os.path.join(core.BUILD, "credit_driver")
    for i in range(shards):
        ms = CF_STEPS[i % len(CF_STEPS)]
        n = max(50, per * 120 // ms)
        rounds = (n + CF_ROUND - 1) // CF_ROUND
        base = _cf_workdir(f"cf{i}")
        parts = []
        for r in range(rounds):
            d = os.path.join(base, f"r{r}")
            os.makedirs(d)
            dirs.append(d)
            steps_of[d] = ms
            k = min(CF_ROUND, n - r * CF_ROUND)
            # identical outputs are deleted at once (a thorough run writes several GB otherwise)
            parts.append(f"VERIF_SEED={(seed * 1000 + i) * 100 + r} {chan} gen {d} {k} {ms} && {drv} {d}/cases.txt {d}/model.txt"
                         f" && head -n 40 {d}/cases.txt > {d}/sample_cases.txt && head -n 40 {d}/impl.txt > {d}/sample_impl.txt"
                         f" && wc -l < {d}/cases.txt > {d}/lines.txt"
                         f" && if cmp -s {d}/impl.txt {d}/model.txt; then rm -f {d}/impl.txt {d}/model.txt {d}/cases.txt; "
                         f"else touch {d}/DIFFERS; fi")
        cmds.append(" && ".join(parts))
    res = core.parallel(cmds, timeout=3000)
    for (rc, out), i in zip(res, range(shards)):
        if rc != 0:
            o.obligation_broken(f"chanflow harness/driver run of shard {i} (exit {rc})", out)
    tot = {}
    compared = 0
    disagreements = []
    monitor = []
    sample = []
    for d in dirs:
        if not os.path.exists(f"{d}/lines.txt"):
            continue
        if os.path.exists(f"{d}/DIFFERS"):
            n, diffs = core.diff_lines(f"{d}/cases.txt", f"{d}/impl.txt", f"{d}/model.txt", skip=lambda c, i: False)
            compared += n
            with open(f"{d}/cases.txt", encoding="utf-8", errors="replace") as f:
                cases = f.read().split("\n")
            for df in diffs[:5]:
                if df is None:
                    continue
                hdr, prefix = _case_of_line(cases, df["line"]) if df["line"] >= 0 else (None, [])
                df = dict(df)
                if hdr:
                    df.update({"chanflow_case": int(hdr[1]), "cap": int(hdr[2]), "same": int(hdr[3]),
                               "maxsteps": steps_of[d], "schedule_prefix": prefix[-200:]})
                disagreements.append(df)
        else:
            compared += int(open(f"{d}/lines.txt").read().strip() or 0)
        try:
            with open(f"{d}/monitor.txt", encoding="utf-8", errors="replace") as f:
                for line in f:
                    p = line.rstrip("\n").split("\t")
                    if len(p) >= 3:
                        w = p[1].split()
                        monitor.append({"class": p[0], "chanflow_case": int(w[0]), "cap": int(w[1]), "same": int(w[2]),
                                        "maxsteps": int(w[3]), "detail": p[2]})
        except OSError:
            pass
        try:
            _merge(tot, json.load(open(f"{d}/stats.json")))
        except Exception as ex:  # noqa: BLE001
            o.obligation_broken(f"chanflow stats in {d}", str(ex))
        if not sample:
            with open(f"{d}/sample_cases.txt", encoding="utf-8", errors="replace") as f:
                c = f.read().split("\n")[:40]
            with open(f"{d}/sample_impl.txt", encoding="utf-8", errors="replace") as f:
                im = f.read().split("\n")[:40]
            sample = [f"{a}  =>  {b}" for a, b in zip(c, im) if a]
    for m in monitor[:50]:
        o.violation(f"C05-e2e {m['class']}: {m['detail']}"[:600],
                    {"input": {"chanflow_case": m["chanflow_case"], "maxsteps": m["maxsteps"], "cap": m["cap"],
                               "same": m["same"]},
                     "reproduce": f"target/debug/chanflow one {m['chanflow_case']} {m['maxsteps']}"})
    if disagreements:
        o.obligation_broken("chanflow correspondence: the real Sender/Receiver/Client/Broker and coq/Proto/Credit.v "
                            "disagree on a schedule", json.dumps(disagreements[:5], indent=1))
        if not monitor:
            # a disagreement is a concrete schedule: keep it as a replayable input
            d0 = disagreements[0]
            if "chanflow_case" in d0:
                o.violation("C05-e2e model-disagreement: " + d0.get("case", "?"),
                            {"input": {"chanflow_case": d0["chanflow_case"], "maxsteps": d0["maxsteps"],
                                       "cap": d0["cap"], "same": d0["same"]},
                             "line": d0["line"], "impl": d0["impl"], "model": d0["model"],
                             "reproduce": f"target/debug/chanflow one {d0['chanflow_case']} {d0['maxsteps']}"})
    o.coverage["chanflow"] = {
        "rule": "one case = one established channel (capacity, one or two clients, transport kind, setup order from the "
                "case seed) under a random schedule of send / recv / closeS / closeR / dropS / dropR / brokerS / brokerR / "
                "clientS / clientR followed by a drain; after EVERY step the observation (sent|pend|err, item:v|end|pend), "
                "the sender's readiness, the content of the four held links (SendItem/AddChannelCapacity values, "
                "ChannelEndClosed, CloseChannelEndReply results) and the two close futures are compared with the "
                "extracted model; evaluations = compared lines (steps); distinct = distinct (capacity, same, sequence of "
                "step kinds) signatures",
        "evaluations": compared,
        "cases": tot.get("cases", 0),
        "distinct_nontrivial": tot.get("distinct", 0),
        "disagreements": len(disagreements),
        "monitor_failures": len(monitor),
        "aborted_cases": tot.get("aborted_cases", 0),
        "ops": tot.get("ops", {}),
        "capacities": tot.get("caps", {}),
        "same_client": tot.get("same", {}),
        "transport": tot.get("transport", {}),
        "setup_order": tot.get("setup", {}),
        "moods": tot.get("moods", {}),
        "closes": tot.get("closes", {}),
        "items_sent": tot.get("items_sent", 0),
        "items_received": tot.get("items_received", 0),
        "grants_seen": tot.get("grants_seen", 0),
        "grant_values": tot.get("grant_values", {}),
        "broker_replenish_seen": tot.get("broker_replenish_seen", 0),
        "max_in_flight": tot.get("max_in_flight", 0),
        "shards_by_max_schedule_length": {str(ms): sum(1 for i in range(shards) if CF_STEPS[i % len(CF_STEPS)] == ms)
                                          for ms in sorted(set(CF_STEPS))},
        "probe_absorbed": tot.get("probe_absorbed", 0),
        "sample": sample,
        "monitors": "ORDER, COMPLETE, CUT, CLOSE-ERR, CAPACITY, STALL, STARVE, PANIC, RUN (client.run() result), HANG, BUDGET",
    }
    if isinstance(o.coverage.get("evaluations"), int):
        o.coverage["evaluations_broker"] = o.coverage["evaluations"]
        o.coverage["evaluations"] += compared
    else:
        o.coverage["evaluations"] = compared


def run(tier, seed):
    return brokerfam.run_check(PROP, "Props/C05.v", PINS, MIXES, tier, seed, extra=chanflow)


def replay(path):
    r = json.load(open(path))
    inp = r.get("input") if isinstance(r.get("input"), dict) else None
    if not inp or "chanflow_case" not in inp:
        return brokerfam.replay(PROP, path)
    o = core.Outcome(PROP, "replay", 0)
    if not _cf_build(o):
        print("BUILD FAILED: " + "; ".join(str(b)[:2000] for b in o.broken))
        return 2
    cs, ms = int(inp["chanflow_case"]), int(inp["maxsteps"])
    print("recorded violation:", r.get("what"))
    rc, out, _ = core.sh(f"{core.harness_bin('chanflow')} one {cs} {ms}", timeout=300)
    if rc != 0:
        print(f"REPLAY MACHINERY FAILED (exit {rc}): {out[:2000]}")
        return 2
    d = _cf_workdir("replay")
    cases, impl, mon = [], [], []
    for line in out.splitlines():
        if line.startswith("# MONITOR"):
            mon.append(line)
        if line.startswith("#") or "  =>  " not in line:
            continue
        c, i = line.split("  =>  ", 1)
        cases.append(c)
        impl.append(i)
    open(f"{d}/cases.txt", "w").write("\n".join(cases) + "\n")
    open(f"{d}/impl.txt", "w").write("\n".join(impl) + "\n")
    rc, outd, _ = core.sh(f"{os.path.join(core.BUILD, 'credit_driver')} {d}/cases.txt {d}/model.txt", timeout=300)
    if rc != 0:
        print(f"REPLAY MACHINERY FAILED (driver exit {rc}): {outd[:2000]}")
        return 2
    print(out[-6000:])
    n, diffs = core.diff_lines(f"{d}/cases.txt", f"{d}/impl.txt", f"{d}/model.txt", skip=lambda c, i: False)
    for df in diffs[:5]:
        if df:
            print(f"DISAGREE line {df['line']} step `{df['case']}`\n  impl : {df['impl']}\n  model: {df['model']}")
    if mon or diffs:
        print(f"REPRODUCED: {len(mon)} monitor verdict(s), {len([x for x in diffs if x])} model disagreement(s) "
              f"in chanflow case {cs} (max {ms} steps)")
        return 1
    print(f"the recorded violation did NOT reproduce: chanflow case {cs} is clean and agrees with the model on {n} steps")
    return 0
