"""C05 — broker-family check (see checks/brokerfam.py and DESIGN.md §4 C05)."""
from checks import brokerfam

PROP = "C05"
PINS = {
    "C05_credit_all_sequences": "forall c e ops, endc_ok e -> Forall op_ok ops -> crun_inv (fold_left crun_step ops (crun_init c e))",
    "C05_forwarded_le_granted": "cr_fwd r <= cr_granted r /\\ cr_panic r = false",
    "C05_low_water_mark": "LOW_CAPACITY = 4",
    "C05_within_credit_never_cut": "exists ch' add, chan_send_item ch c = ItemForward ch' ro add",
    "C05_claim_once": "exists r', chan_claim ch' c2 e = ClaimErr r' /\\ r' = CLAlready",
}
MIXES = ["channels","all","channels","channels"]


def run(tier, seed):
    return brokerfam.run_check(PROP, "Props/C05.v", PINS, MIXES, tier, seed)


def replay(path):
    return brokerfam.replay(PROP, path)
