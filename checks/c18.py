"""C18 — formatting preserves the schema and is idempotent (DESIGN §4 C18).
Also hosts the helpers shared with checks/c17.py (same model, same harness binary)."""
import json
import os
import re
import shutil

from vlib import core
from vlib.core import Outcome, finish, proof_side

PROP = "C18"
PROPS_FILE = "Props/C18.v"
PINS = {
    "C18_parse_toks": "forall a, wf_ast a -> parse_toks (toks a) = Some (canon a)",
    "C18_parse_toks_reachable": "forall ts a, parse_toks ts = Some a -> no_bare_required a -> parse_toks (toks a) = Some (canon a)",
    "C18_canon_idem": "forall a, canon (canon a) = canon a",
    "C18_toks_canon": "forall a, toks (canon a) = toks a",
    "C18_print_canon": "forall a, print (canon a) = print a",
    "C18_indent": "forall ind a, (forall n, n <= 12 -> ind n = indent_real n) -> print_with ind a = print a",
    "C18_required_field_refuted": "parse_toks (tokenize",
    "C18_print_tokens_partial": "forall t, lex_ty t = true -> tokenize (pr_ty t ++ \";\") = (toks_ty t false ++ [TP PTerm])%list",
    "C18_imports_permuted": "forall a, Permutation (s_imports (canon a)) (s_imports a)",
    "C18_print_tokens": "forall a, printable a -> tokenize (print a) = toks a",
    "C18_format_preserves": "forall a, wf_ast a -> printable a -> parse_toks (tokenize (print a)) = Some (canon a)",
    "C18_format_idempotent_chars": "forall a, wf_ast a -> printable a -> option_map print (parse_toks (tokenize (print a))) = Some (print a)",
    "C18_printable_canon": "forall a, printable a -> printable (canon a)",
    "C18_parse_printable": "forall src a, parse_toks (tokenize src) = Some a -> printable a",
    "C18_format_roundtrip": "forall src a, parse_toks (tokenize src) = Some a -> no_bare_required a -> parse_toks (tokenize (print a)) = Some (canon a) /\\ option_map print (parse_toks (tokenize (print a))) = Some (print a)",
}
MODEL_FILES = ["Schema/Printer.v", "Schema/Lexer.v", "Schema/Parser.v", "Schema/Span.v"]
SIZES = {"quick": (8000, 8), "thorough": (160000, 16)}
LINE = re.compile(r"^(\S+) input=(\S*) imports=(\S*) detail=(\S*)$")


def build(o):
    ok = True
    with core.BuildLock():
        core.regen_for(o, {"GrammarTokens.v"})
        okc, outc, _ = core.cargo_build(["schema"])
        if not okc:
            o.obligation_broken("cargo build of the schema harness against /repo", outc)
            ok = False
        okb, outb, _ = core.coq_build(MODEL_FILES)
        if not okb:
            o.obligation_broken("coq build of the executable schema model", outb)
            return False
        okd, outd = core.build_driver("ExtractSchema.v", "schema_model", "schema_driver.ml", "schema_driver")
        if not okd:
            o.obligation_broken("extraction/compilation of the schema model driver", outd)
            ok = False
    return ok


def workdir(prop, name):
    d = os.path.join(core.WORK, prop, name)
    shutil.rmtree(d, ignore_errors=True)
    os.makedirs(d, exist_ok=True)
    return d


def repo_files(prop):
    """every .aldrin file of the repository (sorted), as a list file for the harness"""
    paths = []
    for root, dirs, files in os.walk(core.REPO):
        dirs[:] = [d for d in dirs if d not in ("target", ".git")]
        for f in files:
            if f.endswith(".aldrin"):
                paths.append(os.path.join(root, f))
    paths.sort()
    nrepo = len(paths)
    # stored failing inputs run with every check (DESIGN 1.2: the corpus runs first)
    cdir = os.path.join(core.VERIF, "corpus", prop)
    if os.path.isdir(cdir):
        paths = sorted(os.path.join(cdir, f) for f in os.listdir(cdir) if f.endswith(".aldrin")) + paths
    d = os.path.join(core.WORK, prop)
    os.makedirs(d, exist_ok=True)
    lst = os.path.join(d, "files.txt")
    with open(lst, "w") as f:
        f.write("\n".join(paths) + "\n")
    return lst, nrepo


def run_harness(o, cmds_dirs):
    res = core.parallel([c for c, _ in cmds_dirs], timeout=3000)
    for (rc, out), (c, d) in zip(res, cmds_dirs):
        if rc != 0:
            o.obligation_broken(f"harness `{c.split(core.TARGET)[-1][:60]}` (exit {rc})", out)


def run_model(o, dirs):
    cmds = [f"ulimit -s unlimited 2>/dev/null || ulimit -s 1000000; {os.path.join(core.BUILD, 'schema_driver')} {d}/cases.txt {d}/model.txt"
            for d in dirs]
    res = core.parallel(cmds, timeout=3000)
    for (rc, out), d in zip(res, dirs):
        if rc != 0:
            o.obligation_broken(f"model driver on {d}/cases.txt (exit {rc})", out)


def diff_dirs(o, dirs, what):
    """compare impl.txt and model.txt; the model may abstain (`unk`), the harness may skip (`-`)"""
    compared = 0
    ops = {}
    diffs = []
    abstained = 0
    for d in dirs:
        try:
            cases = open(f"{d}/cases.txt", encoding="utf-8", errors="replace").read().split("\n")
            impl = open(f"{d}/impl.txt", encoding="utf-8", errors="replace").read().split("\n")
            model = open(f"{d}/model.txt", encoding="utf-8", errors="replace").read().split("\n")
        except OSError as e:
            o.obligation_broken("correspondence files", str(e))
            continue
        if not (len(cases) == len(impl) == len(model)):
            diffs.append({"case": "length mismatch", "impl": str(len(impl)), "model": str(len(model)), "dir": d})
        for c, i, m in zip(cases, impl, model):
            if not c or i == "-":
                continue
            if m == "unk":
                abstained += 1
                continue
            compared += 1
            op = c.split(" ", 1)[0]
            cls = i.split(" ", 1)[0] if op in ("parse", "rt", "lex") else "text"
            ops[f"{op}:{cls}"] = ops.get(f"{op}:{cls}", 0) + 1
            if i != m:
                diffs.append({"case": c[:3000], "impl": i[:3000], "model": m[:3000]})
    if diffs:
        o.obligation_broken(f"correspondence {what}: model and implementation differ on {len(diffs)} of {compared} ops",
                            json.dumps(diffs[:4])[:3500])
    return compared, ops, abstained, len(diffs)


def read_lines(dirs, name):
    out = []
    for d in dirs:
        p = os.path.join(d, name)
        if os.path.exists(p):
            with open(p, encoding="utf-8", errors="replace") as f:
                out += [l.rstrip("\n") for l in f if l.strip()]
    return out


def unhex(h):
    try:
        return bytes.fromhex(h).decode("utf-8", "replace")
    except ValueError:
        return "?"


def still_fails(mode, what, data, imports, d):
    src = os.path.join(d, "shrink.aldrin")
    try:
        data.decode("utf-8")
    except UnicodeDecodeError:
        return False
    open(src, "wb").write(data)
    rc, out, _ = core.sh([core.harness_bin("schema"), "one", mode, os.path.join(d, "shrink"), src, imports or "none"], timeout=60)
    return any(l.split(" ", 1)[0] == what for l in out.splitlines())


def shrink(prop, mode, what, src_hex, imports, budget=120):
    """delta debugging on the bytes of the source text: drop chunks while the same monitor fires"""
    try:
        data = bytes.fromhex(src_hex)
    except ValueError:
        return src_hex
    d = os.path.join(core.WORK, prop, "shrink")
    os.makedirs(d, exist_ok=True)
    if not still_fails(mode, what, data, imports, d):
        return src_hex
    n = 2
    calls = 0
    while len(data) >= 2 and calls < budget:
        chunk = max(1, len(data) // n)
        reduced = False
        i = 0
        while i < len(data) and calls < budget:
            cand = data[:i] + data[i + chunk:]
            calls += 1
            if cand and still_fails(mode, what, cand, imports, d):
                data = cand
                n = max(n - 1, 2)
                reduced = True
            else:
                i += chunk
        if not reduced:
            if chunk == 1:
                break
            n = min(n * 2, len(data))
    return data.hex()


def report_monitor(o, lines, not_violations=(), mode="c18"):
    """monitor lines -> violations (shortest input of each kind first); kinds listed in
    `not_violations` are breaks of the generator's reading of the grammar, not of the property"""
    parsed = []
    for l in lines:
        m = LINE.match(l)
        if m:
            parsed.append(m.groups())
    parsed.sort(key=lambda g: len(g[1]))
    per_kind = {}
    for what, src, imps, detail in parsed:
        if what.split(":")[0] in not_violations:
            o.obligation_broken(f"generator/grammar reading: {what}", unhex(src)[:1500] + "\n" + unhex(detail)[:1500])
            continue
        n = per_kind.get(what, 0)
        per_kind[what] = n + 1
        if n >= 3:
            continue
        if n == 0:
            src = shrink(o.prop, mode, what, src, imps)
        o.violation(what, {"input": {"source": unhex(src)[:20000], "source_hex": src[:40000], "imports": imps[:40000]},
                           "impl_output": unhex(detail)[:3000]})
    return per_kind


def merge_stats(dirs):
    tot = {}
    samples = []
    for d in dirs:
        p = os.path.join(d, "stats.json")
        if not os.path.exists(p):
            continue
        try:
            s = json.load(open(p))
        except Exception:
            continue
        for k, v in s.items():
            if isinstance(v, int) and k != "seed":
                tot[k] = tot.get(k, 0) + v
            elif isinstance(v, dict):
                t = tot.setdefault(k, {})
                for kk, vv in v.items():
                    t[kk] = t.get(kk, 0) + vv
            elif k == "samples":
                samples += [unhex(x)[:400] for x in v[:1]]
    tot["samples"] = samples[:6]
    return tot


def correspondence(o, n, shards, seed):
    if not build(o):
        return
    lst, nfiles = repo_files(PROP)
    per = max(1, n // shards)
    cmds = []
    for i in range(shards):
        d = workdir(PROP, f"gen{i}")
        cmds.append((f"VERIF_SEED={seed * 1000 + i} {core.harness_bin('schema')} c18 {d} {per}", d))
    d = workdir(PROP, "files")
    cmds.append((f"{core.harness_bin('schema')} c18files {d} {lst}", d))
    run_harness(o, cmds)
    dirs = [d for _, d in cmds]
    run_model(o, dirs)
    compared, ops, abstained, ndiff = diff_dirs(o, dirs, "print/parse/rt/lex")
    kinds = report_monitor(o, read_lines(dirs, "monitor.txt"),
                           not_violations=("generator_invalid", "parse_differs_from_intended"))
    st = merge_stats(dirs)
    o.coverage.update({
        "evaluations": compared,
        "distinct_nontrivial": st.get("distinct_nontrivial", 0),
        "rule": "schemas from a grammar-directed generator (AST with node budget 4..120, identifiers incl. every grammar keyword, "
                "keyword-prefixed and non-ASCII identifiers, comments/docs/attributes in every prelude position) rendered with "
                "arbitrary layout (canonical / no optional whitespace / chaotic: blanks, tabs, LF, CRLF, blank lines, Unicode "
                "spaces, interleaved preludes, fallbacks in either order, both fn-body spellings, trailing commas), plus every "
                ".aldrin file of the repository; per schema: Parser on the text (AST = the generator's AST), Formatter::to_string "
                "vs the model's print character for character, Parser on the formatted text (no syntax error, AST equal up to "
                "canon, same position-free diagnostics), formatting twice; the model parser (tokenize + parse_toks) on the "
                "original and the formatted text; parse_toks(toks a) = canon a and tokenize(print a) = toks a executed. "
                "distinct_nontrivial = distinct source texts with at least one import or definition",
        "samples": st.get("samples", []),
        "input_distribution": {k: st.get(k) for k in ("inputs", "source_bytes", "streams", "result_classes", "diagnostic_kinds")},
        "correspondence_ops": ops,
        "model_abstained": abstained,
        "repository_files": nfiles,
        "monitor_failures": kinds,
        "disagreements": ndiff,
    })


def run(tier, seed):
    o = Outcome(PROP, tier, seed)
    o.assumptions = list(core.TRUSTED_BASE_COMMON) + [
        "modelled, not verified: parser/src/fmt.rs as Schema/Printer.v (print, toks), grammar.pest + ast/*.rs as Schema/Lexer.v "
        "(tokenize) and Schema/Parser.v (parse_toks); pest itself (PEG engine, Unicode tables) is not modelled: the model lexer "
        "classifies ASCII exactly, White_Space exactly, and a small table of non-ASCII identifier characters, and abstains elsewhere",
        "the character level (tokenize (print a) = toks a for every printable a, and every parsed schema is printable) is proved "
        "on the model and also executed on every generated schema; diagnostics (validation passes) are compared on the real code only",
    ]
    if os.path.exists(os.path.join(core.COQ, PROPS_FILE)):
        proof_side(o, PROPS_FILE, PINS)
    else:
        o.obligation_broken("Props/C18.v", "theorem file missing")
    o.coverage["trusted_base"] = o.assumptions
    o.coverage["explanation"] = ("token level proved on the model for all well-formed ASTs (nothing dropped, duplicated or reordered "
                                 "except the import sort; canonical form idempotent; re-formatting emits the same text); the one "
                                 "well-formedness condition that valid sources can violate (a non-required field called `required`) "
                                 "is a refuted lemma with a witness = the reported defect; character level proved (C18_print_tokens, "
                                 "C18_parse_printable, C18_format_roundtrip: for every source text that parses, under that one "
                                 "condition, the formatted text parses to the same schema and formats to the same text) and executed")
    n, shards = SIZES[tier]
    correspondence(o, n, shards, seed)
    return finish(o)


def replay_common(prop, mode, path):
    r = json.load(open(path))
    print(json.dumps({k: v for k, v in r.items() if k != "input"}, indent=1)[:3000])
    inp = r.get("input", {})
    h = inp.get("source_hex")
    if h is None:
        return 0
    o = Outcome(prop, "quick", 0)
    if not build(o):
        return 1
    d = workdir(prop, "replay")
    src = os.path.join(d, "input.aldrin")
    open(src, "wb").write(bytes.fromhex(h))
    print("---- source ----")
    print(bytes.fromhex(h).decode("utf-8", "replace"))
    rc, out, _ = core.sh([core.harness_bin("schema"), "one", mode, d, src, inp.get("imports", "") or "none"], timeout=600)
    print("---- monitor (real code) ----")
    for l in out.splitlines():
        m = LINE.match(l)
        if m:
            print(m.group(1))
            print("   " + unhex(m.group(4))[:1500].replace("\n", "\n   "))
        else:
            print(l[:300])
    run_model(o, [d])
    print("---- model vs implementation ----")
    for c, i, m in zip(open(f"{d}/cases.txt"), open(f"{d}/impl.txt"), open(f"{d}/model.txt")):
        verdict = "skipped (real code panicked)" if i.strip() == "-" else ("model abstains" if m.strip() == "unk" else ("agree" if i == m else "DIFFER"))
        print(f"{c.split(' ', 1)[0]}: {verdict} impl={i.strip()[:120]} model={m.strip()[:120]}")
    return 0


def replay(path):
    return replay_common(PROP, "c18", path)
