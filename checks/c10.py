"""C10 — broker-family check (see checks/brokerfam.py and DESIGN.md §4 C10)."""
from checks import brokerfam

PROP = "C10"
PINS = {}
MIXES = ["listeners","all","listeners","registry"]


def run(tier, seed):
    return brokerfam.run_check(PROP, "Props/C10.v", PINS, MIXES, tier, seed)


def replay(path):
    return brokerfam.replay(PROP, path)
