"""C08 — message codec: every kind round-trips through its frame; parsing is strict and total;
accepted frames re-serialize to a fixpoint (DESIGN §4 C08)."""
import json
import os
import shutil
import sys

from vlib import core
from vlib.core import BuildLock, Outcome, finish, proof_side

PROP = "C08"
PROPS_FILE = "Props/C08.v"
GEN_FILES = {"MsgSig.v", "MsgKinds.v", "Kinds.v", "Consts.v"}
PINS = {
    "C08_roundtrip": "forall m, wf_msg m = true -> exists f, ser_msg m = Ok f /\\ from_le (firstn 4 f) = lenN f /\\ parse_msg f = Ok m",
    "C08_payload_identical": "forall m f m', wf_msg m = true -> ser_msg m = Ok f -> parse_msg f = Ok m' -> mvalue m' = mvalue m /\\ mfields m' = mfields m /\\ mkind m' = mkind m",
    "C08_strict": "forall f m, parse_msg f = Ok m -> from_le (firstn 4 f) = lenN f /\\ known_kind (nth 4 f 0) = true /\\ mkind m = nth 4 f 0 /\\ exists d vpart fbytes, desc_of table (nth 4 f 0) = Some d /\\ f = firstn 4 f ++ [nth 4 f 0] ++ vpart ++ fbytes /\\ parse_fields (dfields d) fbytes = Ok (mfields m, []) /\\ value_part_ok d vpart m",
    "C08_accepts_wf": "forall f m, bytes_ok f = true -> parse_msg f = Ok m -> wf_msg m = true",
    "C08_reser": "forall f m, bytes_ok f = true -> parse_msg f = Ok m -> exists f', ser_msg m = Ok f' /\\ parse_msg f' = Ok m",
    "C08_reser_not_longer": "forall f m f', bytes_ok f = true -> parse_msg f = Ok m -> ser_msg m = Ok f' -> lenN f' <= lenN f",
    "C08_known_kinds": "forall k, known_kind k = true <-> k < 63",
    "C08_every_kind_inhabited": "forall k, k < 63 -> exists m, mkind m = k /\\ wf_msg m = true",
    "C08_table_tie": "map sig_of_desc table = gen.MsgSig.msg_sigs",
    "C08_frame_is_bytes": "forall m f, wf_msg m = true -> ser_msg m = Ok f -> bytes_ok f = true",
    "C08_per_type_agrees": "forall k f m, parse_as k f = Ok m -> parse_msg f = Ok m",
    "C08_dispatch_agrees": "forall f m, parse_msg f = Ok m -> parse_as (nth 4 f 0) f = Ok m",
}
# tier -> (valid messages per kind, mutated frames per kind, shards)
SIZES = {"quick": (500, 2000, 8), "thorough": (25000, 100000, 16)}


def workdir(name):
    d = os.path.join(core.WORK, PROP, name)
    shutil.rmtree(d, ignore_errors=True)
    os.makedirs(d, exist_ok=True)
    return d


def build(o):
    ok = True
    core.regen_for(o, GEN_FILES)
    with BuildLock():
        okc, outc, _ = core.cargo_build(["msg"])
        if not okc:
            o.obligation_broken("cargo build of the msg harness against /repo", outc)
            ok = False
        okb, outb, _ = core.coq_build(["Msg/Table.v"])
        if not okb:
            o.obligation_broken("coq build of the executable message-codec model", outb)
            return False
        okd, outd = core.build_driver("ExtractMsg.v", "msg_model", "msg_driver.ml", "msg_driver")
        if not okd:
            o.obligation_broken("extraction/compilation of the message-codec model driver", outd)
            ok = False
    return ok


def expected_alternatives():
    """number of distinct (kind, discriminant choices) paths the source has, from the translator"""
    sys.path.insert(0, os.path.join(core.VERIF, "tools"))
    try:
        import rs2v_msg
        _, _, by_kind, _ = rs2v_msg.scan()
        return sum(len(v["w"]) for v in by_kind.values()), len(by_kind)
    except Exception as e:  # the tie itself is reported by proof_side / regen_for
        return None, None


def read_monitor(dirs):
    out = []
    for d in dirs:
        p = os.path.join(d, "monitor.txt")
        if os.path.exists(p):
            with open(p, encoding="utf-8", errors="replace") as f:
                out += [l.rstrip("\n") for l in f if l.strip()]
    return out


def merge_stats(dirs):
    tot = {"alternatives": set(), "samples": []}
    for d in dirs:
        p = os.path.join(d, "stats.json")
        try:
            s = json.load(open(p))
        except Exception:
            continue
        for k, v in s.items():
            if k == "alternatives":
                tot["alternatives"].update(v)
            elif k == "samples":
                tot["samples"] += v[:2]
            elif k in ("max_frame_len", "kinds_covered"):
                tot[k] = max(tot.get(k, 0), v)
            elif isinstance(v, int) and k not in ("seed", "alternatives_covered"):
                tot[k] = tot.get(k, 0) + v
            elif isinstance(v, dict):
                t = tot.setdefault(k, {})
                for kk, vv in v.items():
                    t[kk] = t.get(kk, 0) + vv
    tot["samples"] = tot["samples"][:6]
    return tot


def judge_diffs(o, diffs):
    """A frame the REAL parser accepts although the model's parser rejects it is a concrete violation of the
    strictness clause: the model's parser is proved strict (C08_strict: an accepted frame is exactly prefix ++
    kind ++ value part ++ field bytes with nothing left over) and complete (C08_roundtrip: the frame of every
    well-formed message is accepted), so what it rejects is not the frame of any message."""
    for x in diffs[:50]:
        op, _, b = x["case"].partition(" ")
        if op not in ("de", "deas") and not op.startswith("de"):
            continue
        if not x["impl"].startswith("!") and x["model"].startswith("!"):
            o.violation("lenient_parse: the implementation accepts a frame that the strict grammar rejects (model: %s)"
                        % x["model"][:60],
                        {"input": {"bytes": b.split(" ")[-1][:40000], "op": x["case"][:200]},
                         "impl_output": x["impl"][:600], "model_output": x["model"][:200]})


def correspondence(o, n_valid, n_mut, shards, seed):
    if not build(o):
        return
    big = n_valid > 5000
    dirs = []
    cmds = []
    pv = max(1, n_valid // shards)
    pm = max(1, n_mut // shards)
    for i in range(shards):
        d = workdir(f"gen{i}")
        dirs.append(d)
        cmds.append(f"VERIF_SEED={seed * 1000 + i} {core.harness_bin('msg')} gen {d} {pv} {pm}")
    for (rc, out), d in zip(core.parallel(cmds, timeout=3000), dirs):
        if rc != 0:
            o.obligation_broken(f"harness msg gen (exit {rc})", out)
    cmds = [f"ulimit -s unlimited 2>/dev/null || ulimit -s 1000000; {os.path.join(core.BUILD, 'msg_driver')} {d}/cases.txt {d}/model.txt"
            for d in dirs]
    for (rc, out), d in zip(core.parallel(cmds, timeout=3000), dirs):
        if rc != 0:
            o.obligation_broken(f"model driver on {d}/cases.txt (exit {rc})", out)
    compared = 0
    ndiff = 0
    first = []
    for d in dirs:
        try:
            c, diffs = core.diff_lines(f"{d}/cases.txt", f"{d}/impl.txt", f"{d}/model.txt")
        except OSError as e:
            o.obligation_broken("correspondence files", str(e))
            continue
        compared += c
        ndiff += len(diffs)
        first += [x for x in diffs if x][:3]
        judge_diffs(o, [x for x in diffs if x])
        if big and not diffs and os.path.getsize(f"{d}/monitor.txt") == 0:
            # a clean shard of a large run: keep only its statistics
            for n in ("cases.txt", "impl.txt", "model.txt"):
                os.remove(f"{d}/{n}")
    mon = read_monitor(dirs)
    # shortest failing input first: it is the replay
    for line in sorted(mon, key=len)[:200]:
        what, _, rest = line.partition(" input=")
        inp, _, detail = rest.partition(" detail=")
        what = what[len("C08 "):] if what.startswith("C08 ") else what
        key = "message" if "_" in inp else "bytes"
        o.violation(what, {"input": {key: inp.replace("_", " ")[:40000]}, "impl_output": detail[:2000]})
    if ndiff:
        shown = [{k: (v[:600] if isinstance(v, str) else v) for k, v in x.items()} for x in first[:5]]
        o.obligation_broken("correspondence ser/wf/de/deas: model and implementation differ on %d of %d ops"
                            % (ndiff, compared), json.dumps(shown)[:3500])
    st = merge_stats(dirs)
    want_alts, want_kinds = expected_alternatives()
    got_alts = len(st["alternatives"])
    if want_alts is not None and (got_alts != want_alts or st.get("kinds_covered") != want_kinds):
        o.obligation_broken("generator coverage: the valid stream must visit every kind and every enum alternative",
                            f"alternatives visited {got_alts} of {want_alts}, kinds {st.get('kinds_covered')} of {want_kinds}")
    o.coverage.update({
        "evaluations": compared,
        "distinct_nontrivial": st.get("distinct_nontrivial", 0),
        "rule": "per kind (all 63): generated messages cycling through every enum alternative (results, options, "
                "filters, channel ends, bus events), u32 fields biased to varint edges (0,1,250..257,2^16±1,2^24±1,"
                "2^32-1), ids incl. all-zero/all-ff/header-like bytes, payloads of 1..300 bytes, a few above 64 KiB and "
                "SerializedValue::empty(); each goes through serialize_message (bytes compared with ser_msg byte for "
                "byte, acceptance compared with wf_msg), Message::deserialize_message and <Kind>::deserialize_message "
                "(decoded fields/payload/error kind compared with parse_msg/parse_as). Mutated stream: ten mutations of "
                "valid frames (length prefix edits, kind byte sweep 0..255, byte sweeps biased to field bytes, "
                "truncation, trailing bytes, value-length edits, insert/delete, non-canonical varints, random bytes, "
                "splices) through both deserializers under catch_unwind. distinct_nontrivial = distinct message texts "
                "plus distinct mutated frames of >= 5 bytes, counted per shard with a hash set and summed (shards use "
                "different seeds)",
        "samples": st.get("samples", []),
        "input_distribution": {k: st.get(k) for k in ("ops", "streams", "result_classes", "max_frame_len")},
        "kinds_covered": st.get("kinds_covered"),
        "alternatives_covered": got_alts,
        "alternatives_in_source": want_alts,
        "monitor_failures": len(mon),
        "disagreements": ndiff,
    })


def run(tier, seed):
    o = Outcome(PROP, tier, seed)
    o.assumptions = list(core.TRUSTED_BASE_COMMON) + [
        "modelled, not verified: MessageSerializer, Message{With,Without}ValueDeserializer, MessageBufExt and the 63 "
        "per-kind (de)serializers as one generic codec (Msg/Grammar.v) over 63 descriptors (Msg/Table.v); the "
        "descriptors are tied to the 63 source files by the call-path scanner tools/rs2v_msg.py + Msg/Tie.v "
        "(reflexivity), the assignment of struct fields to wire positions by the differential run",
        "SerializedValue is an opaque non-empty byte string at this layer; frames above 4 GiB (Overflow) are in the "
        "model and the theorems but not exercised by the harness",
        "partial: absence of panics in the compiled Rust is observed (catch_unwind on every call), not proved",
    ]
    if os.path.exists(os.path.join(core.COQ, PROPS_FILE)):
        proof_side(o, PROPS_FILE, PINS)
    else:
        o.obligation_broken("Props/C08.v", "theorem file missing")
    o.coverage["trusted_base"] = o.assumptions
    o.coverage["explanation"] = ("round trip, strictness and re-serialization fixpoint proved for the generic codec over "
                                 "any descriptor table, instantiated at the 63-kind table tied to the sources; "
                                 "panic-freedom of the Rust observed under catch_unwind")
    n_valid, n_mut, shards = SIZES[tier]
    correspondence(o, n_valid, n_mut, shards, seed)
    if o.broken and not o.violations and tier == "quick":
        o.coverage["search_note"] = "monitors re-run on a 10x larger sample after an obligation broke"
        o2 = Outcome(PROP, tier, seed + 7)
        correspondence(o2, n_valid * 10, n_mut * 10, 16, seed + 7)
        o.violations += o2.violations
    return finish(o)


def replay(path):
    r = json.load(open(path))
    print(json.dumps(r, indent=1)[:3000])
    inp = r.get("input", {})
    lines = []
    if inp.get("message"):
        lines += [f"ser {inp['message']}", f"wf {inp['message']}"]
    if inp.get("bytes") is not None and "bytes" in inp:
        b = inp["bytes"]
        lines += [f"de {b}"]
        if len(b) >= 10:
            lines += [f"deas {int(b[8:10], 16)} {b}"]
    if not lines:
        return 0
    o = Outcome(PROP, "quick", 0)
    if not build(o):
        return 1
    d = workdir("replay")
    open(f"{d}/cases.txt", "w").write("".join(l + "\n" for l in lines))
    rc1, out1, _ = core.sh(f"{core.harness_bin('msg')} run {d}/cases.txt {d}/impl.txt", timeout=600)
    rc2, out2, _ = core.sh(f"{os.path.join(core.BUILD, 'msg_driver')} {d}/cases.txt {d}/model.txt", timeout=600)
    if rc1 or rc2:
        print(out1, out2)
        return 1
    bad = 0
    for l, i, m in zip(lines, open(f"{d}/impl.txt"), open(f"{d}/model.txt")):
        same = i.strip() == m.strip()
        bad += 0 if same else 1
        print(f"{l[:200]}\n  impl ={i.strip()[:300]}\n  model={m.strip()[:300]}  {'agree' if same else 'DIFFER'}")
    return 1 if bad else 0
