"""C19 — discovery and lifetimes converge (DESIGN §4 C19, design/C19.md).

Proof side: Props/C19.v (the four discoverer entry kinds, restart, Lifetime, find/wait, on every
deliverable sequence and against every well-formed bus history).  Correspondence: harness
`discover` (real Discoverer / Lifetime / find_object / wait_for_object over a real broker and real
clients under a seeded random scheduler) against the extracted folds run on the SAME bus events
(recorded by shadow listeners); the monitor evaluates the property on the Rust outputs alone
against what the actors know they created and destroyed.
"""
import json
import os
import shutil

from vlib import core
from vlib.codec import merge_stats
from vlib.core import BuildLock, Outcome, finish

PROP = "C19"
PROPS_FILE = "Props/C19.v"
PINS = {
    "C19_view": "forall sp l, deliverable l -> exists e, entry_run (entry_new sp) l = Ok (e, transitions t_empty l sp) /\\ "
                "(forall u c, In (u, c) (entry_iter e) <-> matchingb (trun t_empty l) sp u c = true) /\\ "
                "NoDup (map fst (entry_iter e))",
    "C19_transitions_exact": "legalb T ev = true -> (u, c) <> ev_obj ev -> matchingb (tstep T ev) sp u c = matchingb T sp u c",
    "C19_view_discoverer": "deliverable l -> NoDup (map sp_key sps) -> exists es evs, disc_run (disc_new sps) l = Ok (es, evs)",
    "C19_deliverable": "bus_wf (pre ++ hist) -> snapshot_of fs (trun t_empty pre) cur -> deliverable (delivered fs cur hist)",
    "C19_view_bus": "bus_wf (pre ++ hist) -> snapshot_of fs (trun t_empty pre) cur -> covers fs sp -> exists e snap, "
                    "entry_run (entry_new sp) (delivered fs cur hist) = Ok (e, snap ++ bus_transitions (trun t_empty pre) hist sp)",
    "C19_bus_transitions_exact": "bus_wf (pre ++ [ev]) -> (u, c) <> ev_obj ev -> "
                                 "bus_matchingb (trun t_empty (pre ++ [ev])) sp u c = bus_matchingb (trun t_empty pre) sp u c",
    "C19_covers": "In sp sps -> covers (disc_filters (disc_new sps)) sp",
    "C19_restart": "entry_run (entry_new sp) l = Ok (e, evs) -> entry_run (entry_reset e) l' = entry_run (entry_new sp) l'",
    "C19_restart_discoverer": "disc_run (disc_new sps) l = Ok (es, evs) -> disc_run (disc_reset es) l' = disc_run (disc_new sps) l'",
    "C19_lifetime": "lt_deliverable u cur (n1 ++ n2) -> ~ In (EvObjectCreated u c) (n1 ++ n2) -> exists st, "
                    "lt_run (lt_new u c) (LStarted :: map LEvent cur ++ LCurrentFinished :: map LEvent n1) = LOk st /\\ "
                    "(lt_ended st = true <-> aget (t_objs (trun t_empty (cur ++ n1))) u <> Some c)",
    "C19_lifetime_current": "cur = c1 ++ c2 -> lt_deliverable u cur news -> exists st, "
                            "lt_run (lt_new u c) (LStarted :: map LEvent c1) = LOk st /\\ "
                            "(lt_ended st = true -> aget (t_objs (trun t_empty cur)) u <> Some c)",
    "C19_lifetime_bus": "memb c (t_used_o (trun t_empty pre)) = true -> exists st, "
                        "lt_run (lt_new u c) (lt_stream cur (filter (matches_filters [FObject (Some u)]) h1)) = LOk st /\\ "
                        "(lt_ended st = true <-> aget (t_objs (trun t_empty (pre ++ h1))) u <> Some c) /\\ "
                        "(lt_ended st = true -> aget (t_objs (trun t_empty (pre ++ h1 ++ h2))) u <> Some c)",
    "C19_wait": "bus_wf (pre ++ hist) -> snapshot_of fs (trun t_empty pre) cur -> covers fs sp -> "
                "(find_object sp (delivered fs cur hist) = Ok None /\\ forall h1 h2, hist = h1 ++ h2 -> "
                "forall u c, bus_matchingb (trun t_empty (pre ++ h1)) sp u c = false)",
    "C19_listener_current": "l_drain (S (length cur)) alive (l_start l_new SCurrent) "
                            "(BStarted SCurrent :: map BEvent cur ++ BCurrentFinished :: rest) = "
                            "(cur, mkL (Some SCurrent) 0 0 0 false, rest, PNone)",
    "C19_listener_all": "l_drain (S (length cur + length news)) true (l_start l_new SAll) "
                        "(BStarted SAll :: map BEvent cur ++ BCurrentFinished :: map BEvent news) = "
                        "(cur ++ news, mkL (Some SAll) 0 0 0 false, [], PPending)",
    "C19_listener_stop": "l_drain (S (length evs)) alive (l_stop (mkL (Some SAll) 0 0 0 false)) "
                         "(map BEvent evs ++ BStopped :: rest) = (evs, l_new, rest, PNone)",
    "C19_find": "bus_wf pre -> snapshot_of fs (trun t_empty pre) cur -> covers fs sp -> "
                "(find_object sp cur = Ok None /\\ forall u c, bus_matchingb (trun t_empty pre) sp u c = false)",
}
FRAGMENT = os.path.join(core.COQ, "project.d", "71-clientfold.list")


def cone():
    """the dependency cone of Props/C19.v = the files of coq/project.d/71-clientfold.list, in
    dependency order (stdlib apart, C19 depends on nothing else of the development)"""
    return [l.strip() for l in open(FRAGMENT) if l.strip()]


def proof_side_local(o):
    """steps 1-3 of DESIGN 1.3 as vlib.core.proof_side does them, but the cone is compiled with
    coqc directly (in the order of the fragment), so that C19 does not depend on the other
    subsystems' files being present/compilable in the shared Makefile"""
    ok, out, failed = core.regenerate()
    files = cone()
    mine = {f for f in failed if f == "*" or ("gen/" + f) in files}
    if mine:
        o.obligation_broken("translator tools/rs2v.py (tie to /repo sources): " + ", ".join(sorted(mine)), out)
    o.coverage["checker_cmd"] = ("python3 tools/rs2v.py && cd coq && for f in $(cat project.d/71-clientfold.list); do "
                                 "coqc -Q . Aldrin $f; done   (Props/C19.v prints the assumptions)")
    o.coverage["proof_files"] = files
    stmts = core.count_statements(files)
    o.coverage["obligations"] = len(stmts)
    rebuilt = False
    built = []
    outp = ""
    with BuildLock():
        for f in files:
            src = os.path.join(core.COQ, f)
            vo = src[:-2] + ".vo"
            stale = rebuilt or not os.path.exists(vo) or os.path.getmtime(vo) < os.path.getmtime(src)
            if stale or f == PROPS_FILE:
                rc, outc, _ = core.sh(["coqc", "-Q", ".", "Aldrin", f], cwd=core.COQ, timeout=1500)
                if rc != 0:
                    o.obligation_broken(f"coq build of {PROPS_FILE} (failed in {f})", outc)
                    o.coverage["discharged"] = len(core.count_statements(built))
                    return False
                rebuilt = True
                if f == PROPS_FILE:
                    outp = outc
            built.append(f)
    o.coverage["discharged"] = len(stmts)
    bad = core.audit_sources(files)
    if bad:
        o.obligation_broken("audit: forbidden declaration or switch", "\n".join(bad))
    okp, assum, outp2 = core.print_assumptions(PROPS_FILE)
    o.coverage["print_assumptions"] = {k: ("Closed under the global context" if v == [] else v)
                                       for k, v in assum.items()}
    for name, ax in assum.items():
        if ax is None:
            o.obligation_broken(f"Print Assumptions {name}", "no answer parsed\n" + outp2)
        else:
            extra = [a for a in ax if a not in core.ALLOWED_AXIOMS]
            if extra:
                o.obligation_broken(f"Print Assumptions {name}", "unexpected axioms: " + ", ".join(extra))
    asked = set(assum)
    for name in PINS:
        if name not in asked:
            o.obligation_broken(f"Print Assumptions {name}", "theorem not followed by Print Assumptions in " + PROPS_FILE)
    miss = core.pins_ok(PROPS_FILE, PINS)
    if miss:
        o.obligation_broken("statement pins", "statement changed or missing: " + ", ".join(miss))
    return not o.broken


# (worlds per shard, shards, base number of steps per actor)
SIZES = {"quick": (1500, 16, 30), "thorough": (40000, 16, 30)}

# the driver must notice these (one per kind of disagreement the correspondence can report)
CANARIES = [
    ("case 0 1 1\nspec 0 - -\nnew\ncur oc:1:100\nev oc:1:101\ndeliv", "ILLEGAL at 1"),
    ("case 0 1 1\nspec 0 - 11\nnew\ncur -\nev sc:1:100:11:101\nev sc:1:102:12:103\ndeliv", "ILLEGAL at 1"),
    ("case 0 1 1\nspec 0 - -\nnew\ncur oc:1:100\nev od:1:100\nevents 0 +1.100", "MISMATCH"),
    ("case 0 1 1\nspec 0 1 11\nnew\ncur -\nev sc:1:100:11:101\nview 0", "view 1.100[11.101]"),
    ("case 0 1 1\nlt 1 100 | oc:1:100 | od:1:100", "ended=1"),
    ("case 0 1 1\nlt 1 100 | oc:1:100 | -", "ended=0"),
    ("case 0 1 1\nfind - 11 | sc:1:100:11:101 | none", "BAD"),
    ("case 0 1 1\nwait - 11 | - | sc:1:100:11:101 | 1.100[11.101]", "ok"),
]


def build(o):
    ok = True
    with BuildLock():
        okc, outc, _ = core.cargo_build(["discover"])
        if not okc:
            o.obligation_broken("cargo build of the discover harness against /repo", outc)
            ok = False
        for f in ("ClientFold/Discoverer.v", "ClientFold/Lifetime.v"):
            src = os.path.join(core.COQ, f)
            vo = src[:-2] + ".vo"
            if not os.path.exists(vo) or os.path.getmtime(vo) < os.path.getmtime(src):
                rc, outb, _ = core.sh(["coqc", "-Q", ".", "Aldrin", f], cwd=core.COQ, timeout=1500)
                if rc != 0:
                    o.obligation_broken("coq build of the executable discovery/lifetime folds", outb)
                    return False
        okd, outd = core.build_driver("ExtractClientFold.v", "clientfold_model", "clientfold_driver.ml",
                                      "clientfold_driver")
        if not okd:
            o.obligation_broken("extraction/compilation of the clientfold model driver", outd)
            ok = False
    return ok


def workdir(name):
    d = os.path.join(core.WORK, PROP, name)
    shutil.rmtree(d, ignore_errors=True)
    os.makedirs(d, exist_ok=True)
    return d


def model_cmd(d):
    return f"{os.path.join(core.BUILD, 'clientfold_driver')} {d}/cases.txt {d}/model.txt"


def canaries(o):
    d = workdir("canary")
    bad = []
    for i, (case, expect) in enumerate(CANARIES):
        with open(f"{d}/cases.txt", "w") as f:
            f.write(case + "\n")
        rc, out, _ = core.sh(model_cmd(d), timeout=60)
        last = open(f"{d}/model.txt").read().strip().split("\n")[-1] if rc == 0 else f"rc={rc} {out}"
        if not last.startswith(expect):
            bad.append(f"canary {i}: expected `{expect}`, driver said `{last}`")
    if bad:
        o.obligation_broken("model driver self-test (the driver must flag seeded disagreements)", "\n".join(bad))
    return len(CANARIES) - len(bad)


def correspondence(o, n, shards, steps, seed):
    if not build(o):
        return
    ncan = canaries(o)
    dirs = [workdir(f"s{i}") for i in range(shards)]
    res = core.parallel([f"VERIF_SEED={seed} {core.harness_bin('discover')} gen {d} {n} {i} {steps + 10 * (i % 4)}"
                         for i, d in enumerate(dirs)], timeout=3000)
    for (rc, out), d in zip(res, dirs):
        if rc != 0:
            o.obligation_broken(f"harness discover gen (exit {rc})", out)
    res = core.parallel([model_cmd(d) for d in dirs], timeout=3000)
    for (rc, out), d in zip(res, dirs):
        if rc != 0:
            o.obligation_broken(f"model driver on {d}/cases.txt (exit {rc})", out)
    compared = 0
    ndiff = 0
    first = []
    for d in dirs:
        try:
            c, diffs = core.diff_lines(f"{d}/cases.txt", f"{d}/impl.txt", f"{d}/model.txt")
        except OSError as e:
            o.obligation_broken("correspondence files", str(e))
            continue
        compared += c
        ndiff += len(diffs)
        if diffs:
            first += [dict({k: str(v)[:600] for k, v in x.items()}, world=world_of(d, x["line"])) for x in diffs if x][:3]
    # monitor lines: what \t "<seed> <nactors> <steps>" \t detail ; the smallest world first
    mon = []
    for d in dirs:
        p = os.path.join(d, "monitor.txt")
        if os.path.exists(p):
            with open(p, encoding="utf-8", errors="replace") as f:
                for line in f:
                    parts = line.rstrip("\n").split("\t")
                    if len(parts) == 3:
                        mon.append(parts)
    mon.sort(key=lambda m: (int(m[1].split()[1]), int(m[1].split()[2]), m[1]))
    for what, params, detail in mon[:200]:
        seed_, nact, st = params.split()
        o.violation(f"{what}: {detail[:300]}",
                    {"input": {"world_seed": seed_, "actors": int(nact), "steps": int(st)},
                     "how": "harness/src/bin/discover.rs `discover one <world_seed> <actors> <steps>` re-runs this "
                            "world (./check C19 --replay <this file>)"})
    if ndiff:
        o.obligation_broken("correspondence discoverer/lifetime/find/wait: model and implementation differ on %d of %d "
                            "compared lines" % (ndiff, compared), json.dumps(first[:5])[:3500])
    st = merge_stats(dirs)
    o.coverage.update({
        "evaluations": compared,
        "distinct_nontrivial": st.get("distinct_nontrivial", 0),
        "rule": "one evaluation = one compared line: a view of one discoverer entry (objects with their service ids), "
                "the complete sequence of events one entry emitted since the last restart (snapshot part as a multiset, "
                "the rest in order), the events emitted up to a restart (prefix), the verdict of one Lifetime, the answer "
                "of one find_object / wait_for_object, or the deliverability of one observed listener stream — each "
                "computed by the real code in a real broker/client world and by the extracted Coq fold on the bus events "
                "the shadow listeners recorded in that world. distinct_nontrivial = worlds with pairwise different "
                "(entry specs, observed bus events) in which the listener saw at least one destruction and the discoverer "
                "emitted at least one event.",
        "samples": st.get("samples", []),
        "input_distribution": {k: st.get(k) for k in ("cases", "lines", "entry_kinds", "expected_objects",
                                                      "discoverer_events", "raw_bus_events", "raw_destroy_events",
                                                      "restarts", "worlds_without_discoverer_correspondence",
                                                      "worlds_with_bounded_transport", "lifetimes", "finds", "waits")},
        "monitor_failures": st.get("monitor_failures", {}),
        "driver_canaries_passed": ncan,
        "disagreements": ndiff,
    })


def world_of(d, line):
    """the `case` line that precedes line number `line` of d/cases.txt"""
    try:
        last = ""
        with open(f"{d}/cases.txt") as f:
            for i, l in enumerate(f):
                if l.startswith("case "):
                    last = l.strip()
                if i >= line:
                    break
        return last
    except OSError:
        return ""


def run(tier, seed):
    o = Outcome(PROP, tier, seed)
    o.assumptions = list(core.TRUSTED_BASE_COMMON) + [
        "modelled, not verified: the entry kinds of aldrin/src/discoverer/{any,specific,specific_with_services,"
        "specific_without_services}.rs, DiscovererBuilder::add, Discoverer::{poll_next_event (the loop over entries), "
        "stop/restart (reset)}, Lifetime::poll_ended, Handle::{find_object,wait_for_object}, BusListener::{start,stop,"
        "is_finished,poll_next_event} as ClientFold/{Discoverer,Lifetime,Listener}.v; tools/rs2v_clientfold.py compares the 63 transcribed function bodies (hash of the comment- and "
        "whitespace-free text) with the ones the model was written from and counts the debug_assert sites (TieError on "
        "any change)",
        "the guarantees of the listener stream (bus_wf, snapshot_of, delivered in ClientFold/Bus.v) are the broker's "
        "(C03/C10) and the client listener's (BusListenerHandle::emit_current / emit_new_if_matches: per listener FIFO, "
        "client-side filter = matches_filters); here they are hypotheses, checked on every observed stream by the "
        "extracted `deliverableb`",
        "outside the proof: task schedules, wake-ups and the channel between client and listener (explored by the "
        "seeded scheduler of the harness, not proved); HashMap iteration order (views are compared as sets, events of "
        "different keys are not ordered against each other); Discoverer::{service_ids_n, iter over all entries, "
        "is_finished/wait_finished} are exercised by the harness only; ClientFold/Listener.v (pending_* counters) is "
        "proved about but has no differential run of its own (its queue is private): the harness depends on its "
        "theorems in that every snapshot shadow must end with None and no stream shadow may",
        "harness: the shadow listeners see what the private listener sees because both are started while the actors' "
        "tasks are not scheduled and new events are dispatched to all listeners of a client in one loop "
        "(Client::msg_emit_bus_event)",
    ]
    if os.path.exists(os.path.join(core.COQ, PROPS_FILE)):
        proof_side_local(o)
    else:
        o.obligation_broken(PROPS_FILE, "theorem file missing")
    o.coverage["trusted_base"] = o.assumptions
    o.coverage["explanation"] = (
        "proved for ALL deliverable event sequences and ALL well-formed bus histories, filter sets and snapshot "
        "orders: the four entry folds never trip a debug_assert, hold exactly the existing matching objects with all "
        "required services under their current ids, emit exactly the transitions in order, restart = fresh start; a "
        "Lifetime has ended iff its scope is not alive (and then never again); find/wait answer an object that existed "
        "during the call. NOT proved: anything about task schedules — a fold consumes what has been delivered; that "
        "every schedule delivers everything (no lost wake-up, no stuck task) is explored with seeded random schedules "
        "on the real code, not proved")
    n, shards, steps = SIZES[tier]
    correspondence(o, n, shards, steps, seed)
    if o.broken and not o.violations and tier == "quick":
        o.coverage["search_note"] = "monitors re-run on a 5x larger sample after an obligation broke"
        o2 = Outcome(PROP, tier, seed + 7)
        correspondence(o2, n * 5, 16, steps, seed + 7)
        o.violations += o2.violations
    return finish(o)


def replay(path):
    r = json.load(open(path))
    print(json.dumps({k: v for k, v in r.items() if k != "input"}, indent=1)[:3000])
    w = r.get("input")
    if not w:
        return 0
    o = Outcome(PROP, "quick", 0)
    if not build(o):
        return 1
    d = workdir("replay")
    rc, out, _ = core.sh(f"{core.harness_bin('discover')} one {w['world_seed']} {w['actors']} {w['steps']} {d}",
                         timeout=600)
    print(out[-6000:])
    rcm, outm, _ = core.sh(model_cmd(d), timeout=600)
    bad = 0
    if rcm == 0:
        c, diffs = core.diff_lines(f"{d}/cases.txt", f"{d}/impl.txt", f"{d}/model.txt")
        for x in diffs:
            if x:
                bad += 1
                print("DISAGREEMENT", json.dumps(x)[:800])
    else:
        print("model driver failed:", outm)
    print("reproduced" if (rc != 0 or bad) else "not reproduced (lines above)")
    return 1 if (rc != 0 or bad) else 0
