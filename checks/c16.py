"""C16 — generated types are wire-compatible (DESIGN §4 C16, §5 item 7).

Three parts, in the property's order:
 1. "the generated Rust code compiles": decided by rustc on a corpus of generated schemas (NOT by a
    theorem).  Main stream avoids the known failure classes, the second stream contains exactly
    them; every failing module is attributed to its schema, classified and reported.
 2. the wire contract on the REAL generated types (corpus runner) — monitor = the property
    statement on the Rust alone (harness `derive monitor`).
 3. the same inputs through the Coq model of the derive contract (extracted driver), compared.
"""
import json
import os
import re
import shutil

from vlib import c16corpus as cc
from vlib import c16gen as gen
from vlib import core
from vlib.core import BuildLock, Outcome, finish, proof_side

PROP = "C16"
PROPS_FILE = "Props/C16.v"
PINS = {
    "C16_decides": "match typed e t d v with | Some x => tde f t d (bs ++ r) = Ok (x, r) | None => exists err, tde f t d (bs ++ r) = Err err end",
    "C16_accepts": "wf_ty t = true -> wf true v = true -> conforms t v = true -> serialize e v = Ok bs -> exists x bs', tde_top t bs = Ok x /\\ tser_top t x = Ok bs' /\\ de_as_value true bs' = Ok (norm t v)",
    "C16_fallback_preserves": "wf_ty t = true -> wf true v = true -> conforms t v = true -> serialize e v = Ok bs -> exists x bs', tde_top t bs = Ok x /\\ typed e t 0 v = Some x /\\ tser_top t x = Ok bs' /\\ tde_top t bs' = Ok x",
    "C16_rejects": "wf_ty t = true -> wf true v = true -> conforms t v = false -> serialize e v = Ok bs -> exists err, tde_top t bs = Err err",
    "C16_total": "forall t b, tde_top t b <> Err Fuel",
    "C16_doc_attr_current": "forall d, rust_string_literal (emit_doc_attr_current d) = Some d",
    "C16_missing_required": "In (id, (true, ft)) fs -> has_id id l = false -> conforms (TStruct fs fb) (VStruct l) = false",
    "C16_wrongly_typed_field": "find_field fs id = Some (true, ft) -> In (id, x) l -> conforms ft x = false -> conforms (TStruct fs fb) (VStruct l) = false",
    "C16_unknown_variant": "find_variant vs id = None -> conforms (TEnum vs false) (VEnum id x) = false",
    "C16_unknown_ids_tolerated": "conforms (TStruct fs fb) (VStruct (l ++ [(id, x)])) = true",
    "C16_doc_attr_refuted": "exists d, rust_string_literal (emit_doc_attr d) <> Some d",
    "C16_doc_attr_fixed": "forall d, rust_string_literal (emit_doc_attr_fixed d) = Some d",
    "C16_old_new": "wf_ty t_old = true -> wf_ty t_new = true -> evolves_keeping t_old t_new = true -> wf true v = true -> conforms t_new v = true -> serialize e v = Ok bs -> exists x_old bs' x_new bs'', tde_top t_old bs = Ok x_old /\\ tser_top t_old x_old = Ok bs' /\\ tde_top t_new bs' = Ok x_new /\\ tde_top t_new bs = Ok x_new /\\ tser_top t_new x_new = Ok bs'' /\\ de_as_value true bs'' = Ok (norm t_new v)",
    "C16_old_new_all_fallback": "evolves t_old t_new = true -> all_fallback t_old = true -> wf true v = true -> conforms t_new v = true -> serialize e v = Ok bs -> exists x_old bs' x_new bs'', tde_top t_old bs = Ok x_old /\\ tser_top t_old x_old = Ok bs' /\\ tde_top t_new bs' = Ok x_new /\\ tde_top t_new bs = Ok x_new /\\ tser_top t_new x_new = Ok bs'' /\\ de_as_value true bs'' = Ok (norm t_new v)",
    "C16_evolves_iff": "forall t_old t_new, evolves t_old t_new = true <-> Evolves t_old t_new",
    "C16_old_accepts_what_new_accepts": "evolves_keeping t_old t_new = true -> conforms t_new v = true -> conforms t_old v = true",
    "C16_old_rejects_new_variant": "find_variant vs_old id = None -> serialize e (VEnum id x) = Ok bs -> exists err, tde_top (TEnum vs_old false) bs = Err err",
    "C16_old_drops_without_fallback": "de_as_value true bs' = Ok (VStruct l') /\\ forall id y, In (id, y) l' -> known_field fs_old id = true",
}
SIZES = {
    "quick": dict(main=12, pairs=3, cases=6000, shards=4, batch=40),
    "thorough": dict(main=200, pairs=16, cases=400000, shards=16, batch=25),
}
CLASS_TEXT = {
    "a": "with --introspection a doc line containing a double quote or a backslash is pasted unescaped into #[aldrin(doc = \"...\")]",
    "b": "a const named like a Rust keyword is emitted without r#",
    "c": "a string constant containing a bare CR is copied into a Rust string literal",
    "d": "the identifiers Self/self/crate/super/_ are emitted as invalid raw identifiers",
    "e": "field or variant id 4294967295 (or 4294967294 followed by the fallback) makes the derive macros panic with 'attempt to add with overflow' in builds with overflow checks (dev profile)",
    "f": "a newtype (tuple struct) or const shares its name with a struct field or with the snake-case form of a payload variant of the same schema: the derive macros' local bindings of that name are rejected (E0530 cannot shadow tuple structs / constants)",
    "impl": "a generated type lacks a trait impl the code generator derives for it by its own rules (key newtype: PartialEq/Eq/PartialOrd/Ord/Hash/PrimaryKeyTag; struct without required fields and newtype resolving to one: Default; #[rust(impl_*)] options)",
    "other": "generated code does not compile",
    "codegen": "the code generator fails on an error-free schema",
}


def log(*a):
    core.log("[C16]", *a)


# ---------------------------------------------------------------- builds of the tools

def build_tools(o):
    ok = True
    with BuildLock():
        if not cc.ensure_aldrin_gen(o):
            ok = False
        okc, outc, _ = core.cargo_build(["derive"])
        if not okc:
            o.obligation_broken("cargo build of the derive harness", outc)
            ok = False
        okb, outb, _ = core.coq_build(["Derive/TDe.v", "Derive/TSer.v", "Derive/Conforms.v", "Derive/Evolve.v"])
        if not okb:
            o.obligation_broken("coq build of the executable derive model", outb)
            return False
        okd, outd = core.build_driver("ExtractDerive.v", "derive_model", "derive_driver.ml", "derive_driver")
        if not okd:
            o.obligation_broken("extraction/compilation of the derive model driver", outd)
            ok = False
    return ok


# ---------------------------------------------------------------- part 1: compilation

def schema_closure(by_name, s):
    """s and everything it imports (transitively), as {name: text}"""
    out = {}
    todo = [s.name]
    while todo:
        n = todo.pop()
        if n in out or n not in by_name:
            continue
        out[n] = gen.render(by_name[n])
        todo += by_name[n].imports
    return out


def def_refs(d):
    """names of same-schema definitions a definition refers to"""
    out = set()

    def ty(t):
        if not isinstance(t, tuple):
            return
        if t[0] == "ref":
            if t[1] is None:
                out.add(t[2])
            return
        for x in t[1:]:
            if isinstance(x, tuple):
                ty(x)

    def body(x):
        if x.kind == "struct":
            for f in x.fields:
                ty(f["ty"])
        elif x.kind == "enum":
            for v in x.variants:
                if v["ty"] is not None:
                    ty(v["ty"])

    if d.kind in ("struct", "enum"):
        body(d)
    elif d.kind == "newtype":
        ty(d.ty)
    elif d.kind == "service":
        for it in d.items:
            for k in ("args", "ok", "err", "ty"):
                p = it.get(k)
                if isinstance(p, gen.Def):
                    body(p)
                elif p is not None:
                    ty(p)
    return out


def single_definition_schemas(s, prefix):
    """one schema per definition of s: the definition plus the same-schema definitions it needs"""
    out = []
    for i, d in enumerate(s.defs):
        need = {d.name}
        todo = [d]
        while todo:
            x = todo.pop()
            for n in def_refs(x):
                if n not in need and s.find(n) is not None:
                    need.add(n)
                    todo.append(s.find(n))
        m = gen.Schema("%s%d" % (prefix, i))
        m.imports = list(s.imports)
        m.defs = [x for x in s.defs if x.name in need]
        m.label = s.label
        m.detail = {"definition": d.name, "of": s.name}
        out.append(m)
    return out


def group_errors(errs):
    """{(variant, schema): [errors]} plus the unattributed ones"""
    by_mod = {}
    loose = []
    for e in errs:
        if e["module"] is None:
            loose.append(e)
        else:
            by_mod.setdefault(tuple(e["module"]), []).append(e)
    return by_mod, loose


def module_class(errors):
    """the most specific known class among a module's errors; follow-up errors of a known class
    (derive macros choking on the malformed item) do not make it `other`"""
    found, impl, rest = [], [], []
    for e in errors:
        c, key = cc.classify(e)
        if c == "impl":
            impl.append((c, key, e))
        elif c != "other":
            found.append((c, key, e))
        else:
            rest.append(e)
    if found:
        return found[0]
    if rest:
        return ("other", None, rest[0])
    if impl:
        return impl[0]
    return ("other", None, errors[0])


def isolate(o, crate, variant, name):
    """does module (variant, name) still fail when it is compiled alone (with the schemas it
    imports)?  rustc's error recovery lets a broken module produce errors inside its siblings."""
    s = crate.by_name.get(name)
    if s is None:
        return True, []
    iso = cc.Crate("crate_iso", crate.schema_dir)
    iso.remove()
    iso.by_name = crate.by_name
    closure = schema_closure(crate.by_name, s)
    iso.expect = {k: v for k, v in crate.expect.items() if k.split(".", 1)[0] in closure}
    iso.generate(variant, list(closure))
    iso.write(False)
    ok, errs, _ = iso.build()
    iso.remove()
    mine = [e for e in errs if e["module"] is None or tuple(e["module"]) == (variant, name)]
    return (not ok) and bool(mine), mine


def build_until_clean(o, crate, with_runner, what, max_rounds=6):
    """build; drop failing modules (and, for the runner, their types) and rebuild until the rest
    compiles.  Modules failing for a known reason (classes a-f) are dropped first: their errors
    can cascade into sibling modules.  A module failing for another reason is confirmed by
    compiling it alone.  Returns {(variant, schema): [errors]} of everything that failed."""
    failed = {}
    total_dt = 0.0
    cascades = 0
    for rnd in range(max_rounds):
        crate.write(with_runner)
        ok, errs, dt = crate.build()
        total_dt += dt
        if ok:
            crate.cascades = cascades
            return failed, True, total_dt
        by_mod, loose = group_errors(errs)
        if not by_mod:
            o.obligation_broken("cargo build of the %s corpus crate: errors not attributable to a schema" % what,
                                "\n".join(e["rendered"] for e in loose[:5]))
            return failed, False, total_dt
        known = {m: es for m, es in by_mod.items() if module_class(es)[0] != "other"}
        if known:
            drop = known
        else:
            # one isolated build per schema (its first failing variant): the variants are the same
            # generated code, and a seeded defect can make many schemas fail at once
            drop = {}
            verdict = {}
            for (variant, name), es in sorted(by_mod.items()):
                if name not in verdict:
                    verdict[name] = (variant,) + isolate(o, crate, variant, name)
                v0, still, mine = verdict[name]
                if still:
                    drop[(variant, name)] = (mine if variant == v0 else None) or es
                else:
                    cascades += 1
            if not drop:
                # every error was a cascade of something not attributable: give up on these modules
                drop = by_mod
        for (variant, name), es in drop.items():
            failed.setdefault((variant, name), []).extend(es)
            if name in crate.modules.get(variant, []):
                crate.modules[variant].remove(name)
        # importers of a removed module go too
        changed = True
        while changed:
            changed = False
            for variant, names in crate.modules.items():
                gone = {n for (v, n) in failed if v == variant}
                for n in list(names):
                    s = crate.by_name.get(n)
                    if s is not None and any(i in gone for i in s.imports):
                        names.remove(n)
                        failed.setdefault((variant, n), []).append(
                            {"module": (variant, n), "message": "not compiled: imports a schema whose module failed",
                             "line": None, "text": "", "help": "", "rendered": "", "dependent": True})
                        changed = True
        for k in list(crate.types):
            sch = k.split(".", 1)[0]
            if sch not in crate.modules.get(crate.types[k], []):
                del crate.types[k]
    o.obligation_broken("cargo build of the %s corpus crate did not converge" % what, "")
    return failed, False, total_dt


def report_compile_failures(o, failed, by_name, stream, stats):
    """one violation per failing schema (the CLI variant decides the class; a failing generate!
    module of the same schema is the same defect seen through the macro)"""
    per_schema = {}
    for (variant, name), es in failed.items():
        if all(e.get("dependent") for e in es):
            stats["not_compiled_dependents"] = stats.get("not_compiled_dependents", 0) + 1
            continue
        per_schema.setdefault(name, {})[variant] = es
    for name, variants in sorted(per_schema.items()):
        s = by_name[name]
        cli = [v for v in ("intro", "plain") if v in variants]
        if cli:
            cls, key, first = module_class(variants[cli[0]])
        else:
            cls, key, first = module_class(next(iter(variants.values())))
        stats.setdefault("failing_schemas_by_class", {})
        stats["failing_schemas_by_class"][cls] = stats["failing_schemas_by_class"].get(cls, 0) + 1
        replay = {
            "input": {"schema_name": name, "schemas": schema_closure(by_name, s), "variants": sorted(variants),
                      "stream": stream, "generator_label": s.label, "generator_detail": s.detail},
            "class": cls,
            "rustc": {"message": first["message"], "line": first["line"], "text": first["text"], "help": first["help"]},
            "failing_variants": {v: [e["message"] for e in es[:4]] for v, es in variants.items()},
        }
        if cls == "d":
            replay["identifier"] = key
        if cls == "b":
            replay["keyword"] = key
        what = "compile-%s: %s; rustc: %s [schema %s, %s]" % (cls, CLASS_TEXT[cls], first["message"][:160], name,
                                                           "+".join(sorted(variants)))
        if cls == "d":
            what = "compile-d-%s: %s; rustc: %s [schema %s]" % (key, CLASS_TEXT[cls], first["message"][:160], name)
        o.violation(what, replay)


def assemble(name, schema_dir, schemas, variants_for, by_name):
    c = cc.Crate(name, schema_dir)
    c.remove()
    c.by_name = by_name
    per_variant = {}
    for s in schemas:
        for v in variants_for(s):
            # a module refers to imported schemas as super::<name>: they must be siblings
            for n in schema_closure(by_name, s):
                if n not in per_variant.setdefault(v, []):
                    per_variant[v].append(n)
    for v, names in per_variant.items():
        c.generate(v, names)
    return c


def compile_part(o, tier, seed, stats):
    """returns the list of (crate, types_path, pairs_path) that built with a runner"""
    sz = SIZES[tier]
    g = gen.Gen(seed)
    main = g.main_stream(sz["main"])
    pairs = gen.pair_stream(g, sz["pairs"])
    second = gen.second_stream(seed, tier)
    all_schemas = main + [x for p in pairs for x in p] + second
    by_name = {s.name: s for s in all_schemas}
    cc.cleanup(keep_target=True)
    sd = os.path.join(cc.SCRATCH, "crate_schemas")
    shutil.rmtree(sd, ignore_errors=True)
    cc.write_schemas(sd, all_schemas)
    ndefs = {}
    for s in main:
        for d in s.defs:
            ndefs[d.kind] = ndefs.get(d.kind, 0) + 1
    stats.update({"main_schemas": len(main), "pair_schemas": 2 * len(pairs), "second_stream_schemas": len(second),
                  "main_definitions": ndefs, "cross_schema_layer": g.xstats,
                  "main_imports": {"schemas_importing": sum(1 for s in main if s.imports),
                                   "import_edges": sum(len(s.imports) for s in main)},
                  "second_stream_labels": {l: sum(1 for s in second if s.label == l) for l in "abcdef"}})

    # ---- second stream: expected to fail on the unchanged tree, each schema for one reason
    b = assemble("crate_b", sd, second, lambda s: ["intro", "mac"], by_name)
    for (variant, n, out) in b.codegen_failures:
        o.violation("compile-codegen: %s [schema %s]" % (CLASS_TEXT["codegen"], n),
                    {"input": {"schema_name": n, "schemas": schema_closure(by_name, by_name[n]), "variants": [variant]},
                     "class": "codegen", "output": out})
    failed, clean, dt = build_until_clean(o, b, False, "second-stream")
    stats["second_stream_build_s"] = round(dt, 1)
    stats["second_stream_modules_failed"] = len(failed)
    stats["second_stream_rest_compiles"] = clean
    report_compile_failures(o, failed, by_name, "second", stats)
    expected = {s.name for s in second}
    ok_second = sorted(expected - {n for (_, n) in failed})
    stats["second_stream_schemas_compiling"] = ok_second   # non-empty once a defect is fixed
    b.remove()

    # ---- main stream (+ pairs): expected to compile; carries the runner
    built = []
    batches = [main[i:i + sz["batch"]] for i in range(0, len(main), sz["batch"])]
    if pairs:
        batches[0] = batches[0] + [x for p in pairs for x in p]
    vs = ["plain", "intro", "mac"]
    main_failed = 0
    modules_ok = {}
    total_dt = 0.0
    for bi, batch in enumerate(batches):
        def variants_for(s, bi=bi):
            if s.label == "pair":
                return ["plain"]
            if tier == "quick":
                i = int(re.sub(r"\D", "", s.name) or 0)
                return ["plain", "intro"] + (["mac"] if i % 2 == 0 else [])
            i = int(re.sub(r"\D", "", s.name) or 0)
            return ["plain", "intro"] + (["mac"] if i % 4 == 0 else []) + (["macplain"] if i % 16 == 1 else [])
        # imported schemas of earlier batches must be present as sibling modules
        need = {}
        for s in batch:
            for n in schema_closure(by_name, s):
                need[n] = by_name[n]
        batch_all = list(need.values())
        a = assemble("crate_a%d" % bi, sd, batch_all, variants_for, by_name)
        for (variant, n, out) in a.codegen_failures:
            o.violation("compile-codegen: %s [schema %s]" % (CLASS_TEXT["codegen"], n),
                        {"input": {"schema_name": n, "schemas": schema_closure(by_name, by_name[n]), "variants": [variant]},
                         "class": "codegen", "output": out})
        table = gen.Table(batch_all)
        lines = []
        for s in batch_all:
            a.expect.update(table.expected_impls(s))
        stats["impl_assertions"] = stats.get("impl_assertions", 0) + sum(len(v) for v in a.expect.values())
        for i, s in enumerate(batch_all):
            avail = [v for v in variants_for(s) if s.name in a.modules.get(v, [])]
            for l in table.lines(s):
                lines.append(l)
                if avail:
                    a.types[l.split()[1]] = avail[i % len(avail)]
        failed, clean, dt = build_until_clean(o, a, True, "main")
        total_dt += dt
        if failed:
            main_failed += len({n for (_, n) in failed})
            report_compile_failures(o, failed, by_name, "main", stats)
            bisect_definitions(o, sd, failed, by_name, stats)
        for v, names in a.modules.items():
            modules_ok[v] = modules_ok.get(v, 0) + len(names)
        if clean:
            tp = os.path.join(cc.SCRATCH, "types%d.txt" % bi)
            with open(tp, "w") as f:
                f.write("\n".join(l for l in lines if l.split()[1] in a.types) + "\n")
            pp = os.path.join(cc.SCRATCH, "pairs%d.txt" % bi)
            with open(pp, "w") as f:
                if bi == 0:
                    for old, new in pairs:
                        for name, d in gen.all_typedefs(old):
                            ko, kn = "%s.%s" % (old.name, name), "%s.%s" % (new.name, name)
                            if ko in a.types and kn in a.types:
                                f.write("%s %s\n" % (ko, kn))
            built.append((a, tp, pp, batch_all))
    stats["main_build_s"] = round(total_dt, 1)
    stats["main_schemas_failing"] = main_failed
    stats["modules_compiled"] = {"%s (%s)" % (v, cc.VARIANTS[v]): n for v, n in modules_ok.items()}
    stats["generated_types_in_runner"] = sum(len(a.types) for a, _, _, _ in built)
    return built, by_name


def bisect_definitions(o, sd, failed, by_name, stats):
    """a failing main-stream schema is cut down to the definition: one mini schema per definition
    (with the definitions it needs), all compiled in one crate"""
    names = sorted({n for (v, n) in failed if not all(e.get("dependent") for e in failed[(v, n)])})
    minis = []
    for n in names[:3]:
        minis += single_definition_schemas(by_name[n], "z%s_" % n)
    if not minis:
        return
    mini_by = dict(by_name)
    mini_by.update({m.name: m for m in minis})
    cc.write_schemas(sd, minis)
    deps = {}
    for m in minis:
        for n in schema_closure(mini_by, m):
            if n != m.name:
                deps[n] = mini_by[n]
    z = assemble("crate_z", sd, list(deps.values()) + minis, lambda s: ["intro"], mini_by)
    zf, _, _ = build_until_clean(o, z, False, "definition-bisect")
    culprits = {}
    for (v, n), es in zf.items():
        m = mini_by.get(n)
        if m is not None and m.detail.get("definition") and not all(e.get("dependent") for e in es):
            culprits.setdefault(m.detail["of"], []).append(
                {"definition": m.detail["definition"], "schema": gen.render(m), "rustc": es[0]["message"]})
    stats["bisected_definitions"] = {k: [c["definition"] for c in v] for k, v in culprits.items()}
    for (what, replay) in o.violations:
        n = replay.get("input", {}).get("schema_name")
        if n in culprits:
            replay["minimal"] = culprits[n]
    z.remove()


# ---------------------------------------------------------------- parts 2 and 3: wire contract

def wire_part(o, tier, seed, built, stats):
    sz = SIZES[tier]
    derive = core.harness_bin("derive")
    driver = os.path.join(core.BUILD, "derive_driver")
    per_crate = max(1, sz["shards"] // max(1, len(built)))
    n_per = max(200, sz["cases"] // max(1, len(built) * per_crate))
    dirs = []
    cmds = []
    for ci, (a, tp, pp, _) in enumerate(built):
        for si in range(per_crate):
            d = os.path.join(core.WORK, PROP, "w%d_%d" % (ci, si))
            shutil.rmtree(d, ignore_errors=True)
            os.makedirs(d)
            dirs.append((d, a, tp))
            cmds.append(
                "VERIF_SEED=%d %s gen %s %s %d %s && %s %s/cases.txt %s/impl.txt && %s monitor %s %s && "
                "(ulimit -s unlimited 2>/dev/null || ulimit -s 1000000; %s %s/cases.txt %s/model.txt %s %s/spec.txt) && "
                "%s canon %s %s/cases.txt %s/model.txt %s/model.canon.txt"
                % (seed * 1000 + ci * 64 + si, derive, tp, d, n_per, pp, a.exe(), d, d, derive, tp, d,
                   driver, d, d, tp, d, derive, tp, d, d, d))
    res = core.parallel(cmds, timeout=3000)
    for (rc, out), (d, _, _) in zip(res, dirs):
        if rc != 0:
            o.obligation_broken("wire-contract pipeline in %s (exit %s)" % (d, rc), out)
    compared = 0
    ndiff = 0
    first = []
    mon_lines = []
    tot = {}
    samples = []
    spec = {"checked": 0, "not_applicable": 0, "mismatches": [], "pairs_checked": 0, "pairs_keeping": 0,
            "pairs_labelled_KEEPS": 0, "pairs_on_truncated_unfolding": 0}
    for d, a, tp in dirs:
        try:
            c, diffs = core.diff_lines(d + "/cases.txt", d + "/impl.canon.txt", d + "/model.canon.txt")
        except OSError as e:
            o.obligation_broken("correspondence files", str(e))
            continue
        compared += c
        ndiff += len(diffs)
        first += [x for x in diffs if x][:3]
        try:
            with open(d + "/monitor.txt", encoding="utf-8", errors="replace") as f:
                mon_lines += [(l.rstrip("\n"), a, tp) for l in f if l.strip()]
        except OSError:
            pass
        try:
            with open(d + "/spec.txt", encoding="utf-8", errors="replace") as f:
                for l in f:
                    m = re.match(r"checked (\d+) na (\d+)", l)
                    if m:
                        spec["checked"] += int(m.group(1))
                        spec["not_applicable"] += int(m.group(2))
                        m2 = re.search(r"pairs (\d+) keeping (\d+) keeps_label (\d+) truncated (\d+)", l)
                        if m2:
                            spec["pairs_checked"] += int(m2.group(1))
                            spec["pairs_keeping"] += int(m2.group(2))
                            spec["pairs_labelled_KEEPS"] += int(m2.group(3))
                            spec["pairs_on_truncated_unfolding"] += int(m2.group(4))
                    elif l.strip():
                        spec["mismatches"].append(l.strip()[:600])
        except OSError:
            pass
        for fn in ("stats.json", "monitor_stats.json"):
            try:
                s = json.load(open(os.path.join(d, fn)))
            except Exception:
                continue
            for k, v in s.items():
                if isinstance(v, int) and k != "seed":
                    tot[k] = tot.get(k, 0) + v
                elif isinstance(v, dict):
                    t = tot.setdefault(k, {})
                    for kk, vv in v.items():
                        t[kk] = t.get(kk, 0) + vv
                elif k == "samples":
                    samples += v[:2]
    for line, a, tp in sorted(mon_lines, key=lambda x: len(x[0]))[:100]:
        what, _, rest = line.partition(": case=")
        case = rest.split(" impl=")[0]
        keys = [w for w in case.split(" ")[1:-1]]
        schemas = {}
        for k in keys:
            sname = k.split(".", 1)[0]
            if sname in a.by_name:
                schemas.update(schema_closure(a.by_name, a.by_name[sname]))
        try:
            tlines = [l.rstrip("\n") for l in open(tp) if l.split() and l.split()[1].split(".", 1)[0] in schemas]
        except OSError:
            tlines = []
        o.violation("wire-" + what, {"input": {"case": case, "schemas": schemas, "types": tlines,
                                               "type_variants": {k: a.types.get(k, "plain") for k in keys},
                                               "variants": sorted({a.types.get(k, "plain") for k in keys})},
                                     "impl_output": rest[:3000]})
    if ndiff:
        o.obligation_broken("correspondence derive model vs generated types: differ on %d of %d cases" % (ndiff, compared),
                            json.dumps(first[:5])[:3000])
    if spec["mismatches"]:
        o.obligation_broken("model self-check: the statements accept/reject/typed/re-encodes-to-norm (de cases) or "
                            "C16_old_new / its hypotheses evolves, all_fallback (pair cases) fail on %d "
                            "inputs" % len(spec["mismatches"]), "\n".join(spec["mismatches"][:5]))
    stats["model_statement_check"] = {"checked": spec["checked"], "not_applicable": spec["not_applicable"],
                                      "mismatches": len(spec["mismatches"]),
                                      "old_new": {k: spec[k] for k in ("pairs_checked", "pairs_keeping", "pairs_labelled_KEEPS",
                                                                       "pairs_on_truncated_unfolding")}}
    if tot.get("result_classes", {}).get("pair:SPEC-INCONSISTENT"):
        o.obligation_broken("old/new specification: norm new (norm old v) differs from norm new v although every old type has a fallback", "")
    stats.update({
        "evaluations": compared,
        "distinct_nontrivial": tot.get("distinct_nontrivial", 0),
        "samples": samples[:6],
        "input_distribution": dict(
            {k: tot.get(k) for k in ("inputs", "result_classes", "streams", "types_total", "types_exercised",
                                     "types_uninhabited", "pairs")},
            schema_corpus="types come from the compiled corpus: main stream (random grammar body + cross-schema layer: "
                          "newtype chains over imported schemas, impl_* towers, recursion knots, imported array lengths; "
                          "counts in compile_check.cross_schema_layer) and old/new pairs; types_total counts every "
                          "generated struct/enum/newtype once per shard"),
        "monitor_classes": tot.get("monitor_classes"),
        "monitor_failures": len(mon_lines),
        "disagreements": ndiff,
    })


# ---------------------------------------------------------------- run / replay

def run(tier, seed):
    o = Outcome(PROP, tier, seed)
    o.assumptions = list(core.TRUSTED_BASE_COMMON) + [
        "NOT a theorem: 'the generated Rust code compiles' is decided by rustc on the generated corpus (main stream + "
        "second stream); the schema generator vlib/c16gen.py and the error attribution in vlib/c16corpus.py are trusted",
        "modelled, not verified: derive(Serialize/Deserialize) for structs/enums/newtypes and the library impls they use "
        "(Option, Vec, [T; N], HashMap, HashSet, Result, Box, Bytes, SerializedValue, UnknownFields, UnknownVariant) as "
        "Derive/{TDe,TSer}.v; the specification (conforms, norm) exists twice — Derive/Conforms.v and harness/src/bin/derive.rs — "
        "and the two are tied only by the correspondence run",
        "not covered: derive(Introspectable/Tag/PrimaryTag/RefType/KeyTag..) beyond compiling, the *Ref types' Serialize impls, "
        "service!-generated proxies/handlers beyond compiling, serde impls, patches",
    ]
    if os.path.exists(os.path.join(core.COQ, PROPS_FILE)):
        proof_side(o, PROPS_FILE, PINS)
    else:
        o.obligation_broken("Props/C16.v", "theorem file missing")
    o.coverage["trusted_base"] = o.assumptions
    o.coverage["explanation"] = (
        "partial: compilation is decided by rustc on a corpus; the derive wire contract (accept + re-encode to an "
        "equivalent value, reject, byte-for-byte cycle through fallbacks, totality) is proved on the model and tied to the "
        "real generated types by differential execution; the old/new clause across two different types is proved "
        "(C16_old_new: nested evolution, both encodings), its hypotheses (evolves, all_fallback) and its conclusion are "
        "evaluated by the extracted model on every generated pair case, and it is monitored on the real generated pairs "
        "(design/C16.md)")
    stats = {}
    if build_tools(o):
        built, by_name = compile_part(o, tier, seed, stats)
        if built:
            wire_part(o, tier, seed, built, stats)
        else:
            o.obligation_broken("no corpus crate with a runner could be built", "")
        for a, _, _, _ in built:
            a.remove()
        # the case directories are kept only when something has to be diagnosed
        cc.cleanup(keep_target=os.environ.get("C16_CLEAN") != "1",
                   keep_work=bool(o.broken or any(w.startswith("wire-") for w, _ in o.violations)))
    o.coverage.update({k: v for k, v in stats.items() if k in ("evaluations", "distinct_nontrivial", "samples",
                                                              "input_distribution", "monitor_classes",
                                                              "monitor_failures", "disagreements",
                                                              "model_statement_check")})
    o.coverage["rule"] = (
        "distinct_nontrivial = distinct (generated type, input bytes) cases of >= 2 bytes. Inputs per generated "
        "struct/enum/newtype of the compiled corpus (every type in turn): conforming Values with unknown field ids added, "
        "seven systematic mutations (drop a required field, retype, unwrap an optional, unknown variant, payload on a unit "
        "variant, array length, extra Some) labelled by the specification, byte-level mutations (no expectation), and "
        "old/new schema pairs; each in encoding 1 (counted containers, harness Legacy) or encoding 2. "
        "Compile clause (compile_check): every main-stream schema is a random body of the whole grammar plus a systematic "
        "cross-schema layer: three newtype chains per schema with 1..4 links (length from a deck) spread over the schema and "
        "up to two partner schemas by L/X hop strings (L: next link is a local name of the same schema, X: `q::Name` in a schema "
        "that is imported - directly, through an imported schema's own import, or mutually inside cells of 4 schemas), ending "
        "alternately in every key built-in (deck over u8..i64, string, uuid) and in 21 non-key ends (deck: bool, floats, bytes, "
        "value, ids, lifetime, unit, vec<u8>, option/set of a key, and vec/box/map/array-with-imported-const-length/result/"
        "sender of struct-with-required / struct-without-required / enum definitions that are local to the target schema and "
        "refer to each other by local names); every link is used in its own schema as map key / set element exactly when "
        "c16gen.Env.is_key says it resolves to a key type, otherwise as field / option / vec / map value / array / box; "
        "#[rust(impl_*)] options on structs/enums/newtypes wherever Env.std_traits says every field type has the trait, "
        "including 2..3 level towers across schemas; recursion knots s::Node -> x::Wrap -> x::Inner -> s::Node with the "
        "breaker on any subset of the three edges; ordinary structs/enums/services (inline types) over the cross-layer names. "
        "compile_check.cross_schema_layer holds the measured counts per run; compile_check.impl_assertions counts the "
        "compile-time assertions (src/expect.rs) that each generated type implements what the code generator derives for it "
        "(key newtype: PartialEq/Eq/PartialOrd/Ord/Hash/PrimaryKeyTag; Default; impl_* options)")
    o.coverage["compile_check"] = {k: v for k, v in stats.items() if k not in ("evaluations", "distinct_nontrivial",
                                                                                "samples", "input_distribution",
                                                                                "monitor_classes", "monitor_failures",
                                                                                "disagreements", "model_statement_check")}
    return finish(o)


def replay(path):
    r = json.load(open(path))
    print(json.dumps({k: v for k, v in r.items() if k != "input"}, indent=1)[:3000])
    inp = r.get("input", {})
    schemas = inp.get("schemas")
    if not schemas:
        return 0
    o = Outcome(PROP, "quick", 0)
    if not build_tools(o):
        return 1
    sd = os.path.join(cc.SCRATCH, "crate_replay_schemas")
    shutil.rmtree(sd, ignore_errors=True)
    os.makedirs(sd)
    for n, text in schemas.items():
        with open(os.path.join(sd, n + ".aldrin"), "w", encoding="utf-8", newline="") as f:
            f.write(text)
    c = cc.Crate("crate_replay", sd)
    c.remove()
    c.by_name = {}
    variants = [v for v in inp.get("variants", ["intro"]) if v in cc.VARIANTS] or ["intro"]
    for v in variants:
        c.generate(v, sorted(schemas))
    for (v, n, out) in c.codegen_failures:
        print("codegen failed for %s (%s): %s" % (n, v, out[-800:]))
    case = inp.get("case")
    for n, text in sorted(schemas.items()):
        print("---- schema %s ----\n%s" % (n, text))
    if case and inp.get("types"):
        tv = inp.get("type_variants", {})
        for l in inp["types"]:
            k = l.split()[1]
            v = tv.get(k, variants[0])
            if k.split(".", 1)[0] in c.modules.get(v, []):
                c.types[k] = v
            elif k.split(".", 1)[0] in c.modules.get(variants[0], []):
                c.types[k] = variants[0]
    c.write(bool(c.types))
    ok, errs, dt = c.build()
    print("cargo build: %s (%.1fs)" % ("ok" if ok else "FAILED", dt))
    for e in errs[:12]:
        print("  %s: %s | %s" % (e["module"], e["message"], e["text"][:160]))
        print("    class: %s" % (cc.classify(e),))
    if ok and case and c.types:
        d = os.path.join(core.WORK, PROP, "replay")
        shutil.rmtree(d, ignore_errors=True)
        os.makedirs(d)
        open(d + "/cases.txt", "w").write(case + "\n")
        open(d + "/types.txt", "w").write("\n".join(inp["types"]) + "\n")
        core.sh([c.exe(), d + "/cases.txt", d + "/impl.txt"], timeout=120)
        core.sh([os.path.join(core.BUILD, "derive_driver"), d + "/cases.txt", d + "/model.txt", d + "/types.txt",
                 d + "/spec.txt"], timeout=120)
        for fn in ("impl.txt", "model.txt"):
            core.sh([core.harness_bin("derive"), "canon", d + "/types.txt", d + "/cases.txt", d + "/" + fn,
                     d + "/" + fn + ".canon"], timeout=120)
        for fn in ("impl.txt", "model.txt", "impl.txt.canon", "model.txt.canon", "spec.txt"):
            try:
                print("%s: %s" % (fn, open(d + "/" + fn).read().strip()[:1500]))
            except OSError:
                pass
    c.remove()
    return 0 if ok else 1
