use aldrin_core::introspection::{ir, DynIntrospectable, Introspectable, Introspection, LexicalId, References};
use aldrin_core::{SerializedValue, TypeId};
use std::cell::RefCell;

struct Rng(u64);
impl Rng { fn next(&mut self) -> u64 { self.0 ^= self.0 << 13; self.0 ^= self.0 >> 7; self.0 ^= self.0 << 17; self.0 }
  fn below(&mut self, n: usize) -> usize { (self.next() % n as u64) as usize } }

#[derive(Clone, Debug, PartialEq)]
enum Ty { U8, Str, Bool, Opt(Box<Ty>), Vec(Box<Ty>), Map(Box<Ty>), Custom(usize) }
#[derive(Clone, Debug, PartialEq)]
struct Field { id: u32, name: String, req: bool, doc: Option<String>, ty: Ty }
#[derive(Clone, Debug, PartialEq)]
enum Kind { Struct { fields: Vec<Field>, fallback: Option<(String, Option<String>)> }, Enum { variants: Vec<(u32, String, Option<Ty>, Option<String>)>, fallback: Option<String> }, Newtype(Ty) }
#[derive(Clone, Debug, PartialEq)]
struct Spec { schema: String, name: String, doc: Option<String>, kind: Kind }
const N: usize = 6;
thread_local! { static SPECS: RefCell<Vec<Spec>> = RefCell::new(vec![]); static PERM: RefCell<u64> = RefCell::new(1); }

fn perm<T: Clone>(v: &[T]) -> Vec<T> { let seed = PERM.with(|p| *p.borrow()); let mut r = Rng(seed | 1); let mut v = v.to_vec(); for i in (1..v.len()).rev() { let j = r.below(i + 1); v.swap(i, j); } v }
fn lex(t: &Ty) -> LexicalId { match t { Ty::U8 => LexicalId::U8, Ty::Str => LexicalId::STRING, Ty::Bool => LexicalId::BOOL, Ty::Opt(x) => LexicalId::option(lex(x)), Ty::Vec(x) => LexicalId::vec(lex(x)), Ty::Map(x) => LexicalId::map(LexicalId::U32, lex(x)),
    Ty::Custom(k) => SPECS.with(|s| { let s = s.borrow(); LexicalId::custom(&s[*k].schema, &s[*k].name) }) } }
fn customs(t: &Ty, out: &mut Vec<usize>) { match t { Ty::Opt(x) | Ty::Vec(x) | Ty::Map(x) => customs(x, out), Ty::Custom(k) => out.push(*k), _ => {} } }

struct Dyn<const K: usize>;
impl<const K: usize> Introspectable for Dyn<K> {
    fn layout() -> ir::LayoutIr {
        let spec = SPECS.with(|s| s.borrow()[K].clone());
        match spec.kind {
            Kind::Struct { fields, fallback } => { let mut b = ir::StructIr::builder(&spec.schema, &spec.name); if let Some(d) = &spec.doc { b = b.doc(d); }
                for f in perm(&fields) { let mut fb = ir::FieldIr::builder(f.id, &f.name, f.req, lex(&f.ty)); if let Some(d) = &f.doc { fb = fb.doc(d); } b = b.field(fb.finish()); }
                if let Some((n, d)) = fallback { let mut fb = ir::StructFallbackIr::builder(n); if let Some(d) = d { fb = fb.doc(d); } b = b.fallback(fb.finish()); } b.finish().into() }
            Kind::Enum { variants, fallback } => { let mut b = ir::EnumIr::builder(&spec.schema, &spec.name); if let Some(d) = &spec.doc { b = b.doc(d); }
                for (id, n, t, d) in perm(&variants) { let mut vb = ir::VariantIr::builder(id, n); if let Some(t) = &t { vb = vb.variant_type(lex(t)); } if let Some(d) = d { vb = vb.doc(d); } b = b.variant(vb.finish()); }
                if let Some(n) = fallback { b = b.fallback(ir::EnumFallbackIr::builder(n).finish()); } b.finish().into() }
            Kind::Newtype(t) => { let mut b = ir::NewtypeIr::builder(&spec.schema, &spec.name, lex(&t)); if let Some(d) = &spec.doc { b = b.doc(d); } b.finish().into() }
        }
    }
    fn lexical_id() -> LexicalId { SPECS.with(|s| { let s = s.borrow(); LexicalId::custom(&s[K].schema, &s[K].name) }) }
    fn add_references(references: &mut References) {
        let spec = SPECS.with(|s| s.borrow()[K].clone()); let mut cs = vec![];
        match &spec.kind { Kind::Struct { fields, .. } => for f in fields { customs(&f.ty, &mut cs) }, Kind::Enum { variants, .. } => for v in variants { if let Some(t) = &v.2 { customs(t, &mut cs) } }, Kind::Newtype(t) => customs(t, &mut cs) }
        let mut tys: Vec<Ty> = vec![];
        match &spec.kind { Kind::Struct { fields, .. } => for f in fields { tys.push(f.ty.clone()) }, Kind::Enum { variants, .. } => for v in variants { if let Some(t) = &v.2 { tys.push(t.clone()) } }, Kind::Newtype(t) => tys.push(t.clone()) }
        let _ = cs;
        macro_rules! leaf { ($refs:expr, $t:expr, $w:ident) => { match $t { Ty::U8 => $refs.add::<$w<u8>>(), Ty::Str => $refs.add::<$w<String>>(), Ty::Bool => $refs.add::<$w<bool>>(),
            Ty::Custom(0) => $refs.add::<$w<Dyn<0>>>(), Ty::Custom(1) => $refs.add::<$w<Dyn<1>>>(), Ty::Custom(2) => $refs.add::<$w<Dyn<2>>>(), Ty::Custom(3) => $refs.add::<$w<Dyn<3>>>(), Ty::Custom(4) => $refs.add::<$w<Dyn<4>>>(), Ty::Custom(_) => $refs.add::<$w<Dyn<5>>>(), _ => unreachable!() } } }
        type Id<T> = T; type M<T> = std::collections::HashMap<u32, T>;
        for t in perm(&tys) { match &t { Ty::Opt(x) => leaf!(references, &**x, Option), Ty::Vec(x) => leaf!(references, &**x, Vec), Ty::Map(x) => leaf!(references, &**x, M), other => leaf!(references, other, Id) } }
    }
}

fn gen_leaf(r: &mut Rng) -> Ty { match r.below(6) { 0 => Ty::U8, 1 => Ty::Str, 2 => Ty::Bool, _ => Ty::Custom(r.below(N)) } }
fn gen_ty(r: &mut Rng, _d: usize) -> Ty { match r.below(6) { 0 => Ty::Opt(Box::new(gen_leaf(r))), 1 => Ty::Vec(Box::new(gen_leaf(r))), 2 => Ty::Map(Box::new(gen_leaf(r))), _ => gen_leaf(r) } }
fn gen_doc(r: &mut Rng) -> Option<String> { if r.below(2) == 0 { None } else { Some(format!("doc{}", r.below(100))) } }
fn gen_spec(r: &mut Rng, k: usize) -> Spec {
    let kind = match r.below(3) {
        0 => { let n = r.below(4); let mut ids: Vec<u32> = (1..=6).collect(); for i in (1..ids.len()).rev() { let j = r.below(i + 1); ids.swap(i, j); }
            Kind::Struct { fields: (0..n).map(|i| Field { id: ids[i], name: format!("f{}", ids[i]), req: r.below(2) == 0, doc: gen_doc(r), ty: gen_ty(r, 0) }).collect(), fallback: if r.below(3) == 0 { Some(("fb".into(), gen_doc(r))) } else { None } } }
        1 => { let n = 1 + r.below(3); Kind::Enum { variants: (0..n).map(|i| (i as u32 + 1, format!("V{i}"), if r.below(2) == 0 { Some(gen_ty(r, 0)) } else { None }, gen_doc(r))).collect(), fallback: if r.below(3) == 0 { Some("Unknown".into()) } else { None } } }
        _ => Kind::Newtype(gen_ty(r, 0)),
    };
    Spec { schema: "sch".into(), name: format!("T{k}"), doc: gen_doc(r), kind }
}
fn set(specs: &[Spec], p: u64) { SPECS.with(|s| *s.borrow_mut() = specs.to_vec()); PERM.with(|x| *x.borrow_mut() = p); }
fn id0() -> TypeId { TypeId::compute::<Dyn<0>>() }
fn reachable(specs: &[Spec]) -> Vec<usize> { let mut seen = vec![0usize]; let mut i = 0; while i < seen.len() { let k = seen[i]; i += 1; let mut cs = vec![];
    match &specs[k].kind { Kind::Struct { fields, .. } => for f in fields { customs(&f.ty, &mut cs) }, Kind::Enum { variants, .. } => for v in variants { if let Some(t) = &v.2 { customs(t, &mut cs) } }, Kind::Newtype(t) => customs(t, &mut cs) }
    for c in cs { if !seen.contains(&c) { seen.push(c); } } } seen }

fn main() {
    let mut r = Rng(0x5151_7171_9191_0101); let (mut bad, mut cases, mut edits_checked, mut unreach_edits) = (0u64, 0u64, 0u64, 0u64);
    for _ in 0..3000 {
        let specs: Vec<Spec> = (0..N).map(|k| gen_spec(&mut r, k)).collect(); cases += 1;
        set(&specs, 1); let base = id0();
        // P1: docs, insertion order, reference order
        for p in 2..6 { let mut s2 = specs.clone(); for sp in s2.iter_mut() { sp.doc = gen_doc(&mut r); match &mut sp.kind { Kind::Struct { fields, fallback } => { for f in fields.iter_mut() { f.doc = gen_doc(&mut r); } if let Some(fb) = fallback { fb.1 = gen_doc(&mut r); } } Kind::Enum { variants, .. } => for v in variants.iter_mut() { v.3 = gen_doc(&mut r); }, _ => {} } }
            set(&s2, p); if id0() != base { bad += 1; println!("P1 FAIL: id changed by docs/order (perm {p}) for {:?}", specs[0]); } }
        // P3: record round trip
        set(&specs, 1); let intro = Introspection::new::<Dyn<0>>(); let ser = SerializedValue::serialize(&intro).unwrap(); let back: Introspection = ser.deserialize().unwrap();
        if back != intro { bad += 1; println!("P3 FAIL: introspection round trip"); } if intro.type_id() != base { bad += 1; println!("P3 FAIL: type id mismatch"); }
        // P2: single semantic edits on a reachable type must change the id
        let reach = reachable(&specs);
        for _ in 0..6 { let k = r.below(N); let mut s2 = specs.clone(); let sp = &mut s2[k];
            let what = match &mut sp.kind {
                Kind::Struct { fields, fallback } => match r.below(6) { 0 if !fields.is_empty() => { let i = r.below(fields.len()); fields[i].name.push('x'); "field name" } 1 if !fields.is_empty() => { let i = r.below(fields.len()); fields[i].id += 100; "field id" } 2 if !fields.is_empty() => { let i = r.below(fields.len()); fields[i].req = !fields[i].req; "required flag" }
                    3 if !fields.is_empty() => { let i = r.below(fields.len()); fields[i].ty = if fields[i].ty == Ty::U8 { Ty::Str } else { Ty::U8 }; "field type" } 4 => { *fallback = match fallback { Some(_) => None, None => Some(("fb".into(), None)) }; "fallback presence" } _ => { sp.name.push('Z'); "type name" } },
                Kind::Enum { variants, fallback } => match r.below(5) { 0 => { let i = r.below(variants.len()); variants[i].1.push('x'); "variant name" } 1 => { let i = r.below(variants.len()); variants[i].0 += 100; "variant id" } 2 => { let i = r.below(variants.len()); variants[i].2 = match &variants[i].2 { Some(_) => None, None => Some(Ty::U8) }; "variant type" } 3 => { *fallback = match fallback { Some(_) => None, None => Some("Unknown".into()) }; "enum fallback" } _ => { sp.schema.push('q'); "schema name" } },
                Kind::Newtype(t) => { *t = if *t == Ty::U8 { Ty::Str } else { Ty::U8 }; "newtype target" } };
            set(&s2, 1); let id2 = id0(); edits_checked += 1;
            if reach.contains(&k) { if id2 == base { bad += 1; println!("P2 FAIL: edit '{what}' on reachable T{k} did not change the id\n  spec0 {:?}\n  edited {:?}", specs[0], s2[k]); } }
            else { unreach_edits += 1; let _ = DynIntrospectable::new::<Dyn<0>>(); if id2 != base && !(what == "type name" || what == "schema name") { bad += 1; println!("P2' FAIL: edit on unreachable T{k} changed the id"); } }
        }
    }
    println!("C20 probe: cases={cases} semantic_edits={edits_checked} (unreachable {unreach_edits}) bad={bad}");
}
