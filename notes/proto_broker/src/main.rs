mod model;
use aldrin_broker::core::channel::{self, Unbounded};
use aldrin_broker::core::message::*;
use aldrin_broker::core::transport::AsyncTransport;
use aldrin_broker::core::*;
use aldrin_broker::{Broker, BrokerHandle};
use model::Model;
use std::future::Future;
use std::panic::{catch_unwind, AssertUnwindSafe};
use std::pin::Pin;
use std::sync::Arc;
use std::task::{Context, Poll, Wake, Waker};
use uuid::Uuid;

struct Rng(u64);
impl Rng { fn next(&mut self) -> u64 { self.0 ^= self.0 << 13; self.0 ^= self.0 >> 7; self.0 ^= self.0 << 17; self.0 }
  fn below(&mut self, n: usize) -> usize { (self.next() % n as u64) as usize } fn pick<T: Clone>(&mut self, v: &[T]) -> T { v[self.below(v.len())].clone() } }
struct Noop; impl Wake for Noop { fn wake(self: Arc<Self>) {} }
fn waker() -> Waker { Arc::new(Noop).into() }
type Task = Pin<Box<dyn Future<Output = ()>>>;
fn poll(t: &mut Option<Task>) { if let Some(f) = t { let w = waker(); let mut cx = Context::from_waker(&w); if f.as_mut().poll(&mut cx).is_ready() { *t = None; } } }
fn send(t: &mut Unbounded, m: impl Into<Message>) -> bool { let w = waker(); let mut cx = Context::from_waker(&w);
    if !matches!(Pin::new(&mut *t).send_poll_ready(&mut cx), Poll::Ready(Ok(()))) { return false; } if Pin::new(&mut *t).send_start(m.into()).is_err() { return false; } let _ = Pin::new(&mut *t).send_poll_flush(&mut cx); true }
fn recv(t: &mut Unbounded) -> Option<Result<Message, ()>> { let w = waker(); let mut cx = Context::from_waker(&w);
    match Pin::new(&mut *t).receive_poll(&mut cx) { Poll::Ready(Ok(m)) => Some(Ok(m)), Poll::Ready(Err(_)) => Some(Err(())), Poll::Pending => None } }

struct World { btask: Option<Task>, handle: BrokerHandle, clients: Vec<Option<Unbounded>>, tasks: Vec<Option<Task>> }
impl World {
    fn new() -> Self { let b = Broker::new(); let h = b.handle().clone(); World { btask: Some(Box::pin(b.run())), handle: h, clients: vec![], tasks: vec![] } }
    fn settle(&mut self) { for _ in 0..10 { for t in self.tasks.iter_mut() { poll(t); } poll(&mut self.btask); } }
    fn connect(&mut self, minor: u32) -> usize {
        let (mut c, b) = channel::unbounded();
        send(&mut c, Connect2 { major_version: 1, minor_version: minor, value: SerializedValue::serialize(ConnectData::new()).unwrap() });
        let mut h = self.handle.clone();
        let t: Task = Box::pin(async move { if let Ok(conn) = h.connect(b).await { let _ = conn.run().await; } });
        self.clients.push(Some(c)); self.tasks.push(Some(t)); self.settle();
        let i = self.clients.len() - 1; let r = recv(self.clients[i].as_mut().unwrap()); assert!(matches!(r, Some(Ok(Message::ConnectReply2(_)))), "{r:?}"); i
    }
    fn drain(&mut self, i: usize) -> (Vec<Message>, bool) { let mut out = vec![]; let mut closed = false; if let Some(c) = self.clients[i].as_mut() { loop { match recv(c) { Some(Ok(m)) => out.push(m), Some(Err(())) => { closed = true; break; } None => break } } } if closed { self.clients[i] = None; } (out, closed) }
}

fn stats(w: &mut World) -> model::Stats {
    let mut h = w.handle.clone();
    let mut fut: Pin<Box<dyn Future<Output = aldrin_broker::BrokerStatistics>>> = Box::pin(async move { h.take_statistics().await.unwrap() });
    let wk = waker(); let mut cx = Context::from_waker(&wk);
    for _ in 0..100 { if let Poll::Ready(st) = fut.as_mut().poll(&mut cx) { return model::Stats { conns: st.num_connections(), objs: st.num_objects(), svcs: st.num_services(), chans: st.num_channels(), lis: st.num_bus_listeners() }; } poll(&mut w.btask); }
    panic!("take_statistics did not complete")
}
static mut VIOL: u64 = 0;
fn canon(m: &Message) -> String { match m {
    Message::QueryServiceInfoReply(QueryServiceInfoReply { serial, result: QueryServiceInfoResult::Ok(v) }) => format!("QSIR({serial},{:?})", v.deserialize::<ServiceInfo>()),
    other => format!("{other:?}") } }

struct Pools { obj_uuids: Vec<Uuid>, svc_uuids: Vec<Uuid>, obj_cookies: Vec<Uuid>, svc_cookies: Vec<Uuid>, chan_cookies: Vec<Uuid>, lis_cookies: Vec<Uuid>, bserials: Vec<u32> }
fn u(n: u128) -> Uuid { Uuid::from_u128(n) }

fn gen_msg(r: &mut Rng, p: &Pools, m: &Model, c: usize) -> Message {
    let serial = r.below(3) as u32;
    let live_o: Vec<Uuid> = m.objs.values().map(|o| o.cookie).collect(); let own_o: Vec<Uuid> = m.objs.values().filter(|o| o.owner == c).map(|o| o.cookie).collect();
    let live_s: Vec<Uuid> = m.svcs.values().map(|s| s.cookie).collect(); let own_s: Vec<Uuid> = m.svcs.iter().filter(|(k, _)| m.objs[&k.0].owner == c).map(|(_, s)| s.cookie).collect();
    let live_c: Vec<Uuid> = m.chans.keys().cloned().collect(); let live_l: Vec<Uuid> = m.lis.keys().cloned().collect(); let own_l: Vec<Uuid> = m.lis.iter().filter(|(_, l)| l.owner == c).map(|(k, _)| *k).collect();
    let choose = |r: &mut Rng, own: &Vec<Uuid>, live: &Vec<Uuid>, hist: &Vec<Uuid>, bogus: u128| -> Uuid { let k = r.below(20);
        if k < 9 && !own.is_empty() { r.pick(own) } else if k < 16 && !live.is_empty() { r.pick(live) } else if k < 19 && !hist.is_empty() { r.pick(hist) } else { u(r.below(5) as u128 + bogus) } };
    let oc = |r: &mut Rng| ObjectCookie(choose(r, &own_o, &live_o, &p.obj_cookies, 900));
    let sc = |r: &mut Rng| ServiceCookie(choose(r, &own_s, &live_s, &p.svc_cookies, 800));
    let cc = |r: &mut Rng| ChannelCookie(choose(r, &live_c, &live_c, &p.chan_cookies, 700));
    let lc = |r: &mut Rng| BusListenerCookie(choose(r, &own_l, &live_l, &p.lis_cookies, 600));
    let my_bserials: Vec<u32> = m.calls.iter().filter(|(_, call)| m.objs.get(&call.svc.0).map(|o| o.owner == c).unwrap_or(false)).map(|(b, _)| *b).collect();
    let val = |r: &mut Rng| SerializedValue::serialize(r.below(200) as u8).unwrap();
    let ev = |r: &mut Rng| r.below(3) as u32;
    let cap = |r: &mut Rng| [0u32, 1, 3, 4, 5, 6, 20, u32::MAX - 1, u32::MAX][r.below(9)];
    let end = |r: &mut Rng| if r.below(2) == 0 { ChannelEnd::Sender } else { ChannelEnd::Receiver };
    let endc = |r: &mut Rng| if r.below(2) == 0 { ChannelEndWithCapacity::Sender } else { ChannelEndWithCapacity::Receiver(cap(r)) };
    let filt = |r: &mut Rng| { let o = ObjectUuid(r.pick(&p.obj_uuids)); let s = ServiceUuid(r.pick(&p.svc_uuids)); match r.below(6) { 0 => BusListenerFilter::any_object(), 1 => BusListenerFilter::object(o), 2 => BusListenerFilter::any_object_any_service(), 3 => BusListenerFilter::specific_object_any_service(o), 4 => BusListenerFilter::any_object_specific_service(s), _ => BusListenerFilter::specific_object_and_service(o, s) } };
    let scope = |r: &mut Rng| [BusListenerScope::Current, BusListenerScope::New, BusListenerScope::All][r.below(3)];
    match r.below(44) {
        0 | 1 | 2 => CreateObject { serial, uuid: ObjectUuid(r.pick(&p.obj_uuids)) }.into(),
        3 => DestroyObject { serial, cookie: oc(r) }.into(),
        4 | 5 => CreateService { serial, object_cookie: oc(r), uuid: ServiceUuid(r.pick(&p.svc_uuids)), version: r.below(3) as u32 }.into(),
        6 | 7 => { let mut info = ServiceInfo::new(r.below(3) as u32); if r.below(2) == 0 { info = info.set_subscribe_all(r.below(3) != 0); }
            let value = if r.below(10) == 0 { val(r) } else { SerializedValue::serialize(info).unwrap() };
            CreateService2 { serial, object_cookie: oc(r), uuid: ServiceUuid(r.pick(&p.svc_uuids)), value }.into() }
        8 => DestroyService { serial, cookie: sc(r) }.into(),
        9 | 10 | 11 => CallFunction { serial, service_cookie: sc(r), function: 1, value: val(r) }.into(),
        12 | 13 => CallFunction2 { serial, service_cookie: sc(r), function: 2, version: if r.below(2) == 0 { None } else { Some(1) }, value: val(r) }.into(),
        14 | 15 | 16 => { let s = if !my_bserials.is_empty() && r.below(4) != 0 { r.pick(&my_bserials) } else if p.bserials.is_empty() || r.below(6) == 0 { r.below(8) as u32 } else { r.pick(&p.bserials) };
            let result = match r.below(4) { 0 => CallFunctionResult::Ok(val(r)), 1 => CallFunctionResult::Err(val(r)), 2 => CallFunctionResult::Aborted, _ => CallFunctionResult::InvalidFunction }; CallFunctionReply { serial: s, result }.into() }
        17 => AbortFunctionCall { serial }.into(),
        18 | 19 => SubscribeEvent { serial: if r.below(12) == 0 { None } else { Some(serial) }, service_cookie: sc(r), event: ev(r) }.into(),
        20 => UnsubscribeEvent { service_cookie: sc(r), event: ev(r) }.into(),
        21 | 22 => EmitEvent { service_cookie: sc(r), event: ev(r), value: val(r) }.into(),
        23 => QueryServiceVersion { serial, cookie: sc(r) }.into(),
        24 => QueryServiceInfo { serial, cookie: sc(r) }.into(),
        25 => SubscribeService { serial, service_cookie: sc(r) }.into(),
        26 => UnsubscribeService { service_cookie: sc(r) }.into(),
        27 | 28 => SubscribeAllEvents { serial: if r.below(12) == 0 { None } else { Some(serial) }, service_cookie: sc(r) }.into(),
        29 => UnsubscribeAllEvents { serial: if r.below(3) == 0 { None } else { Some(serial) }, service_cookie: sc(r) }.into(),
        30 | 31 => CreateChannel { serial, end: endc(r) }.into(),
        32 | 33 => ClaimChannelEnd { serial, cookie: cc(r), end: endc(r) }.into(),
        34 => CloseChannelEnd { serial, cookie: cc(r), end: end(r) }.into(),
        35 | 36 => SendItem { cookie: cc(r), value: val(r) }.into(),
        37 => AddChannelCapacity { cookie: cc(r), capacity: cap(r) }.into(),
        38 => CreateBusListener { serial }.into(),
        39 => AddBusListenerFilter { cookie: lc(r), filter: filt(r) }.into(),
        40 => match r.below(3) { 0 => RemoveBusListenerFilter { cookie: lc(r), filter: filt(r) }.into(), 1 => ClearBusListenerFilters { cookie: lc(r) }.into(), _ => DestroyBusListener { serial, cookie: lc(r) }.into() },
        41 => StartBusListener { serial, cookie: lc(r), scope: scope(r) }.into(),
        42 => StopBusListener { serial, cookie: lc(r) }.into(),
        _ => match r.below(6) { 0 => Sync { serial }.into(), 1 => SyncReply { serial }.into(), 2 => ServiceDestroyed { service_cookie: sc(r) }.into(), 3 => QueryIntrospection { serial, type_id: TypeId(u(1)) }.into(), 4 => RegisterIntrospection { value: val(r) }.into(), _ => ItemReceived { cookie: cc(r), value: val(r) }.into() },
    }
}

static mut STATS: Option<std::collections::BTreeMap<String, u64>> = None;
fn stat(k: String) { unsafe { let m = (*std::ptr::addr_of_mut!(STATS)).get_or_insert_with(Default::default); *m.entry(k).or_insert(0) += 1; } }
fn run_history(seed: u64, len: usize, verbose: bool) -> Result<usize, String> {
    let mut r = Rng(seed);
    let mut w = World::new(); let mut m = Model::default();
    let mut p = Pools { obj_uuids: vec![u(1), u(2), u(3)], svc_uuids: vec![u(11), u(12), u(13)], obj_cookies: vec![], svc_cookies: vec![], chan_cookies: vec![], lis_cookies: vec![], bserials: vec![] };
    let nconn = 2 + r.below(3);
    for _ in 0..nconn { let v = [14u32, 15, 16, 17, 18, 19, 20, 20, 20][r.below(9)]; let i = w.connect(v); m.new_conn(i, v.min(20)); }
    let mut log: Vec<String> = vec![]; let mut dropped: Vec<usize> = vec![];
    for step in 0..len {
        let alive: Vec<usize> = (0..w.clients.len()).filter(|i| w.clients[*i].is_some()).collect();
        if alive.is_empty() { return Ok(step); }
        let c = r.pick(&alive);
        let roll = r.below(400);
        let (desc, model_out): (String, Vec<(usize, Message)>);
        let mut real_out: Vec<Vec<Message>> = vec![];
        if roll < 2 {
            // disconnect by dropping the client's transport
            w.clients[c] = None; w.settle();
            for j in 0..w.clients.len() { real_out.push(w.drain(j).0); }
            desc = format!("disconnect(drop transport) c{c}"); model_out = m.conn_shutdown(c);
        } else if roll < 4 {
            send(w.clients[c].as_mut().unwrap(), Shutdown); w.settle();
            for j in 0..w.clients.len() { let (mut o, _) = w.drain(j); if j == c { o.retain(|x| !matches!(x, Message::Shutdown(_))); w.clients[c] = None; } real_out.push(o); }
            desc = format!("disconnect(Shutdown msg) c{c}"); model_out = m.conn_shutdown(c);
        } else if roll < 6 {
            // drop the connection task (the broker is not told); the client's transport closes
            w.tasks[c] = None; w.clients[c] = None; dropped.push(c); w.settle();
            for j in 0..w.clients.len() { real_out.push(w.drain(j).0); }
            desc = format!("drop task of c{c}"); m.drop_task(c); model_out = vec![];
        } else if roll < 10 {
            // send a request, let only the connection task forward it, then drop the task
            let msg = gen_msg(&mut r, &p, &m, c);
            desc = format!("c{c} sends {:?} and its task is dropped while the request is queued", msg);
            send(w.clients[c].as_mut().unwrap(), msg.clone()); for _ in 0..4 { poll(&mut w.tasks[c]); }
            w.tasks[c] = None; w.clients[c] = None; dropped.push(c); w.settle();
            for j in 0..w.clients.len() { real_out.push(w.drain(j).0); }
            for o in &real_out { for x in o { match x { Message::CallFunction(cf) => p.bserials.push(cf.serial), Message::CallFunction2(cf) => p.bserials.push(cf.serial), _ => {} } } }
            m.drop_task(c); model_out = m.message(c, msg, None);
        } else if roll < 22 && alive.len() < 5 {
            let v = [14u32, 16, 17, 18, 19, 20][r.below(6)]; let i = w.connect(v); m.new_conn(i, v);
            for j in 0..w.clients.len() { real_out.push(w.drain(j).0); }
            desc = format!("connect c{i} v1.{v}"); model_out = vec![];
        } else {
            let msg = gen_msg(&mut r, &p, &m, c);
            desc = format!("c{c} (v1.{}) sends {:?}", m.conns.get(&c).map(|x| x.ver).unwrap_or(0), msg);
            if !send(w.clients[c].as_mut().unwrap(), msg.clone()) { return Err(format!("step {step}: could not send on live client c{c}")); }
            w.settle();
            let mut closed_now = vec![];
            for j in 0..w.clients.len() { let (o, cl) = w.drain(j); if cl { closed_now.push(j); } real_out.push(o); }
            // fresh cookie from the sender's replies
            let mut fresh = None;
            for x in &real_out[c] { match x {
                Message::CreateObjectReply(CreateObjectReply { result: CreateObjectResult::Ok(k), .. }) => { fresh = Some(k.0); p.obj_cookies.push(k.0); }
                Message::CreateServiceReply(CreateServiceReply { result: CreateServiceResult::Ok(k), .. }) => { fresh = Some(k.0); p.svc_cookies.push(k.0); }
                Message::CreateChannelReply(CreateChannelReply { cookie, .. }) => { fresh = Some(cookie.0); p.chan_cookies.push(cookie.0); }
                Message::CreateBusListenerReply(CreateBusListenerReply { cookie, .. }) => { fresh = Some(cookie.0); p.lis_cookies.push(cookie.0); }
                _ => {} } }
            for o in &real_out { for x in o { match x { Message::CallFunction(cf) => p.bserials.push(cf.serial), Message::CallFunction2(cf) => p.bserials.push(cf.serial), _ => {} } } }
            let before: Vec<usize> = m.conns.keys().cloned().collect();
            model_out = match catch_unwind(AssertUnwindSafe(|| m.message(c, msg, fresh))) { Ok(o) => o, Err(_) => return Err(format!("step {step}: MODEL PANIC on {desc}\nlog:\n{}", log.join("\n"))) };
            let removed: Vec<usize> = before.into_iter().filter(|x| !m.conns.contains_key(x)).collect();
            let mut rm: Vec<usize> = removed.iter().cloned().filter(|x| !dropped.contains(x)).collect(); rm.sort(); let mut cn = closed_now.clone(); cn.sort();
            if rm != cn { return Err(format!("step {step}: {desc}\n  model removed conns {rm:?} but real closed {cn:?}\nlog:\n{}", log.join("\n"))); }
        }
        log.push(format!("{step}: {desc}")); if verbose { println!("{step}: {desc}"); }
        for o in &real_out { for x in o { let d = format!("{x:?}"); let k: String = d.chars().take_while(|ch| ch.is_alphanumeric()).collect(); let extra = if d.contains("Ok") { "+Ok" } else { "" }; stat(format!("{k}{extra}")); } }
        let rs = stats(&mut w);
        if rs != m.stats { return Err(format!("step {step}: {desc}\n  gauges differ: real {rs:?} model {:?}\nlog:\n{}", m.stats, log.join("\n"))); }
        if rs != m.true_stats() { unsafe { VIOL += 1; if VIOL <= 2 { println!("PROPERTY(C09 stats) VIOLATED at step {step}: gauges {rs:?} true {:?}\n  last op: {desc}", m.true_stats()); } } }
        // compare per connection as multisets
        for j in 0..real_out.len() {
            let mut a: Vec<String> = real_out[j].iter().map(canon).collect(); a.sort();
            let mut b: Vec<String> = model_out.iter().filter(|(k, _)| *k == j).map(|(_, x)| canon(x)).collect(); b.sort();
            if a != b { return Err(format!("step {step}: {desc}\n  outputs to c{j} differ\n  real : {a:?}\n  model: {b:?}\nlog:\n{}", log.join("\n"))); }
        }
    }
    Ok(len)
}

fn main() {
    let n: u64 = std::env::args().nth(1).map(|s| s.parse().unwrap()).unwrap_or(200);
    let len: usize = std::env::args().nth(2).map(|s| s.parse().unwrap()).unwrap_or(80);
    let mut fails = 0; let mut steps = 0usize;
    for h in 0..n {
        match catch_unwind(AssertUnwindSafe(|| run_history(0x9e3779b97f4a7c15u64.wrapping_mul(h + 1) | 1, len, false))) {
            Ok(Ok(k)) => steps += k,
            Ok(Err(e)) => { fails += 1; if fails <= 3 { println!("=== history {h} MISMATCH ===\n{e}\n"); } }
            Err(_) => { fails += 1; if fails <= 3 { println!("=== history {h}: REAL PANIC/harness panic ==="); } }
        }
    }
    println!("histories={n} steps~{steps} failures={fails} stats_property_violations={}", unsafe { VIOL });
    unsafe { if let Some(m) = &*std::ptr::addr_of!(STATS) { for (k, v) in m { println!("  {k}: {v}"); } } }
}
