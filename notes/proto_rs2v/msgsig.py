#!/usr/bin/env python3
"""Prototype of the table scanner (DESIGN 1.2, item 1): per message kind, the ordered sequence
of primitive writer calls in serialize_message and reader calls in deserialize_message, plus the
#[repr(u8)] enums.  A deliberately small scanner: it only understands the shapes that occur in
core/src/message/*.rs and fails loudly on anything else."""
import re, sys, os, json

ROOT = sys.argv[1] if len(sys.argv) > 1 else "/repo"
MSG = os.path.join(ROOT, "core/src/message")
SKIP = {"deserializer.rs", "serializer.rs", "kind.rs", "error.rs", "packetizer.rs", "test.rs"}

def strip_tests(src):
    i = src.find("#[cfg(test)]")
    return src if i < 0 else src[:i]

def fn_body(src, name):
    m = re.search(r"fn\s+%s\s*\(" % name, src)
    if not m: return None
    i = src.index("{", m.end()); depth = 0
    for j in range(i, len(src)):
        if src[j] == "{": depth += 1
        elif src[j] == "}":
            depth -= 1
            if depth == 0: return src[i:j+1]
    raise SystemExit("unbalanced braces in " + name)

W = re.compile(r"(MessageSerializer::(?:with_value|without_value|with_none_value)|put_varint_u32_le|put_uuid|put_discriminant_u8\(\s*([A-Za-z0-9_:]+)|serialize_into_message|\.finish\(\))")
R = re.compile(r"(Message(?:With|Without)ValueDeserializer::new|try_get_varint_u32_le|try_get_uuid|try_get_discriminant_u8|deserialize_from_message|finish_discard_value\(\)|\.finish\(\))")
ENUM = re.compile(r"#\[repr\(u8\)\]\s*(?:pub(?:\(crate\))?\s+)?enum\s+(\w+)\s*\{([^}]*)\}", re.S)

def enums(src):
    out = {}
    for m in ENUM.finditer(src):
        vs = []
        for line in m.group(2).split(","):
            line = line.strip()
            if not line: continue
            mm = re.match(r"(\w+)\s*=\s*(\d+)$", line)
            if not mm: raise SystemExit("cannot read enum variant %r in %s" % (line, m.group(1)))
            vs.append((mm.group(1), int(mm.group(2))))
        out[m.group(1)] = vs
    return out

table = {}
for f in sorted(os.listdir(MSG)):
    if not f.endswith(".rs") or f in SKIP: continue
    src = strip_tests(open(os.path.join(MSG, f)).read())
    ser, de = fn_body(src, "serialize_message"), fn_body(src, "deserialize_message")
    if ser is None or de is None: raise SystemExit("no (de)serialize_message in " + f)
    ws = []
    for m in W.finditer(ser):
        t = m.group(1)
        if t.startswith("put_discriminant_u8"): ws.append("disc:" + m.group(2))
        elif t.startswith("MessageSerializer::"): ws.append(t.split("::")[1])
        else: ws.append(t.strip(".()"))
    rs = [m.group(1).strip(".()").replace("MessageWithValueDeserializer::new", "with_value").replace("MessageWithoutValueDeserializer::new", "without_value") for m in R.finditer(de)]
    table[f[:-3]] = {"write": ws, "read": rs, "enums": enums(src)}

kinds = enums(open(os.path.join(MSG, "kind.rs")).read())["MessageKind"]
vk = enums(open(os.path.join(ROOT, "core/src/value_kind.rs")).read())["ValueKind"]
print(json.dumps({"n_files": len(table), "n_kinds": len(kinds), "n_value_kinds": len(vk)}))
if "--dump" in sys.argv:
    for k, v in table.items(): print(k, "W:", " ".join(v["write"]), "| R:", " ".join(v["read"]))
