use aldrin::core::channel::{self, Disconnected};
use aldrin::core::{BusListenerFilter, BusListenerScope, ObjectUuid, ServiceId, ServiceUuid, ChannelCookie};
use aldrin::low_level::{Proxy, Service, ServiceInfo, UnboundReceiver, UnboundSender};
use aldrin::{Client, Error, Handle, Object};
use aldrin::error::RunError;
use aldrin_broker::Broker;
use std::cell::RefCell;
use std::future::Future;
use std::panic::{catch_unwind, AssertUnwindSafe};
use std::pin::Pin;
use std::rc::Rc;
use std::sync::Arc;
use std::task::{Context, Poll, Wake, Waker};
use uuid::Uuid;

struct Rng(u64);
impl Rng { fn next(&mut self) -> u64 { self.0 ^= self.0 << 13; self.0 ^= self.0 >> 7; self.0 ^= self.0 << 17; self.0 }
  fn below(&mut self, n: usize) -> usize { (self.next() % n as u64) as usize } }
struct Noop; impl Wake for Noop { fn wake(self: Arc<Self>) {} }
fn waker() -> Waker { Arc::new(Noop).into() }
type Task = Pin<Box<dyn Future<Output = ()>>>;

#[derive(Default)]
struct Board { services: Vec<ServiceId>, recv_ends: Vec<ChannelCookie>, send_ends: Vec<ChannelCookie>, log: Vec<String>, run_results: Vec<(usize, String)>, app_done: usize }
type B = Rc<RefCell<Board>>;
type R = Rc<RefCell<Rng>>;

// yield once so that other tasks get scheduled between operations
struct Yield(bool);
impl Future for Yield { type Output = (); fn poll(mut self: Pin<&mut Self>, _: &mut Context) -> Poll<()> { if self.0 { Poll::Ready(()) } else { self.0 = true; Poll::Pending } } }
static mut TRACE: Vec<String> = Vec::new();
fn tr(s: String) { unsafe { (*std::ptr::addr_of_mut!(TRACE)).push(s); } }
fn rnd(r: &R, n: usize) -> usize { r.borrow_mut().below(n) }
async fn yield_n(n: usize) { for _ in 0..n { Yield(false).await; } }

async fn serve(mut svc: Service, r: R, b: B, who: usize, stop: Rc<std::cell::Cell<bool>>) {
    loop {
        if stop.get() { break; }
        let w = waker(); let mut cx = Context::from_waker(&w);
        let call = match svc.poll_next_call(&mut cx) { Poll::Ready(Some(c)) => c, Poll::Ready(None) => break, Poll::Pending => { Yield(false).await; continue; } };
        let k = rnd(&r, 6);
        yield_n(k).await;
        let p = call.into_promise();
        let res = match k { 0 => p.ok(7u8), 1 => p.err(9u8), 2 => p.abort(), 3 => { drop(p); Ok(()) } 4 => p.invalid_function(), _ => p.ok(()) };
        if let Err(e) = res { if e != Error::Shutdown { b.borrow_mut().log.push(format!("c{who} promise error {e:?}")); } }
        if rnd(&r, 4) == 0 { let _ = svc.emit(rnd(&r, 3) as u32, 5u8); }
    }
}

async fn app(who: usize, h: Handle, r: R, b: B, spawn: Rc<RefCell<Vec<Task>>>, steps: usize) {
    let mut objects: Vec<Object> = vec![]; let mut proxies: Vec<Proxy> = vec![];
    let mut senders: Vec<aldrin::low_level::Sender> = vec![]; let mut receivers: Vec<aldrin::low_level::Receiver> = vec![];
    let mut pend_s: Vec<aldrin::low_level::PendingSender> = vec![]; let mut pend_r: Vec<aldrin::low_level::PendingReceiver> = vec![];
    let mut listeners: Vec<aldrin::BusListener> = vec![];
    let stop = Rc::new(std::cell::Cell::new(false));
    let note = |s: String| b.borrow_mut().log.push(format!("c{who}: {s}"));
    for _ in 0..steps {
        let op = rnd(&r, 22);
        yield_n(rnd(&r, 3)).await;
        match op {
            0 | 1 => { let u = ObjectUuid(Uuid::from_u128(1 + rnd(&r, 4) as u128)); match h.create_object(u).await { Ok(o) => objects.push(o), Err(Error::DuplicateObject) => {} Err(e) => note(format!("create_object {e:?}")) } }
            2 | 3 => { if !objects.is_empty() { let i = rnd(&r, objects.len()); let su = ServiceUuid(Uuid::from_u128(11 + rnd(&r, 3) as u128));
                match objects[i].create_service(su, ServiceInfo::new(1)).await { Ok(svc) => { b.borrow_mut().services.push(svc.id()); spawn.borrow_mut().push(Box::pin(serve(svc, r.clone(), b.clone(), who, stop.clone()))); }
                    Err(Error::DuplicateService) | Err(Error::InvalidObject) => {} Err(e) => note(format!("create_service {e:?}")) } } }
            4 | 5 => { let s = { let bb = b.borrow(); if bb.services.is_empty() { None } else { Some(bb.services[rnd(&r, bb.services.len())]) } };
                if let Some(s) = s { match Proxy::new(&h, s).await { Ok(p) => proxies.push(p), Err(Error::InvalidService) => {} Err(e) => note(format!("proxy {e:?}")) } } }
            6 | 7 | 8 => { if !proxies.is_empty() { let i = rnd(&r, proxies.len()); let reply = proxies[i].call(1, 3u8, None);
                if rnd(&r, 4) == 0 { drop(reply); } else { match reply.await { Ok(_) => {} Err(Error::InvalidService) | Err(Error::CallAborted) | Err(Error::InvalidFunction(_)) => {} Err(e) => note(format!("call {e:?}")) } } } }
            9 => { if !proxies.is_empty() { let i = rnd(&r, proxies.len()); let ev = rnd(&r, 3) as u32; match proxies[i].subscribe(ev).await { Ok(()) | Err(Error::InvalidService) => {} Err(e) => note(format!("subscribe {e:?}")) } } }
            10 => { if !proxies.is_empty() { let i = rnd(&r, proxies.len()); let ev = rnd(&r, 3) as u32; match proxies[i].unsubscribe(ev).await { Ok(()) | Err(Error::InvalidService) => {} Err(e) => note(format!("unsubscribe {e:?}")) } } }
            11 => { if !proxies.is_empty() { let i = rnd(&r, proxies.len()); let res = if rnd(&r, 2) == 0 { proxies[i].subscribe_all().await } else { proxies[i].unsubscribe_all().await }; match res { Ok(()) | Err(Error::InvalidService) | Err(Error::NotSupported) => {} Err(e) => note(format!("sub_all {e:?}")) } } }
            12 => { if !proxies.is_empty() { let i = rnd(&r, proxies.len()); drop(proxies.swap_remove(i)); } }
            13 => { if !objects.is_empty() { let i = rnd(&r, objects.len()); let o = objects.swap_remove(i); if rnd(&r, 2) == 0 { let _ = o.destroy().await; } drop(o); } }
            14 => { match h.create_low_level_channel().claim_sender().await { Ok((ps, ur)) => { tr(format!("c{who} created chan {:?} (claimed sender)", ps.cookie())); pend_s.push(ps); b.borrow_mut().recv_ends.push(ur.unbind().cookie()); } Err(e) => note(format!("create chan {e:?}")) } }
            15 => { let cap = [1u32, 2, 4, 5, 16][rnd(&r, 5)]; match h.create_low_level_channel().claim_receiver(cap).await { Ok((us, pr)) => { tr(format!("c{who} created chan {:?} (claimed receiver cap {cap})", pr.cookie())); pend_r.push(pr); b.borrow_mut().send_ends.push(us.unbind().cookie()); } Err(e) => note(format!("create chan r {e:?}")) } }
            16 => { let c = { let mut bb = b.borrow_mut(); if bb.recv_ends.is_empty() { None } else { let i = rnd(&r, bb.recv_ends.len()); Some(bb.recv_ends.swap_remove(i)) } };
                if let Some(c) = c { let cap = [1u32, 3, 4, 5, 9][rnd(&r, 5)]; tr(format!("c{who} claims receiver {c:?} cap {cap}")); match UnboundReceiver::new(c).claim(h.clone(), cap).await { Ok(rx) => { tr(format!("c{who} claimed receiver {c:?}")); receivers.push(rx) }, Err(Error::InvalidChannel) => {} Err(e) => note(format!("claim r {e:?}")) } } }
            17 => { let c = { let mut bb = b.borrow_mut(); if bb.send_ends.is_empty() { None } else { let i = rnd(&r, bb.send_ends.len()); Some(bb.send_ends.swap_remove(i)) } };
                if let Some(c) = c { tr(format!("c{who} claims sender {c:?}")); match UnboundSender::new(c).claim(h.clone()).await { Ok(tx) => { tr(format!("c{who} claimed sender {c:?}")); senders.push(tx) }, Err(Error::InvalidChannel) => {} Err(e) => note(format!("claim s {e:?}")) } } }
            18 => { // try to establish pending ends without blocking forever: poll a few times
                if !pend_s.is_empty() { let i = rnd(&r, pend_s.len()); let mut ps = pend_s.swap_remove(i);
                    let mut ready = false; for _ in 0..6 { let w = waker(); let mut cx = Context::from_waker(&w); if ps.poll_wait_established(&mut cx).is_ready() { ready = true; break; } yield_n(1).await; }
                    tr(format!("c{who} pending sender {:?} ready={ready}", ps.cookie())); if ready { match ps.establish().await { Ok(tx) => senders.push(tx), Err(Error::InvalidChannel) => {} Err(e) => note(format!("establish s {e:?}")) } } else if rnd(&r, 2) == 0 { pend_s.push(ps); } }
                if !pend_r.is_empty() { let i = rnd(&r, pend_r.len()); let mut pr = pend_r.swap_remove(i);
                    let mut ready = false; for _ in 0..6 { let w = waker(); let mut cx = Context::from_waker(&w); if pr.poll_wait_established(&mut cx).is_ready() { ready = true; break; } yield_n(1).await; }
                    tr(format!("c{who} pending receiver {:?} ready={ready}", pr.cookie())); if ready { match pr.establish().await { Ok(rx) => receivers.push(rx), Err(Error::InvalidChannel) => {} Err(e) => note(format!("establish r {e:?}")) } } else if rnd(&r, 2) == 0 { pend_r.push(pr); } } }
            19 => { if !senders.is_empty() { let i = rnd(&r, senders.len()); let n = 1 + rnd(&r, 8);
                for k in 0..n { let w = waker(); let mut cx = Context::from_waker(&w); let mut ok = false; for _ in 0..8 { match senders[i].poll_send_ready(&mut cx) { Poll::Ready(Ok(())) => { ok = true; break; } Poll::Ready(Err(_)) => break, Poll::Pending => yield_n(1).await } }
                    if !ok { break; } if senders[i].start_send_item(k as u32).is_err() { break; } } if rnd(&r, 5) == 0 { let x = senders.swap_remove(i); tr(format!("c{who} drops sender {:?}", x.cookie())); drop(x); } } }
            20 => { if !receivers.is_empty() { let i = rnd(&r, receivers.len()); let n = 1 + rnd(&r, 8);
                for _ in 0..n { let w = waker(); let mut cx = Context::from_waker(&w); let mut got = false; for _ in 0..6 { match receivers[i].poll_next_item::<u32>(&mut cx) { Poll::Ready(_) => { got = true; break; } Poll::Pending => yield_n(1).await } } if !got { break; } }
                if rnd(&r, 5) == 0 { let x = receivers.swap_remove(i); tr(format!("c{who} drops receiver {:?}", x.cookie())); drop(x); } } }
            _ => { if listeners.len() < 2 { match h.create_bus_listener().await { Ok(mut l) => { let f = match rnd(&r, 3) { 0 => BusListenerFilter::any_object(), 1 => BusListenerFilter::any_object_any_service(), _ => BusListenerFilter::object(ObjectUuid(Uuid::from_u128(1))) };
                        let _ = l.add_filter(f); let sc = [BusListenerScope::Current, BusListenerScope::New, BusListenerScope::All][rnd(&r, 3)]; match l.start(sc).await { Ok(()) => {} Err(e) => note(format!("start {e:?}")) }
                        for _ in 0..4 { let w = waker(); let mut cx = Context::from_waker(&w); let _ = l.poll_next_event(&mut cx); yield_n(1).await; } listeners.push(l); } Err(e) => note(format!("listener {e:?}")) } }
                   else { let i = rnd(&r, listeners.len()); let mut l = listeners.swap_remove(i); if rnd(&r, 2) == 0 { let _ = l.stop().await; } drop(l); } }
        }
    }
    stop.set(true);
    tr(format!("c{who} app end: dropping {} senders {} receivers {} pending_s {} pending_r", senders.len(), receivers.len(), pend_s.len(), pend_r.len()));
    for x in &senders { tr(format!("c{who} has sender {:?}", x.cookie())); } for x in &receivers { tr(format!("c{who} has receiver {:?}", x.cookie())); } for x in &pend_s { tr(format!("c{who} has pending sender {:?}", x.cookie())); } for x in &pend_r { tr(format!("c{who} has pending receiver {:?}", x.cookie())); }
    drop((objects, proxies, senders, receivers, pend_s, pend_r, listeners)); drop(h);
    b.borrow_mut().app_done += 1;
}

fn run_case(seed: u64, nclients: usize, steps: usize, fifo: Option<usize>) -> Result<(), String> {
    let r: R = Rc::new(RefCell::new(Rng(seed))); let b: B = Rc::new(RefCell::new(Board::default()));
    let spawn: Rc<RefCell<Vec<Task>>> = Rc::new(RefCell::new(vec![]));
    let broker = Broker::new(); let mut bh = broker.handle().clone();
    let mut tasks: Vec<Option<Task>> = vec![Some(Box::pin(broker.run()))];
    let broker_done = Rc::new(RefCell::new(false));
    for i in 0..nclients {
        let (bb, rr, sp, mut h2) = (b.clone(), r.clone(), spawn.clone(), bh.clone());
        let t: Task = match fifo {
            None => { let (t1, t2) = channel::unbounded(); Box::pin(async move { setup(i, t1, t2, &mut h2, bb, rr, sp, steps).await }) }
            Some(k) => { let (t1, t2) = channel::bounded(k); Box::pin(async move { setup(i, t1, t2, &mut h2, bb, rr, sp, steps).await }) }
        };
        tasks.push(Some(t));
    }
    async fn setup<T: aldrin::core::transport::AsyncTransport<Error = Disconnected> + Unpin + 'static>(i: usize, t1: T, t2: T, bh: &mut aldrin_broker::BrokerHandle, b: B, r: R, spawn: Rc<RefCell<Vec<Task>>>, steps: usize) {
        // run both handshake halves concurrently by hand
        let mut cf: Pin<Box<dyn Future<Output = Result<Client<T>, aldrin::error::ConnectError<Disconnected>>>>> = Box::pin(Client::connect(t1));
        let mut bf = Box::pin(bh.connect(t2));
        let (mut cres, mut bres) = (None, None);
        while cres.is_none() || bres.is_none() { let w = waker(); let mut cx = Context::from_waker(&w);
            if cres.is_none() { if let Poll::Ready(x) = cf.as_mut().poll(&mut cx) { cres = Some(x); } }
            if bres.is_none() { if let Poll::Ready(x) = bf.as_mut().poll(&mut cx) { bres = Some(x); } }
            Yield(false).await; }
        let client = cres.unwrap().expect("client connect"); let conn = bres.unwrap().expect("broker connect");
        let h = client.handle().clone();
        let b2 = b.clone();
        spawn.borrow_mut().push(Box::pin(async move { let res = client.run().await; let s = match res { Ok(()) => "Ok".to_string(), Err(RunError::UnexpectedMessageReceived(m)) => format!("UNEXPECTED {m:?}"), Err(e) => format!("Err({e:?})") }; b2.borrow_mut().run_results.push((i, s)); }));
        spawn.borrow_mut().push(Box::pin(async move { let _ = conn.run().await; }));
        let sp2 = spawn.clone();
        spawn.borrow_mut().push(Box::pin(app(i, h, r, b, sp2, steps)));
    }
    // random scheduler
    let mut budget = 400_000usize; let mut idle_requested = false;
    loop {
        for t in spawn.borrow_mut().drain(..) { tasks.push(Some(t)); }
        let live: Vec<usize> = (0..tasks.len()).filter(|i| tasks[*i].is_some()).collect();
        if live.is_empty() { break; }
        if !idle_requested && b.borrow().app_done == nclients { idle_requested = true; let bd = broker_done.clone(); let mut bh2 = bh.clone(); tasks.push(Some(Box::pin(async move { bh2.shutdown_idle().await; *bd.borrow_mut() = true; }))); }
        let i = live[rnd(&r, live.len())];
        let w = waker(); let mut cx = Context::from_waker(&w);
        if tasks[i].as_mut().unwrap().as_mut().poll(&mut cx).is_ready() { tasks[i] = None; }
        budget -= 1; if budget == 0 { let bb = b.borrow(); return Err(format!("HANG: {} tasks still pending; app_done={}/{} run_results={:?} log={:?}", live.len(), bb.app_done, nclients, bb.run_results, bb.log.iter().rev().take(5).collect::<Vec<_>>())); }
    }
    let _ = &mut bh;
    let bb = b.borrow();
    for (i, s) in &bb.run_results { if s != "Ok" { return Err(format!("client {i} run() = {s}; log tail {:?}", bb.log.iter().rev().take(5).collect::<Vec<_>>())); } }
    if bb.run_results.len() != nclients { return Err(format!("only {} clients finished", bb.run_results.len())); }
    if !bb.log.is_empty() { return Err(format!("unexpected API errors: {:?}", bb.log.iter().take(5).collect::<Vec<_>>())); }
    Ok(())
}

fn main() {
    let n: u64 = std::env::args().nth(1).map(|s| s.parse().unwrap()).unwrap_or(200);
    let verbose = std::env::args().nth(2).is_some();
    if !verbose { std::panic::set_hook(Box::new(|_| {})); }
    let (mut ok, mut fails) = (0, 0);
    let only: Option<u64> = std::env::var("ONLY").ok().map(|x| x.parse().unwrap());
    for k in 0..n {
        if let Some(o) = only { if k != o { continue; } }
        let seed = 0x2545F4914F6CDD1Du64.wrapping_mul(k + 1) | 1;
        let fifo = match k % 4 { 0 => None, 1 => Some(1), 2 => Some(2), _ => Some(16) };
        unsafe { (*std::ptr::addr_of_mut!(TRACE)).clear(); }
        match catch_unwind(AssertUnwindSafe(|| run_case(seed, 2 + (k % 3) as usize, 60, fifo))) {
            Ok(Ok(())) => ok += 1,
            Ok(Err(e)) => { fails += 1; if fails <= 6 { println!("case {k} (fifo {fifo:?}): {e}"); } }
            Err(p) => { if only.is_some() { unsafe { for l in (*std::ptr::addr_of!(TRACE)).iter() { println!("  {l}"); } } } fails += 1; if fails <= 6 { println!("case {k} (fifo {fifo:?}): PANIC {:?}", p.downcast_ref::<String>().cloned().or(p.downcast_ref::<&str>().map(|s| s.to_string()))); } }
        }
    }
    println!("cases={n} ok={ok} failures={fails}");
}
