use aldrin::core::channel;
use aldrin::{Client, Error};
use aldrin_broker::Broker;
use std::future::Future;
use std::pin::Pin;
use std::sync::Arc;
use std::task::{Context, Poll, Wake, Waker};
struct Noop; impl Wake for Noop { fn wake(self: Arc<Self>) {} }
fn waker() -> Waker { Arc::new(Noop).into() }
type Task = Pin<Box<dyn Future<Output = ()>>>;
fn main() {
    let broker = Broker::new(); let mut bh = broker.handle().clone();
    let (t1, t2) = channel::unbounded();
    let mut tasks: Vec<Option<Task>> = vec![Some(Box::pin(broker.run()))];
    let mut setup: Pin<Box<dyn Future<Output = _>>> = Box::pin(async move { let (c, k) = (Client::connect(t1), bh.connect(t2)); 
        let mut c = Box::pin(c); let mut k = Box::pin(k); let (mut cr, mut kr) = (None, None);
        std::future::poll_fn(move |cx| { if cr.is_none() { if let Poll::Ready(x) = c.as_mut().poll(cx) { cr = Some(x); } } if kr.is_none() { if let Poll::Ready(x) = k.as_mut().poll(cx) { kr = Some(x); } }
            if cr.is_some() && kr.is_some() { Poll::Ready((cr.take().unwrap().unwrap(), kr.take().unwrap().unwrap())) } else { Poll::Pending } }).await });
    let w = waker(); let mut cx = Context::from_waker(&w);
    let (client, conn) = loop { if let Poll::Ready(x) = setup.as_mut().poll(&mut cx) { break x; } for t in tasks.iter_mut() { if let Some(f) = t { if f.as_mut().poll(&mut cx).is_ready() { *t = None; } } } };
    let h = client.handle().clone();
    tasks.push(Some(Box::pin(async move { let r = client.run().await; println!("client.run() returned {r:?}"); })));
    tasks.push(Some(Box::pin(async move { let _ = conn.run().await; })));
    tasks.push(Some(Box::pin(async move {
        let (sender, receiver) = h.create_low_level_channel().claim_sender().await.unwrap();
        drop(sender); // closes the pending sender (drop-driven close)
        let res = receiver.claim(16).await;
        println!("claim after the sender was closed: {:?}", res.as_ref().err());
        assert_eq!(res.unwrap_err(), Error::InvalidChannel);
        // keep the handle alive a little so that the client processes the receiver's drop-driven close
        for _ in 0..20 { std::future::poll_fn(|_| Poll::Ready(())).await; let mut once = false; std::future::poll_fn(|_| if once { Poll::Ready(()) } else { once = true; Poll::Pending }).await; }
        println!("application task finished normally");
    })));
    for _ in 0..200 { for t in tasks.iter_mut() { if let Some(f) = t { if f.as_mut().poll(&mut cx).is_ready() { *t = None; } } } }
}
