(* Compiled against the UNFIXED tree (gen/Consts.v: KEY_SKIP_WIDTH_* = 0, read from
   `try_skip_varint_le::<{ mem::size_of::<Self>() }>()` in core/src/tags/key_impl.rs): the
   faithful model refutes C07's "whenever full decoding succeeds, skipping succeeds".
   Witness: Value::U16Set{300} = [57,1,255,44,1,0].  Kept as a record; after the fix: commit the
   positive theorem Props/C07.v C07_skip_agrees holds and this file no longer compiles. *)
From Aldrin Require Import Codec.Base Codec.Value Codec.De Codec.Skip.
Open Scope N_scope.
Example C07_skip_agrees_refuted :
  exists b v r, de_value true b = Ok (v, r) /\ skip_value b <> Ok r.
Proof.
  exists [57;1;255;44;1;0]. eexists. eexists.
  split; [vm_compute; reflexivity | vm_compute; discriminate].
Qed.
Eval vm_compute in (de_value true [57;1;255;44;1;0], skip_value [57;1;255;44;1;0]).
