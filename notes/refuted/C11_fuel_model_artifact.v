(* Props/C11_fuel.v — a MODEL ARTIFACT, not a defect of /repo: the fuel bound [fuel_for] of
   Model.v (the Rust work loop has no fuel) does not count the event subscriptions, so a legal
   history exists on which the model's work loop runs out of fuel (Panic 0).  A connection
   subscribed to 270 events of one service is disconnected: shutdown_connection queues one
   UnsubscribeEvent work item per event, more than fuel_for = 64 + 8 * (4 + 1)^2 = 264. *)
From stdpp Require Import gmap list.
From Aldrin Require Import gen.BrokerConsts Broker.Model Broker.Run Props.C11_lemmas.
Local Open Scope N_scope.

Definition legal_b (s : state) (i : input) : bool :=
  bool_decide (i_fresh i ∉ cookies_in_use s) &&
  (match i_ev i with NewConnection c _ => bool_decide (conns s !! c = None) | _ => true end) &&
  (match i_bserial i with Some b => bool_decide (calls s !! b = None) && (b <=? u32_max) | None => true end) &&
  (match i_ev i with
   | Message _ (CreateChannel _ (CReceiver cap)) | Message _ (ClaimChannelEnd _ _ (CReceiver cap))
   | Message _ (AddChannelCapacity _ cap) => cap <=? u32_max
   | _ => true
   end).

Lemma legal_b_spec s i : legal_b s i = true → legal s i.
Proof.
  unfold legal_b, legal. rewrite !andb_true_iff. intros [[[H1 H2] H3] H4].
  split; [by apply bool_decide_eq_true in H1|]. split; [|split].
  - destruct (i_ev i); try done. by apply bool_decide_eq_true in H2.
  - destruct (i_bserial i); [|done]. apply andb_true_iff in H3 as [H3 H3'].
    apply bool_decide_eq_true in H3. apply N.leb_le in H3'. done.
  - destruct (i_ev i) as [| |c x| | | |]; try done.
    destruct x; try done; try (destruct e; try done); by apply N.leb_le.
Qed.

(* the history is legal all along and ends in Panic 0 *)
Fixpoint run_check (s : state) (h : list input) : bool :=
  match h with
  | [] => false
  | i :: rest =>
      legal_b s i &&
      match step s (i_ev i) (i_fresh i) (i_bserial i) with
      | Done (s', _) => run_check s' rest
      | Panic site => site =? 0
      | Fail _ => false
      end
  end.

Lemma run_check_spec h : ∀ s, run_check s h = true → legal_run s h ∧ run s h = Panic 0.
Proof.
  induction h as [|i h IH]; intros s; cbn; [done|]. rewrite andb_true_iff. intros [Hl Hs].
  apply legal_b_spec in Hl.
  destruct (step s (i_ev i) (i_fresh i) (i_bserial i)) as [[s' o]|[s' o]|site]; [|done|].
  - destruct (IH _ Hs) as [IH1 IH2]. split; [split; [done|]|].
    + intros s'' o' [= <- <-]. done.
    + by rewrite IH2.
  - apply N.eqb_eq in Hs as ->. split; [split; [done|]|done]. intros s' o Hd. done.
Qed.

Definition fuel_history : list input :=
  [ {| i_ev := NewConnection 1 20; i_fresh := 9999; i_bserial := None |};
    {| i_ev := NewConnection 2 20; i_fresh := 9999; i_bserial := None |};
    {| i_ev := Message 1 (CreateObject 0 100); i_fresh := 1000; i_bserial := None |};
    {| i_ev := Message 1 (CreateService 0 1000 200 1); i_fresh := 1001; i_bserial := None |} ]
  ++ ((fun e => {| i_ev := Message 2 (SubscribeEvent (Some e) 1001 e); i_fresh := 9999; i_bserial := None |})
        <$> (N.of_nat <$> seq 0 270))
  ++ [ {| i_ev := ConnectionShutdown 2; i_fresh := 9999; i_bserial := None |} ].

Lemma fuel_history_panics : legal_run init fuel_history ∧ run init fuel_history = Panic 0.
Proof. apply run_check_spec. vm_compute. reflexivity. Qed.

Lemma fuel_for_insufficient : ∃ h, legal_run init h ∧ run init h = Panic 0.
Proof. exists fuel_history. exact fuel_history_panics. Qed.
