use aldrin::core::channel::{self, Disconnected, Unbounded};
use aldrin::core::message::Message;
use aldrin::core::transport::AsyncTransport;
use aldrin::core::{BusListenerFilter, BusListenerScope, ObjectUuid, ServiceUuid};
use aldrin::low_level::{Proxy, ServiceInfo};
use aldrin::{Client, Error, Handle};
use aldrin_broker::Broker;
use std::cell::{Cell, RefCell};
use std::future::Future;
use std::panic::{catch_unwind, AssertUnwindSafe};
use std::pin::Pin;
use std::rc::Rc;
use std::sync::Arc;
use std::task::{Context, Poll, Wake, Waker};
use uuid::Uuid;

struct Rng(u64);
impl Rng { fn next(&mut self) -> u64 { self.0 ^= self.0 << 13; self.0 ^= self.0 >> 7; self.0 ^= self.0 << 17; self.0 } fn below(&mut self, n: usize) -> usize { (self.next() % n as u64) as usize } }
struct Noop; impl Wake for Noop { fn wake(self: Arc<Self>) {} }
fn waker() -> Waker { Arc::new(Noop).into() }
type Task = Pin<Box<dyn Future<Output = ()>>>;
struct Yield(bool);
impl Future for Yield { type Output = (); fn poll(mut self: Pin<&mut Self>, _: &mut Context) -> Poll<()> { if self.0 { Poll::Ready(()) } else { self.0 = true; Poll::Pending } } }

// transport that fails at the k-th operation (counting receive Ready results, send_start and successful flushes)
struct Faulty { inner: Unbounded, ops: Rc<Cell<usize>>, fail_at: usize, failed: Rc<Cell<bool>> }
impl Faulty { fn tick(&self) -> bool { let n = self.ops.get(); self.ops.set(n + 1); if n >= self.fail_at { self.failed.set(true); true } else { false } } }
impl AsyncTransport for Faulty {
    type Error = Disconnected;
    fn receive_poll(mut self: Pin<&mut Self>, cx: &mut Context) -> Poll<Result<Message, Disconnected>> { if self.failed.get() { return Poll::Ready(Err(Disconnected)); }
        match Pin::new(&mut self.inner).receive_poll(cx) { Poll::Ready(x) => { if self.tick() { Poll::Ready(Err(Disconnected)) } else { Poll::Ready(x) } } Poll::Pending => Poll::Pending } }
    fn send_poll_ready(mut self: Pin<&mut Self>, cx: &mut Context) -> Poll<Result<(), Disconnected>> { if self.failed.get() { return Poll::Ready(Err(Disconnected)); } Pin::new(&mut self.inner).send_poll_ready(cx) }
    fn send_start(mut self: Pin<&mut Self>, msg: Message) -> Result<(), Disconnected> { if self.failed.get() || self.tick() { return Err(Disconnected); } Pin::new(&mut self.inner).send_start(msg) }
    fn send_poll_flush(mut self: Pin<&mut Self>, cx: &mut Context) -> Poll<Result<(), Disconnected>> { if self.failed.get() { return Poll::Ready(Err(Disconnected)); }
        match Pin::new(&mut self.inner).send_poll_flush(cx) { Poll::Ready(x) => { if self.tick() { Poll::Ready(Err(Disconnected)) } else { Poll::Ready(x) } } Poll::Pending => Poll::Pending } }
}

#[derive(Default)] struct Board { victim_run: Option<String>, victim_ops_done: bool, outcomes: Vec<String>, peer_ok: bool }
type B = Rc<RefCell<Board>>;

// the victim's application: a mix of operations; every await must complete (Ok or an error) even when the transport dies
async fn victim_app(h: Handle, b: B, svc_id: Rc<RefCell<Option<aldrin::core::ServiceId>>>) {
    let mut out = vec![];
    macro_rules! rec { ($name:expr, $e:expr) => { match $e { Ok(_) => out.push(format!("{}:ok", $name)), Err(e) => out.push(format!("{}:{:?}", $name, e)) } } }
    let obj = h.create_object(ObjectUuid(Uuid::from_u128(50))).await; rec!("create_object", &obj);
    let mut my_svc = None; if let Ok(o) = &obj { let s = o.create_service(ServiceUuid(Uuid::from_u128(51)), ServiceInfo::new(0)).await; rec!("create_service", &s); my_svc = s.ok(); }
    loop { if svc_id.borrow().is_some() { break; } Yield(false).await; if b.borrow().victim_run.is_some() { break; } }
    let sid = *svc_id.borrow();
    if let Some(sid) = sid {
        let p = Proxy::new(&h, sid).await; rec!("proxy", &p);
        if let Ok(mut p) = p {
            rec!("subscribe", p.subscribe(1).await);
            let pending = p.call(0, 1u8, None);           // the peer never answers: stays pending until the fault
            let lis = h.create_bus_listener().await; rec!("listener", &lis);
            let ch = h.create_low_level_channel().claim_receiver(4).await; rec!("channel", &ch);
            let mut lis = lis.ok(); if let Some(l) = lis.as_mut() { let _ = l.add_filter(BusListenerFilter::any_object()); rec!("start", l.start(BusListenerScope::All).await); }
            rec!("sync", h.sync_broker().await);
            // now wait on everything that can only be resolved by the peer or by shutdown
            rec!("pending_call", pending.await.map(|_| ()));
            out.push(format!("next_event:{:?}", p.next_event().await.is_some()));
            if let Some(l) = lis.as_mut() { loop { match l.next_event().await { Some(_) => continue, None => { out.push("listener_end".into()); break; } } } }
            if let Ok((_us, pr)) = ch { rec!("establish", pr.establish().await.map(|_| ())); }
            if let Some(s) = my_svc.as_mut() { out.push(format!("next_call:{:?}", s.next_call().await.is_some())); }
        }
    }
    // operations started after the client stopped
    rec!("late_create_object", h.create_object(ObjectUuid(Uuid::from_u128(60))).await.map(|_| ()));
    rec!("late_sync", h.sync_client().await);
    b.borrow_mut().outcomes = out; b.borrow_mut().victim_ops_done = true;
}

fn run_case(fail_at: usize, seed: u64) -> Result<(usize, bool), String> {
    let r = Rc::new(RefCell::new(Rng(seed))); let b: B = Rc::new(RefCell::new(Board::default()));
    let spawn: Rc<RefCell<Vec<Task>>> = Rc::new(RefCell::new(vec![]));
    let broker = Broker::new(); let bh = broker.handle().clone();
    let mut tasks: Vec<Option<Task>> = vec![Some(Box::pin(broker.run()))];
    let svc_id = Rc::new(RefCell::new(None)); let ops = Rc::new(Cell::new(0)); let failed = Rc::new(Cell::new(false));
    // peer: owns a service, never answers calls, stays alive
    { let (t1, t2) = channel::unbounded(); let (mut h2, sp, sid, bb) = (bh.clone(), spawn.clone(), svc_id.clone(), b.clone());
      tasks.push(Some(Box::pin(async move {
        let mut cf: Pin<Box<dyn Future<Output = _>>> = Box::pin(Client::connect(t1)); let mut bf = Box::pin(h2.connect(t2)); let (mut cr, mut br) = (None, None);
        while cr.is_none() || br.is_none() { let w = waker(); let mut cx = Context::from_waker(&w); if cr.is_none() { if let Poll::Ready(x) = cf.as_mut().poll(&mut cx) { cr = Some(x); } } if br.is_none() { if let Poll::Ready(x) = bf.as_mut().poll(&mut cx) { br = Some(x); } } Yield(false).await; }
        let client: Client<Unbounded> = cr.unwrap().unwrap(); let conn = br.unwrap().unwrap(); let h = client.handle().clone();
        sp.borrow_mut().push(Box::pin(async move { let _ = client.run().await; })); sp.borrow_mut().push(Box::pin(async move { let _ = conn.run().await; }));
        let o = h.create_object(ObjectUuid(Uuid::from_u128(1))).await.unwrap(); let mut s = o.create_service(ServiceUuid(Uuid::from_u128(2)), ServiceInfo::new(0)).await.unwrap(); *sid.borrow_mut() = Some(s.id());
        let mut held = vec![]; loop { let w = waker(); let mut cx = Context::from_waker(&w); if let Poll::Ready(Some(c)) = s.poll_next_call(&mut cx) { held.push(c); } if bb.borrow().victim_ops_done { break; } Yield(false).await; }
        // after the victim is gone the peer must still be served
        bb.borrow_mut().peer_ok = h.sync_broker().await.is_ok(); drop(held); drop(s); drop(o);
      }))); }
    // victim with the faulty transport
    { let (t1, t2) = channel::unbounded(); let (mut h2, sp, sid, bb, ops2, failed2) = (bh.clone(), spawn.clone(), svc_id.clone(), b.clone(), ops.clone(), failed.clone());
      tasks.push(Some(Box::pin(async move {
        let ft = Faulty { inner: t1, ops: ops2, fail_at: fail_at + 2, failed: failed2 }; // +2: let the handshake (1 send, 1 receive) pass... approximately
        let mut cf: Pin<Box<dyn Future<Output = _>>> = Box::pin(Client::connect(ft)); let mut bf = Box::pin(h2.connect(t2)); let (mut cr, mut br) = (None, None);
        while cr.is_none() || br.is_none() { let w = waker(); let mut cx = Context::from_waker(&w); if cr.is_none() { if let Poll::Ready(x) = cf.as_mut().poll(&mut cx) { cr = Some(x); } } if br.is_none() { if let Poll::Ready(x) = bf.as_mut().poll(&mut cx) { br = Some(x); } } Yield(false).await; }
        let conn = br.unwrap();
        let client: Client<Faulty> = match cr.unwrap() { Ok(c) => c, Err(e) => { bb.borrow_mut().victim_run = Some(format!("connect failed {e:?}")); bb.borrow_mut().victim_ops_done = true; if let Ok(conn) = conn { sp.borrow_mut().push(Box::pin(async move { let _ = conn.run().await; })); } return; } };
        let conn = conn.unwrap(); let h = client.handle().clone(); let b2 = bb.clone();
        sp.borrow_mut().push(Box::pin(async move { let res = client.run().await; b2.borrow_mut().victim_run = Some(format!("{res:?}")); })); sp.borrow_mut().push(Box::pin(async move { let _ = conn.run().await; }));
        sp.borrow_mut().push(Box::pin(victim_app(h, bb, sid)));
      }))); }
    let mut budget = 300_000usize; let mut idle = false; let done = Rc::new(Cell::new(false));
    loop {
        for t in spawn.borrow_mut().drain(..) { tasks.push(Some(t)); }
        let live: Vec<usize> = (0..tasks.len()).filter(|i| tasks[*i].is_some()).collect(); if live.is_empty() { break; }
        if !idle && b.borrow().victim_ops_done && b.borrow().peer_ok { idle = true; let mut bh2 = bh.clone(); let d = done.clone(); tasks.push(Some(Box::pin(async move { bh2.shutdown_idle().await; d.set(true); }))); }
        let i = live[r.borrow_mut().below(live.len())]; let w = waker(); let mut cx = Context::from_waker(&w);
        if tasks[i].as_mut().unwrap().as_mut().poll(&mut cx).is_ready() { tasks[i] = None; }
        budget -= 1; if budget == 0 { let bb = b.borrow(); return Err(format!("HANG at fail_at={fail_at}: fault_fired={} victim_run={:?} ops_done={} peer_ok={} outcomes={:?} pending_tasks={}", failed.get(), bb.victim_run, bb.victim_ops_done, bb.peer_ok, bb.outcomes, live.len())); }
    }
    let bb = b.borrow();
    if failed.get() { match bb.victim_run.as_deref() { Some(s) if s.contains("Transport") || s.starts_with("connect failed") => {} other => return Err(format!("fail_at={fail_at}: fault fired but run() = {other:?}")) } }
    else if bb.victim_run.as_deref() != Some("Ok(())") { return Err(format!("fail_at={fail_at}: no fault but run() = {:?}", bb.victim_run)); }
    if !bb.peer_ok { return Err(format!("fail_at={fail_at}: peer not served afterwards")); }
    Ok((ops.get(), failed.get()))
}

fn main() {
    std::panic::set_hook(Box::new(|_| {}));
    let (mut ok, mut fails, mut fired, mut maxops) = (0, 0, 0, 0);
    for fail_at in 0..45usize { for s in 0..25u64 {
        match catch_unwind(AssertUnwindSafe(|| run_case(fail_at, 0x9E37_79B9_7F4A_7C15u64.wrapping_mul(s * 131 + fail_at as u64 + 1) | 1))) {
            Ok(Ok((ops, f))) => { ok += 1; if f { fired += 1; } maxops = maxops.max(ops); }
            Ok(Err(e)) => { fails += 1; if fails <= 8 { println!("{e}"); } }
            Err(p) => { fails += 1; if fails <= 6 { println!("fail_at={fail_at}: PANIC {:?}", p.downcast_ref::<String>().cloned().or(p.downcast_ref::<&str>().map(|s| s.to_string()))); } } } } }
    println!("C15 probe: ok={ok} failures={fails} cases_with_fault_fired={fired} max_transport_ops={maxops}");
}
