use aldrin::core::channel::{self, Disconnected};
use aldrin::core::{ObjectId, ObjectUuid, ServiceId, ServiceUuid};
use aldrin::low_level::{Service, ServiceInfo};
use aldrin::{Client, Discoverer, Error, Handle, Object};
use aldrin_broker::Broker;
use std::cell::RefCell;
use std::collections::{BTreeMap, BTreeSet};
use std::future::Future;
use std::panic::{catch_unwind, AssertUnwindSafe};
use std::pin::Pin;
use std::rc::Rc;
use std::sync::Arc;
use std::task::{Context, Poll, Wake, Waker};
use uuid::Uuid;

struct Rng(u64);
impl Rng { fn next(&mut self) -> u64 { self.0 ^= self.0 << 13; self.0 ^= self.0 >> 7; self.0 ^= self.0 << 17; self.0 } fn below(&mut self, n: usize) -> usize { (self.next() % n as u64) as usize } }
struct Noop; impl Wake for Noop { fn wake(self: Arc<Self>) {} }
fn waker() -> Waker { Arc::new(Noop).into() }
type Task = Pin<Box<dyn Future<Output = ()>>>;
type R = Rc<RefCell<Rng>>;
static mut CNT: [u64; 4] = [0; 4];
fn cnt(i: usize, n: u64) { unsafe { (*std::ptr::addr_of_mut!(CNT))[i] += n; } }
fn rnd(r: &R, n: usize) -> usize { r.borrow_mut().below(n) }
struct Yield(bool);
impl Future for Yield { type Output = (); fn poll(mut self: Pin<&mut Self>, _: &mut Context) -> Poll<()> { if self.0 { Poll::Ready(()) } else { self.0 = true; Poll::Pending } } }
async fn yield_n(n: usize) { for _ in 0..n { Yield(false).await; } }

#[derive(Default)]
struct Board { truth: BTreeMap<usize, Vec<(ObjectId, Vec<ServiceId>)>>, actors_done: usize, phase2: bool, result: Option<Result<(), String>>, run_err: Vec<String> }
type B = Rc<RefCell<Board>>;
fn ou(k: usize) -> ObjectUuid { ObjectUuid(Uuid::from_u128(1 + k as u128)) }
fn su(k: usize) -> ServiceUuid { ServiceUuid(Uuid::from_u128(11 + k as u128)) }

async fn actor(who: usize, h: Handle, r: R, b: B, steps: usize) {
    let mut objs: Vec<(Object, Vec<Service>)> = vec![];
    for _ in 0..steps {
        yield_n(rnd(&r, 4)).await;
        match rnd(&r, 6) {
            0 | 1 => { match h.create_object(ou(rnd(&r, 3))).await { Ok(o) => objs.push((o, vec![])), Err(Error::DuplicateObject) => {} Err(e) => panic!("create_object {e:?}") } }
            2 | 3 => { if !objs.is_empty() { let i = rnd(&r, objs.len()); match objs[i].0.create_service(su(rnd(&r, 3)), ServiceInfo::new(0)).await { Ok(s) => objs[i].1.push(s), Err(Error::DuplicateService) => {} Err(e) => panic!("create_service {e:?}") } } }
            4 => { if !objs.is_empty() { let i = rnd(&r, objs.len()); if !objs[i].1.is_empty() { let j = rnd(&r, objs[i].1.len()); let s = objs[i].1.swap_remove(j); let _ = s.destroy().await; drop(s); } } }
            _ => { if !objs.is_empty() { let i = rnd(&r, objs.len()); let (o, ss) = objs.swap_remove(i); if rnd(&r, 2) == 0 { let _ = o.destroy().await; } drop(ss); drop(o); } }
        }
    }
    // make sure everything this client did has been processed by the broker
    h.sync_broker().await.unwrap();
    b.borrow_mut().truth.insert(who, objs.iter().map(|(o, ss)| (o.id(), ss.iter().map(|s| s.id()).collect())).collect());
    b.borrow_mut().actors_done += 1;
    // keep everything alive until the observer is done
    loop { if b.borrow().result.is_some() { break; } Yield(false).await; }
    drop(objs);
}

type Entry = (Option<usize>, Vec<usize>); // object filter, required services
async fn observer(h: Handle, r: R, b: B, nactors: usize) {
    yield_n(rnd(&r, 30)).await; // start at a random point of the activity
    let nent = 1 + rnd(&r, 3); let mut entries: Vec<Entry> = vec![];
    let mut builder = Discoverer::<usize>::builder(&h);
    for k in 0..nent { let obj = if rnd(&r, 2) == 0 { Some(rnd(&r, 3)) } else { None }; let mut svcs: Vec<usize> = (0..3).filter(|_| rnd(&r, 3) == 0).collect(); svcs.dedup();
        builder = builder.add(k, obj.map(ou), svcs.iter().map(|s| su(*s)).collect::<Vec<_>>()); entries.push((obj, svcs)); }
    let mut d = builder.build().await.unwrap();
    let mut events: Vec<(usize, bool, ObjectId)> = vec![];
    let mut restarted = false;
    loop {
        let w = waker(); let mut cx = Context::from_waker(&w);
        match d.poll_next_event(&mut cx) { Poll::Ready(Some(ev)) => events.push((ev.key(), ev.is_created(), ev.object_id())), Poll::Ready(None) => break, Poll::Pending => { if b.borrow().phase2 { break; } Yield(false).await; } }
        if !restarted && rnd(&r, 200) == 0 { restarted = true; d.restart().await.unwrap(); events.push((usize::MAX, false, ObjectId::NIL)); }
        if b.borrow().actors_done == nactors && !b.borrow().phase2 { h.sync_broker().await.unwrap(); yield_n(50).await; b.borrow_mut().phase2 = true; }
    }
    // drain whatever is already delivered
    loop { let w = waker(); let mut cx = Context::from_waker(&w); match d.poll_next_event(&mut cx) { Poll::Ready(Some(ev)) => events.push((ev.key(), ev.is_created(), ev.object_id())), _ => break } }
    // compare with the truth
    let truth: Vec<(ObjectId, Vec<ServiceId>)> = b.borrow().truth.values().flatten().cloned().collect();
    let mut res = Ok(());
    for (k, (objf, svcs)) in entries.iter().enumerate() {
        let mut expect: BTreeSet<ObjectId> = BTreeSet::new();
        for (oid, ss) in &truth { if let Some(f) = objf { if oid.uuid != ou(*f) { continue; } } if svcs.iter().all(|s| ss.iter().any(|x| x.uuid == su(*s))) { expect.insert(*oid); } }
        let got: BTreeSet<ObjectId> = d.entry_iter(k).map(|e| e.object_id()).collect();
        cnt(0, expect.len() as u64); cnt(1, 1);
        if got != expect { res = Err(format!("entry {k} {:?}: discoverer has {:?}, bus has {:?}", (objf, svcs), got, expect)); break; }
        for oid in &got { for s in svcs { let sid = d.service_id(k, oid.uuid, su(*s)); let real = truth.iter().find(|(o, _)| o == oid).and_then(|(_, ss)| ss.iter().find(|x| x.uuid == su(*s)).copied()); if sid != real { res = Err(format!("entry {k}: service id {sid:?} != {real:?}")); } } }
        // event stream per (key, object uuid) since the last restart alternates created/destroyed and ends consistent with the view
        let start = events.iter().rposition(|e| e.0 == usize::MAX).map(|i| i + 1).unwrap_or(0);
        let mut live: BTreeMap<ObjectUuid, ObjectId> = BTreeMap::new();
        for (kk, created, oid) in &events[start..] { if *kk != k { continue; } if *created { if live.insert(oid.uuid, *oid).is_some() { res = Err(format!("entry {k}: created twice {oid:?}")); } } else if live.remove(&oid.uuid) != Some(*oid) { res = Err(format!("entry {k}: destroyed without created {oid:?}")); } }
        let lv: BTreeSet<ObjectId> = live.values().cloned().collect(); if res.is_ok() && lv != got { res = Err(format!("entry {k}: event fold {:?} != view {:?}", lv, got)); }
    }
    cnt(2, events.len() as u64); if restarted { cnt(3, 1); }
    b.borrow_mut().result = Some(res);
    drop(d);
}

fn run_case(seed: u64, nactors: usize, steps: usize) -> Result<(), String> {
    let r: R = Rc::new(RefCell::new(Rng(seed))); let b: B = Rc::new(RefCell::new(Board::default()));
    let spawn: Rc<RefCell<Vec<Task>>> = Rc::new(RefCell::new(vec![]));
    let broker = Broker::new(); let bh = broker.handle().clone();
    let mut tasks: Vec<Option<Task>> = vec![Some(Box::pin(broker.run()))];
    for i in 0..=nactors {
        let (bb, rr, sp, mut h2) = (b.clone(), r.clone(), spawn.clone(), bh.clone());
        let (t1, t2) = channel::unbounded();
        tasks.push(Some(Box::pin(async move {
            let mut cf: Pin<Box<dyn Future<Output = Result<Client<channel::Unbounded>, aldrin::error::ConnectError<Disconnected>>>>> = Box::pin(Client::connect(t1));
            let mut bf = Box::pin(h2.connect(t2)); let (mut cres, mut bres) = (None, None);
            while cres.is_none() || bres.is_none() { let w = waker(); let mut cx = Context::from_waker(&w);
                if cres.is_none() { if let Poll::Ready(x) = cf.as_mut().poll(&mut cx) { cres = Some(x); } } if bres.is_none() { if let Poll::Ready(x) = bf.as_mut().poll(&mut cx) { bres = Some(x); } } Yield(false).await; }
            let client = cres.unwrap().unwrap(); let conn = bres.unwrap().unwrap(); let h = client.handle().clone(); let b2 = bb.clone();
            sp.borrow_mut().push(Box::pin(async move { if let Err(e) = client.run().await { b2.borrow_mut().run_err.push(format!("client {i}: {e:?}")); } }));
            sp.borrow_mut().push(Box::pin(async move { let _ = conn.run().await; }));
            if i == nactors { sp.borrow_mut().push(Box::pin(observer(h, rr, bb, nactors))); } else { sp.borrow_mut().push(Box::pin(actor(i, h, rr, bb, steps))); }
        })));
    }
    let mut budget = 600_000usize;
    loop {
        for t in spawn.borrow_mut().drain(..) { tasks.push(Some(t)); }
        let live: Vec<usize> = (0..tasks.len()).filter(|i| tasks[*i].is_some()).collect();
        if live.is_empty() || (b.borrow().result.is_some() && budget < 590_000) { break; }
        let i = live[rnd(&r, live.len())]; let w = waker(); let mut cx = Context::from_waker(&w);
        if tasks[i].as_mut().unwrap().as_mut().poll(&mut cx).is_ready() { tasks[i] = None; }
        budget -= 1; if budget == 0 { return Err(format!("HANG (actors_done={} phase2={})", b.borrow().actors_done, b.borrow().phase2)); }
        if b.borrow().result.is_some() { break; }
    }
    if !b.borrow().run_err.is_empty() { return Err(format!("{:?}", b.borrow().run_err)); }
    let res = b.borrow_mut().result.take(); res.unwrap_or(Err("no result".into()))
}

fn main() {
    let n: u64 = std::env::args().nth(1).map(|s| s.parse().unwrap()).unwrap_or(300);
    std::panic::set_hook(Box::new(|_| {}));
    let (mut ok, mut fails) = (0, 0);
    for k in 0..n { let seed = 0xA076_1D64_78BD_642Fu64.wrapping_mul(k + 1) | 1;
        match catch_unwind(AssertUnwindSafe(|| run_case(seed, 1 + (k % 3) as usize, 30))) { Ok(Ok(())) => ok += 1, Ok(Err(e)) => { fails += 1; if fails <= 5 { println!("case {k}: {e}"); } } Err(p) => { fails += 1; if fails <= 5 { println!("case {k}: PANIC {:?}", p.downcast_ref::<String>().cloned().or(p.downcast_ref::<&str>().map(|s| s.to_string()))); } } } }
    println!("C19 probe: cases={n} ok={ok} failures={fails} entries={} expected_objects={} events={} restarts={}", unsafe { CNT[1] }, unsafe { CNT[0] }, unsafe { CNT[2] }, unsafe { CNT[3] });
}
