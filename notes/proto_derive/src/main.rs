use aldrin_core::{Deserialize, Enum, PrimaryTag, RefType, Serialize, SerializedValue, SerializedValueSlice, Struct, Tag, UnknownFields, UnknownVariant, Value, ProtocolVersion};
use std::collections::{HashMap, HashSet};

#[derive(Debug, Clone, PartialEq, Tag, PrimaryTag, RefType, Serialize, Deserialize)]
#[aldrin(schema = "t", ref_type)]
pub struct Plain { #[aldrin(id = 1)] pub a: u8, #[aldrin(id = 2, optional)] pub b: Option<String>, #[aldrin(id = 5)] pub c: Vec<u16> }

#[derive(Debug, Clone, PartialEq, Tag, PrimaryTag, RefType, Serialize, Deserialize)]
#[aldrin(schema = "t", ref_type)]
pub struct WithFb { #[aldrin(id = 1)] pub a: u8, #[aldrin(id = 2, optional)] pub b: Option<String>, #[aldrin(fallback)] pub rest: UnknownFields }

#[derive(Debug, Clone, PartialEq, Tag, PrimaryTag, RefType, Serialize, Deserialize)]
#[aldrin(schema = "t", ref_type)]
pub enum En { #[aldrin(id = 1)] A, #[aldrin(id = 2)] B(u32) }

#[derive(Debug, Clone, PartialEq, Tag, PrimaryTag, RefType, Serialize, Deserialize)]
#[aldrin(schema = "t", ref_type)]
pub enum EnFb { #[aldrin(id = 1)] A, #[aldrin(id = 2)] B(u32), #[aldrin(fallback)] Other(UnknownVariant) }

fn st(fields: Vec<(u32, Value)>) -> Value { Value::Struct(Struct(fields.into_iter().collect::<HashMap<_, _>>())) }
fn both(v: &Value) -> Vec<SerializedValue> { let s = SerializedValue::serialize(v).unwrap(); let sl: &SerializedValueSlice = &s; let v1 = sl.convert(None, ProtocolVersion::V1_14).unwrap().into_owned(); vec![s, v1] }
fn main() {
    let mut bad = 0; let mut n = 0;
    macro_rules! expect { ($ty:ty, $v:expr, ok) => { for s in both(&$v) { n += 1; match s.deserialize::<$ty>() { Ok(x) => { let back = SerializedValue::serialize(&x).unwrap().deserialize_as_value().unwrap(); println!("  {} <- {:?}  re-encodes to {:?}", stringify!($ty), $v, back); } Err(e) => { bad += 1; println!("UNEXPECTED REJECT {} {:?}: {e:?}", stringify!($ty), $v); } } } };
                           ($ty:ty, $v:expr, err) => { for s in both(&$v) { n += 1; if let Ok(x) = s.deserialize::<$ty>() { bad += 1; println!("UNEXPECTED ACCEPT {} {:?} -> {x:?}", stringify!($ty), $v); } } }; }
    let vec16 = Value::Vec(vec![Value::U16(300), Value::U16(1)]);
    expect!(Plain, st(vec![(1, Value::U8(7)), (2, Value::Some(Box::new(Value::String("x".into())))), (5, vec16.clone())]), ok);
    expect!(Plain, st(vec![(1, Value::U8(7)), (5, vec16.clone())]), ok);                         // optional absent
    expect!(Plain, st(vec![(1, Value::U8(7)), (2, Value::None), (5, vec16.clone())]), ok);       // optional present as None
    expect!(Plain, st(vec![(1, Value::U8(7)), (5, vec16.clone()), (9, Value::Bool(true))]), ok); // unknown id tolerated
    expect!(Plain, st(vec![(5, vec16.clone())]), err);                                           // required missing
    expect!(Plain, st(vec![(1, Value::U16(7)), (5, vec16.clone())]), err);                       // wrongly typed
    expect!(Plain, st(vec![(1, Value::U8(7)), (2, Value::String("x".into())), (5, vec16.clone())]), err); // optional not wrapped
    expect!(Plain, Value::U8(1), err);
    // fallback keeps unknown fields
    let unk = st(vec![(1, Value::U8(7)), (9, Value::U16Set(HashSet::from([5u16]))), (10, Value::String("keep".into()))]);
    expect!(WithFb, unk.clone(), ok);
    let unk_big = st(vec![(1, Value::U8(7)), (9, Value::U16Set(HashSet::from([300u16])))]);     // hits the skip defect
    expect!(WithFb, unk_big.clone(), ok);
    // enums
    expect!(En, Value::Enum(Box::new(Enum::new(1, Value::None))), ok);
    expect!(En, Value::Enum(Box::new(Enum::new(2, Value::U32(70000)))), ok);
    expect!(En, Value::Enum(Box::new(Enum::new(3, Value::None))), err);
    expect!(En, Value::Enum(Box::new(Enum::new(2, Value::U8(1)))), err);
    expect!(En, Value::Enum(Box::new(Enum::new(1, Value::U8(1)))), err);                         // unit variant with payload
    expect!(EnFb, Value::Enum(Box::new(Enum::new(3, Value::String("new".into())))), ok);
    println!("C16 derive probe: checks={n} unexpected={bad}");
}
