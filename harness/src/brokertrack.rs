//! Design-round Rust prototype of the broker machine, used by the broker harness ONLY as a state
//! tracker for the state-aware generator (choice of live cookies/serials). It is not an oracle: the
//! verified model is coq/Broker/Model.v.
#![allow(dead_code)]
// Reference model v2 (failure-aware, with gauges): written from reading broker/src/broker.rs.
// Every `send` can fail (the connection task dropped its receiver); each call site treats the
// failure exactly as the corresponding `send!` site in the Rust does.
use aldrin_core::message::*;
use aldrin_core::*;
use std::collections::{BTreeMap, BTreeSet};
use uuid::Uuid;

pub type C = usize;
#[derive(Clone, Debug)] pub struct Obj { pub cookie: Uuid, pub owner: C }
#[derive(Clone, Debug)] pub struct Svc { pub cookie: Uuid, pub obj_cookie: Uuid, pub info: ServiceInfo, pub events: BTreeMap<u32, BTreeSet<C>>, pub all: BTreeSet<C>, pub subs: BTreeSet<C>, pub calls: BTreeSet<u32> }
#[derive(Clone, Debug)] pub struct Call { pub caller: C, pub caller_serial: u32, pub svc: (Uuid, Uuid), pub aborted: bool }
#[derive(Clone, Debug, PartialEq)] pub enum End { Unclaimed, Claimed { owner: C, cap: u32 }, Closed }
#[derive(Clone, Debug)] pub struct Chan { pub s: End, pub r: End }
#[derive(Clone, Debug)] pub struct Lis { pub owner: C, pub filters: BTreeSet<BusListenerFilter>, pub scope: Option<BusListenerScope> }
#[derive(Clone, Debug)] pub struct Conn { pub ver: u32, pub alive: bool, pub calls: BTreeMap<u32, (u32, C)> }
#[derive(Clone, Debug, Default, PartialEq)] pub struct Stats { pub conns: usize, pub objs: usize, pub svcs: usize, pub chans: usize, pub lis: usize }

#[derive(Default)] pub struct Work { remove_conns: Vec<(C, bool)>, unsub_ev: Vec<(C, Uuid, u32)>, unsub_all: Vec<(C, Uuid)>, svc_destroyed: Vec<(C, Uuid)>, rm_call: Vec<(u32, C, CallFunctionResult)>,
    create_obj: Vec<ObjectId>, destroy_obj: Vec<ObjectId>, create_svc: Vec<ServiceId>, destroy_svc: Vec<ServiceId>, abort: Vec<(u32, C)> }

#[derive(Default)] pub struct Model { pub conns: BTreeMap<C, Conn>, pub objs: BTreeMap<Uuid, Obj>, pub svcs: BTreeMap<(Uuid, Uuid), Svc>, pub calls: BTreeMap<u32, Call>, pub next: u32,
    pub chans: BTreeMap<Uuid, Chan>, pub lis: BTreeMap<Uuid, Lis>, pub out: Vec<(C, Message)>, pub stats: Stats, pub shutdown_now: bool, pub shutdown_idle: bool }

const LOW: u32 = 4;
fn oid(u: Uuid, c: Uuid) -> ObjectId { ObjectId::new(ObjectUuid(u), ObjectCookie(c)) }
type R = Result<(), ()>;

impl Model {
    // precondition: c is connected (as at every `send!` site); Err iff its receiver is gone
    fn send(&mut self, c: C, m: impl Into<Message>) -> R { let conn = self.conns.get(&c).expect("model: send to unknown conn"); if conn.alive { self.out.push((c, m.into())); Ok(()) } else { Err(()) } }
    fn has(&self, c: C) -> bool { self.conns.contains_key(&c) }
    fn obj_by_cookie(&self, c: Uuid) -> Option<(Uuid, Obj)> { self.objs.iter().find(|(_, o)| o.cookie == c).map(|(u, o)| (*u, o.clone())) }
    fn svc_by_cookie(&self, c: Uuid) -> Option<((Uuid, Uuid), Svc)> { self.svcs.iter().find(|(_, s)| s.cookie == c).map(|(k, s)| (*k, s.clone())) }
    fn owner_of_svc(&self, k: &(Uuid, Uuid)) -> C { self.objs[&k.0].owner }
    fn sid(&self, k: &(Uuid, Uuid), s: &Svc) -> ServiceId { ServiceId::new(oid(k.0, s.obj_cookie), ServiceUuid(k.1), ServiceCookie(s.cookie)) }
    pub fn true_stats(&self) -> Stats { Stats { conns: self.conns.len(), objs: self.objs.len(), svcs: self.svcs.len(), chans: self.chans.len(), lis: self.lis.len() } }
    pub fn idle_exit(&self) -> bool { self.shutdown_now || (self.shutdown_idle && self.conns.is_empty()) }

    pub fn new_conn(&mut self, c: C, ver: u32) { self.conns.insert(c, Conn { ver, alive: true, calls: BTreeMap::new() }); self.stats.conns += 1; }
    pub fn drop_task(&mut self, c: C) { if let Some(conn) = self.conns.get_mut(&c) { conn.alive = false; } }
    pub fn conn_shutdown(&mut self, c: C) -> Vec<(C, Message)> { let mut w = Work::default(); w.remove_conns.push((c, false)); self.settle(&mut w); std::mem::take(&mut self.out) }
    pub fn shutdown_conn_forced(&mut self, c: C) -> Vec<(C, Message)> { let mut w = Work::default(); w.remove_conns.push((c, true)); self.settle(&mut w); std::mem::take(&mut self.out) }
    pub fn shutdown_broker(&mut self) -> Vec<(C, Message)> { let mut w = Work::default(); for c in self.conns.keys() { w.remove_conns.push((*c, true)); } self.shutdown_now = true; self.settle(&mut w); std::mem::take(&mut self.out) }
    pub fn message(&mut self, c: C, m: Message, fresh: Option<Uuid>) -> Vec<(C, Message)> {
        let mut w = Work::default();
        if self.handle(&mut w, c, m, fresh).is_err() { w.remove_conns.push((c, false)); }
        self.settle(&mut w); std::mem::take(&mut self.out)
    }

    fn settle(&mut self, w: &mut Work) {
        loop {
            if let Some((c, sd)) = w.remove_conns.pop() { self.shutdown_conn(w, c, sd); continue; }
            if let Some((c, s, e)) = w.unsub_ev.pop() { if self.has(c) && self.send(c, UnsubscribeEvent { service_cookie: ServiceCookie(s), event: e }).is_err() { w.remove_conns.push((c, false)); } continue; }
            if let Some((c, s)) = w.unsub_all.pop() { if self.has(c) && self.send(c, UnsubscribeAllEvents { serial: None, service_cookie: ServiceCookie(s) }).is_err() { w.remove_conns.push((c, false)); } continue; }
            if let Some((c, s)) = w.svc_destroyed.pop() { if self.has(c) && self.send(c, ServiceDestroyed { service_cookie: ServiceCookie(s) }).is_err() { w.remove_conns.push((c, false)); } continue; }
            if let Some((serial, c, result)) = w.rm_call.pop() { if let Some(conn) = self.conns.get_mut(&c) { conn.calls.remove(&serial).expect("model: remove_call debug_assert"); if self.send(c, CallFunctionReply { serial, result }).is_err() { w.remove_conns.push((c, false)); } } continue; }
            if let Some(o) = w.create_obj.pop() { self.bus(w, BusEvent::ObjectCreated(o)); continue; }
            if let Some(s) = w.create_svc.pop() { self.bus(w, BusEvent::ServiceCreated(s)); continue; }
            if let Some(s) = w.destroy_svc.pop() { self.bus(w, BusEvent::ServiceDestroyed(s)); continue; }
            if let Some(o) = w.destroy_obj.pop() { self.bus(w, BusEvent::ObjectDestroyed(o)); continue; }
            if let Some((b, callee)) = w.abort.pop() { self.abort_call(w, b, callee); continue; }
            break;
        }
    }
    fn bus(&mut self, w: &mut Work, ev: BusEvent) {
        let mut targets = BTreeSet::new();
        for l in self.lis.values() { if l.scope.map(|s| s.includes_new()).unwrap_or(false) && l.filters.iter().any(|f| f.matches_event(ev)) { targets.insert(l.owner); } }
        for c in targets { if self.has(c) && self.send(c, EmitBusEvent { cookie: None, event: ev }).is_err() { w.remove_conns.push((c, false)); } }
    }
    fn abort_call(&mut self, w: &mut Work, b: u32, callee: C) {
        let Some(call) = self.calls.get_mut(&b) else { return }; if call.aborted { return; } call.aborted = true; let (caller, cs) = (call.caller, call.caller_serial);
        if let Some(cc) = self.conns.get(&callee) { if cc.ver >= 16 && self.send(callee, AbortFunctionCall { serial: b }).is_err() { w.remove_conns.push((callee, false)); } }
        if let Some(conn) = self.conns.get_mut(&caller) { conn.calls.remove(&cs).expect("model: remove_call debug_assert"); if self.send(caller, CallFunctionReply { serial: cs, result: CallFunctionResult::Aborted }).is_err() { w.remove_conns.push((caller, false)); } }
    }
    fn shutdown_conn(&mut self, w: &mut Work, c: C, send_shutdown: bool) {
        let Some(conn) = self.conns.remove(&c) else { return };
        if send_shutdown && conn.alive { self.out.push((c, Shutdown.into())); }
        let ls: Vec<Uuid> = self.lis.iter().filter(|(_, l)| l.owner == c).map(|(k, _)| *k).collect(); for k in ls { self.remove_listener(k); }
        let owned: Vec<Uuid> = self.objs.values().filter(|o| o.owner == c).map(|o| o.cookie).collect();
        for oc in owned { self.remove_object(w, oc); }
        let keys: Vec<(Uuid, Uuid)> = self.svcs.keys().cloned().collect();
        for k in &keys { let owner = self.owner_of_svc(k); let s = self.svcs.get_mut(k).unwrap(); let cookie = s.cookie;
            let evs: Vec<u32> = s.events.iter().filter(|(_, set)| set.contains(&c)).map(|(e, _)| *e).collect();
            for e in evs { let set = s.events.get_mut(&e).unwrap(); set.remove(&c); if set.is_empty() { s.events.remove(&e); w.unsub_ev.push((owner, cookie, e)); } } }
        for k in &keys { let owner = self.owner_of_svc(k); let s = self.svcs.get_mut(k).unwrap(); if s.all.contains(&c) { s.all.remove(&c); if s.all.is_empty() { w.unsub_all.push((owner, s.cookie)); } } }
        for k in &keys { self.svcs.get_mut(k).unwrap().subs.remove(&c); }
        let ck: Vec<Uuid> = self.chans.keys().cloned().collect();
        for k in &ck { if matches!(self.chans.get(k).map(|ch| &ch.s), Some(End::Claimed { owner, .. }) if *owner == c) { self.remove_end(w, *k, ChannelEnd::Sender); } }
        for k in &ck { if matches!(self.chans.get(k).map(|ch| &ch.r), Some(End::Claimed { owner, .. }) if *owner == c) { self.remove_end(w, *k, ChannelEnd::Receiver); } }
        for (_, (b, callee)) in conn.calls { w.abort.push((b, callee)); }
        self.stats.conns = self.stats.conns.saturating_sub(1);
    }
    fn remove_listener(&mut self, k: Uuid) { if self.lis.remove(&k).is_some() { self.stats.lis = self.stats.lis.saturating_sub(1); } }
    fn remove_object(&mut self, w: &mut Work, cookie: Uuid) {
        let Some((u, _)) = self.obj_by_cookie(cookie) else { return }; self.objs.remove(&u);
        w.destroy_obj.push(oid(u, cookie));
        let svcs: Vec<Uuid> = self.svcs.iter().filter(|(k, _)| k.0 == u).map(|(_, s)| s.cookie).collect();
        for s in svcs { self.remove_service(w, s); }
        self.stats.objs = self.stats.objs.saturating_sub(1);
    }
    fn remove_service(&mut self, w: &mut Work, cookie: Uuid) {
        let Some((k, s)) = self.svc_by_cookie(cookie) else { return }; self.svcs.remove(&k);
        w.destroy_svc.push(self.sid(&k, &s));
        for b in &s.calls { let call = self.calls.remove(b).expect("model: inconsistent calls"); if !call.aborted { w.rm_call.push((call.caller_serial, call.caller, CallFunctionResult::InvalidService)); } }
        let mut t: BTreeSet<C> = s.subs.clone(); for set in s.events.values() { t.extend(set.iter()); }
        for c in t { if self.has(c) { w.svc_destroyed.push((c, cookie)); } }
        self.stats.svcs = self.stats.svcs.saturating_sub(1);
    }
    fn remove_end(&mut self, w: &mut Work, cookie: Uuid, end: ChannelEnd) {
        let Some(ch) = self.chans.get_mut(&cookie) else { return };
        let (own, other) = match end { ChannelEnd::Sender => (std::mem::replace(&mut ch.s, End::Closed), ch.r.clone()), ChannelEnd::Receiver => (std::mem::replace(&mut ch.r, End::Closed), ch.s.clone()) };
        let notify = match (own, other) { (End::Claimed { .. }, End::Unclaimed) | (End::Claimed { .. }, End::Closed) => None,
            (End::Unclaimed, End::Claimed { owner, .. }) | (End::Claimed { .. }, End::Claimed { owner, .. }) => Some(owner), x => panic!("model: illegal close {x:?}") };
        let remove = match notify { Some(o) => if self.has(o) { if self.send(o, ChannelEndClosed { cookie: ChannelCookie(cookie), end }).is_err() { w.remove_conns.push((o, false)); } false } else { true }, None => true };
        if remove { self.chans.remove(&cookie); self.stats.chans = self.stats.chans.saturating_sub(1); }
    }

    fn handle(&mut self, w: &mut Work, c: C, m: Message, fresh: Option<Uuid>) -> R {
        let Some(ver) = self.conns.get(&c).map(|x| x.ver) else { return Ok(()) };
        match m {
            Message::CreateObject(r) => { if self.objs.contains_key(&r.uuid.0) { return self.send(c, CreateObjectReply { serial: r.serial, result: CreateObjectResult::DuplicateObject }); }
                let ck = fresh.ok_or(()).or_else(|_| if self.conns[&c].alive { panic!("fresh cookie") } else { Ok::<Uuid, ()>(Uuid::nil()) })?;
                self.send(c, CreateObjectReply { serial: r.serial, result: CreateObjectResult::Ok(ObjectCookie(ck)) })?;
                self.objs.insert(r.uuid.0, Obj { cookie: ck, owner: c }); w.create_obj.push(oid(r.uuid.0, ck)); self.stats.objs += 1; }
            Message::DestroyObject(r) => { match self.obj_by_cookie(r.cookie.0) { None => return self.send(c, DestroyObjectReply { serial: r.serial, result: DestroyObjectResult::InvalidObject }),
                Some((_, o)) if o.owner != c => return self.send(c, DestroyObjectReply { serial: r.serial, result: DestroyObjectResult::ForeignObject }),
                Some(_) => { self.send(c, DestroyObjectReply { serial: r.serial, result: DestroyObjectResult::Ok })?; self.remove_object(w, r.cookie.0); } } }
            Message::CreateService(r) => self.create_service(w, c, r.serial, r.object_cookie.0, r.uuid.0, Ok(ServiceInfo::new(r.version)), fresh)?,
            Message::CreateService2(r) => { if ver < 17 { return Err(()); }
                let info = r.value.deserialize::<ServiceInfo>().map(|i| if ver < 18 { i.set_subscribe_all(false) } else { i }).map_err(|_| ());
                self.create_service(w, c, r.serial, r.object_cookie.0, r.uuid.0, info, fresh)? }
            Message::DestroyService(r) => { match self.svc_by_cookie(r.cookie.0) { None => return self.send(c, DestroyServiceReply { serial: r.serial, result: DestroyServiceResult::InvalidService }),
                Some((k, _)) if self.owner_of_svc(&k) != c => return self.send(c, DestroyServiceReply { serial: r.serial, result: DestroyServiceResult::ForeignObject }),
                Some(_) => { self.send(c, DestroyServiceReply { serial: r.serial, result: DestroyServiceResult::Ok })?; self.remove_service(w, r.cookie.0); } } }
            Message::CallFunction(r) => self.call(w, c, r.serial, r.service_cookie.0, r.function, None, r.value)?,
            Message::CallFunction2(r) => { if ver < 19 { return Err(()); } self.call(w, c, r.serial, r.service_cookie.0, r.function, r.version, r.value)? }
            Message::CallFunctionReply(r) => { let Some(call) = self.calls.get(&r.serial).cloned() else { return Ok(()) };
                if self.objs[&call.svc.0].owner != c { return Ok(()); }
                self.calls.remove(&r.serial); assert!(self.svcs.get_mut(&call.svc).unwrap().calls.remove(&r.serial));
                if call.aborted { return Ok(()); }
                if let Some(conn) = self.conns.get_mut(&call.caller) { conn.calls.remove(&call.caller_serial).expect("model: remove_call"); if self.send(call.caller, CallFunctionReply { serial: call.caller_serial, result: r.result }).is_err() { w.remove_conns.push((call.caller, false)); } } }
            Message::SubscribeEvent(r) => { let Some(serial) = r.serial else { return Err(()) };
                let Some((k, _)) = self.svc_by_cookie(r.service_cookie.0) else { return self.send(c, SubscribeEventReply { serial, result: SubscribeEventResult::InvalidService }) };
                self.send(c, SubscribeEventReply { serial, result: SubscribeEventResult::Ok })?;
                let owner = self.owner_of_svc(&k); let s = self.svcs.get_mut(&k).unwrap(); let first = !s.events.contains_key(&r.event); s.events.entry(r.event).or_default().insert(c);
                if first && self.has(owner) { let _ = self.send(owner, SubscribeEvent { serial: None, service_cookie: r.service_cookie, event: r.event }); } }
            Message::UnsubscribeEvent(r) => { let Some((k, _)) = self.svc_by_cookie(r.service_cookie.0) else { return Ok(()) };
                let owner = self.owner_of_svc(&k); let s = self.svcs.get_mut(&k).unwrap();
                if let Some(set) = s.events.get_mut(&r.event) { set.remove(&c); if set.is_empty() { s.events.remove(&r.event); if self.send(owner, r).is_err() { w.remove_conns.push((owner, false)); } } } }
            Message::EmitEvent(r) => { let Some((k, s)) = self.svc_by_cookie(r.service_cookie.0) else { return Ok(()) }; if self.owner_of_svc(&k) != c { return Ok(()); }
                let mut t = s.all.clone(); if let Some(set) = s.events.get(&r.event) { t.extend(set.iter()); } for x in t { if self.send(x, r.clone()).is_err() { w.remove_conns.push((x, false)); } } }
            Message::QueryServiceVersion(r) => { let result = match self.svc_by_cookie(r.cookie.0) { Some((_, s)) => QueryServiceVersionResult::Ok(s.info.version()), None => QueryServiceVersionResult::InvalidService }; return self.send(c, QueryServiceVersionReply { serial: r.serial, result }); }
            Message::CreateChannel(r) => { let alive = self.conns[&c].alive; let ck = match fresh { Some(k) => k, None => { assert!(!alive, "fresh"); Uuid::from_u128(0xdead_0000 + self.next as u128 + self.chans.len() as u128) } };
                let ch = match r.end { ChannelEndWithCapacity::Sender => Chan { s: End::Claimed { owner: c, cap: 0 }, r: End::Unclaimed }, ChannelEndWithCapacity::Receiver(cap) => Chan { s: End::Unclaimed, r: End::Claimed { owner: c, cap } } };
                self.chans.insert(ck, ch); self.send(c, CreateChannelReply { serial: r.serial, cookie: ChannelCookie(ck) })?; self.stats.chans += 1; }
            Message::CloseChannelEnd(r) => { let Some(ch) = self.chans.get(&r.cookie.0) else { return self.send(c, CloseChannelEndReply { serial: r.serial, result: CloseChannelEndResult::InvalidChannel }) };
                let st = match r.end { ChannelEnd::Sender => &ch.s, ChannelEnd::Receiver => &ch.r };
                let result = match st { End::Unclaimed => CloseChannelEndResult::Ok, End::Claimed { owner, .. } if *owner == c => CloseChannelEndResult::Ok, End::Claimed { .. } => CloseChannelEndResult::ForeignChannel, End::Closed => CloseChannelEndResult::InvalidChannel };
                self.send(c, CloseChannelEndReply { serial: r.serial, result })?; if result == CloseChannelEndResult::Ok { self.remove_end(w, r.cookie.0, r.end); } }
            Message::ClaimChannelEnd(r) => { let Some(ch) = self.chans.get_mut(&r.cookie.0) else { return self.send(c, ClaimChannelEndReply { serial: r.serial, result: ClaimChannelEndResult::InvalidChannel }) };
                let outcome: Result<(C, ClaimChannelEndResult), ClaimChannelEndResult> = match r.end {
                    ChannelEndWithCapacity::Sender => match ch.s { End::Claimed { .. } => Err(ClaimChannelEndResult::AlreadyClaimed), End::Closed => Err(ClaimChannelEndResult::InvalidChannel),
                        End::Unclaimed => { let End::Claimed { owner: ro, cap } = ch.r.clone() else { panic!("model: claim_sender unreachable") }; ch.s = End::Claimed { owner: c, cap }; Ok((ro, ClaimChannelEndResult::SenderClaimed(cap))) } },
                    ChannelEndWithCapacity::Receiver(cap) => match ch.r { End::Claimed { .. } => Err(ClaimChannelEndResult::AlreadyClaimed), End::Closed => Err(ClaimChannelEndResult::InvalidChannel),
                        End::Unclaimed => { let End::Claimed { owner: so, .. } = ch.s.clone() else { panic!("model: claim_receiver unreachable") }; ch.r = End::Claimed { owner: c, cap }; ch.s = End::Claimed { owner: so, cap }; Ok((so, ClaimChannelEndResult::ReceiverClaimed)) } } };
                match outcome { Err(result) => return self.send(c, ClaimChannelEndReply { serial: r.serial, result }),
                    Ok((other, result)) => { let res = self.send(c, ClaimChannelEndReply { serial: r.serial, result }); if self.send(other, ChannelEndClaimed { cookie: r.cookie, end: r.end }).is_err() { w.remove_conns.push((other, false)); } return res; } } }
            Message::AddChannelCapacity(r) => { let Some(ch) = self.chans.get_mut(&r.cookie.0) else { return Ok(()) }; if r.capacity == 0 { return Ok(()); }
                let End::Claimed { owner: ro, cap: rc } = ch.r.clone() else { return Ok(()) }; if ro != c { return Ok(()); }
                let Some(nrc) = rc.checked_add(r.capacity) else { self.remove_end(w, r.cookie.0, ChannelEnd::Receiver); return Ok(()) };
                ch.r = End::Claimed { owner: ro, cap: nrc };
                if let End::Claimed { owner: so, cap: sc } = ch.s.clone() { if sc <= LOW { assert!(nrc > sc, "model: debug_assert rc > sc"); ch.s = End::Claimed { owner: so, cap: nrc }; if self.has(so) && self.send(so, AddChannelCapacity { cookie: r.cookie, capacity: nrc - sc }).is_err() { w.remove_conns.push((so, false)); } } } }
            Message::SendItem(r) => { let Some(ch) = self.chans.get_mut(&r.cookie.0) else { return Ok(()) };
                let End::Claimed { owner: so, cap: sc } = ch.s.clone() else { return Ok(()) }; if so != c { return Ok(()); }
                match ch.r.clone() { End::Unclaimed => { self.remove_end(w, r.cookie.0, ChannelEnd::Receiver); self.remove_end(w, r.cookie.0, ChannelEnd::Sender); }
                    End::Closed => {}
                    End::Claimed { owner: ro, cap: rc } => { if sc == 0 { assert!(rc == 0, "model: debug_assert rc == 0"); self.remove_end(w, r.cookie.0, ChannelEnd::Sender); return Ok(()); }
                        let (mut sc, rc) = (sc - 1, rc - 1); let mut add = None; if sc <= LOW && rc > sc { add = Some(rc - sc); sc = rc; }
                        ch.s = End::Claimed { owner: so, cap: sc }; ch.r = End::Claimed { owner: ro, cap: rc };
                        if !self.has(ro) { return Ok(()); }
                        if self.send(ro, ItemReceived { cookie: r.cookie, value: r.value }).is_err() { w.remove_conns.push((ro, false)); }
                        if let Some(a) = add { return self.send(c, AddChannelCapacity { cookie: r.cookie, capacity: a }); } } } }
            Message::Sync(r) => return self.send(c, SyncReply { serial: r.serial }),
            Message::CreateBusListener(r) => { let alive = self.conns[&c].alive; let ck = match fresh { Some(k) => k, None => { assert!(!alive); Uuid::nil() } };
                self.send(c, CreateBusListenerReply { serial: r.serial, cookie: BusListenerCookie(ck) })?; self.stats.lis += 1; self.lis.insert(ck, Lis { owner: c, filters: BTreeSet::new(), scope: None }); }
            Message::DestroyBusListener(r) => { let Some(l) = self.lis.get(&r.cookie.0) else { return self.send(c, DestroyBusListenerReply { serial: r.serial, result: DestroyBusListenerResult::InvalidBusListener }) };
                if l.owner == c { self.send(c, DestroyBusListenerReply { serial: r.serial, result: DestroyBusListenerResult::Ok })?; self.remove_listener(r.cookie.0); } else { self.send(c, DestroyBusListenerReply { serial: r.serial, result: DestroyBusListenerResult::InvalidBusListener })?; } }
            Message::AddBusListenerFilter(r) => { if let Some(l) = self.lis.get_mut(&r.cookie.0) { if l.owner == c { l.filters.insert(r.filter); } } }
            Message::RemoveBusListenerFilter(r) => { if let Some(l) = self.lis.get_mut(&r.cookie.0) { if l.owner == c { l.filters.remove(&r.filter); } } }
            Message::ClearBusListenerFilters(r) => { if let Some(l) = self.lis.get_mut(&r.cookie.0) { if l.owner == c { l.filters.clear(); } } }
            Message::StartBusListener(r) => { let ok = self.lis.get(&r.cookie.0).map(|l| l.owner == c).unwrap_or(false);
                if !ok { return self.send(c, StartBusListenerReply { serial: r.serial, result: StartBusListenerResult::InvalidBusListener }); }
                if self.lis[&r.cookie.0].scope.is_some() { return self.send(c, StartBusListenerReply { serial: r.serial, result: StartBusListenerResult::AlreadyStarted }); }
                self.lis.get_mut(&r.cookie.0).unwrap().scope = Some(r.scope); self.send(c, StartBusListenerReply { serial: r.serial, result: StartBusListenerResult::Ok })?;
                if r.scope != BusListenerScope::New { let l = self.lis[&r.cookie.0].clone();
                    let os: Vec<ObjectId> = self.objs.iter().map(|(u, o)| oid(*u, o.cookie)).filter(|o| l.filters.iter().any(|f| f.matches_object(*o))).collect();
                    for o in os { self.send(c, EmitBusEvent { cookie: Some(r.cookie), event: BusEvent::ObjectCreated(o) })?; }
                    let ss: Vec<ServiceId> = self.svcs.iter().map(|(k, s)| self.sid(k, s)).filter(|s| l.filters.iter().any(|f| f.matches_service(*s))).collect();
                    for s in ss { self.send(c, EmitBusEvent { cookie: Some(r.cookie), event: BusEvent::ServiceCreated(s) })?; }
                    self.send(c, BusListenerCurrentFinished { cookie: r.cookie })?; } }
            Message::StopBusListener(r) => { let ok = self.lis.get(&r.cookie.0).map(|l| l.owner == c).unwrap_or(false);
                if !ok { return self.send(c, StopBusListenerReply { serial: r.serial, result: StopBusListenerResult::InvalidBusListener }); }
                let was = self.lis.get_mut(&r.cookie.0).unwrap().scope.take().is_some();
                return self.send(c, StopBusListenerReply { serial: r.serial, result: if was { StopBusListenerResult::Ok } else { StopBusListenerResult::NotStarted } }); }
            Message::AbortFunctionCall(r) => { if ver < 16 { return Err(()); } if let Some((b, callee)) = self.conns[&c].calls.get(&r.serial).cloned() { w.abort.push((b, callee)); } }
            Message::RegisterIntrospection(_) => { if ver < 17 { return Err(()); } }
            Message::QueryIntrospection(r) => { if ver < 17 { return Err(()); } return self.send(c, QueryIntrospectionReply { serial: r.serial, result: QueryIntrospectionResult::Unavailable }); }
            Message::QueryIntrospectionReply(_) => return Err(()),
            Message::QueryServiceInfo(r) => { if ver < 17 { return Err(()); } let result = match self.svc_by_cookie(r.cookie.0) { Some((_, s)) => QueryServiceInfoResult::Ok(SerializedValue::serialize(s.info).unwrap()), None => QueryServiceInfoResult::InvalidService }; return self.send(c, QueryServiceInfoReply { serial: r.serial, result }); }
            Message::SubscribeService(r) => { if ver < 18 { return Err(()); } match self.svc_by_cookie(r.service_cookie.0) { Some((k, _)) => { self.send(c, SubscribeServiceReply { serial: r.serial, result: SubscribeServiceResult::Ok })?; self.svcs.get_mut(&k).unwrap().subs.insert(c); } None => return self.send(c, SubscribeServiceReply { serial: r.serial, result: SubscribeServiceResult::InvalidService }) } }
            Message::UnsubscribeService(r) => { if ver < 18 { return Err(()); } if let Some((k, _)) = self.svc_by_cookie(r.service_cookie.0) { self.svcs.get_mut(&k).unwrap().subs.remove(&c); } }
            Message::SubscribeAllEvents(r) => { if ver < 18 { return Err(()); } let Some(serial) = r.serial else { return Err(()) };
                let Some((k, s)) = self.svc_by_cookie(r.service_cookie.0) else { return self.send(c, SubscribeAllEventsReply { serial, result: SubscribeAllEventsResult::InvalidService }) };
                let owner = self.owner_of_svc(&k);
                if !s.info.subscribe_all().unwrap_or(false) || self.conns[&owner].ver < 18 { return self.send(c, SubscribeAllEventsReply { serial, result: SubscribeAllEventsResult::NotSupported }); }
                self.send(c, SubscribeAllEventsReply { serial, result: SubscribeAllEventsResult::Ok })?;
                let sv = self.svcs.get_mut(&k).unwrap(); let was_empty = sv.all.is_empty(); sv.all.insert(c); if was_empty { let _ = self.send(owner, SubscribeAllEvents { serial: None, service_cookie: r.service_cookie }); } }
            Message::UnsubscribeAllEvents(r) => { if ver < 18 { return Err(()); }
                let Some((k, _)) = self.svc_by_cookie(r.service_cookie.0) else { if let Some(serial) = r.serial { return self.send(c, UnsubscribeAllEventsReply { serial, result: UnsubscribeAllEventsResult::InvalidService }); } return Ok(()) };
                let owner = self.owner_of_svc(&k);
                if self.conns[&owner].ver < 18 { if let Some(serial) = r.serial { return self.send(c, UnsubscribeAllEventsReply { serial, result: UnsubscribeAllEventsResult::NotSupported }); } return Ok(()); }
                if let Some(serial) = r.serial { self.send(c, UnsubscribeAllEventsReply { serial, result: UnsubscribeAllEventsResult::Ok })?; }
                let sv = self.svcs.get_mut(&k).unwrap(); let was_empty = sv.all.is_empty(); sv.all.remove(&c); if !was_empty && sv.all.is_empty() { let _ = self.send(owner, UnsubscribeAllEvents { serial: None, service_cookie: r.service_cookie }); } }
            Message::Shutdown(_) => unreachable!("handled by the harness as a disconnect"),
            _ => return Err(()),
        }
        Ok(())
    }
    fn create_service(&mut self, w: &mut Work, c: C, serial: u32, obj_cookie: Uuid, uuid: Uuid, info: Result<ServiceInfo, ()>, fresh: Option<Uuid>) -> R {
        let Some((ou, o)) = self.obj_by_cookie(obj_cookie) else { return self.send(c, CreateServiceReply { serial, result: CreateServiceResult::InvalidObject }) };
        if self.svcs.contains_key(&(ou, uuid)) { return self.send(c, CreateServiceReply { serial, result: CreateServiceResult::DuplicateService }); }
        if o.owner != c { return self.send(c, CreateServiceReply { serial, result: CreateServiceResult::ForeignObject }); }
        let info = info?; let ck = match fresh { Some(k) => k, None => { assert!(!self.conns[&c].alive, "fresh"); Uuid::nil() } };
        self.send(c, CreateServiceReply { serial, result: CreateServiceResult::Ok(ServiceCookie(ck)) })?;
        let s = Svc { cookie: ck, obj_cookie, info, events: BTreeMap::new(), all: BTreeSet::new(), subs: BTreeSet::new(), calls: BTreeSet::new() };
        w.create_svc.push(self.sid(&(ou, uuid), &s)); self.svcs.insert((ou, uuid), s); self.stats.svcs += 1; Ok(())
    }
    fn call(&mut self, w: &mut Work, c: C, serial: u32, cookie: Uuid, function: u32, version: Option<u32>, value: SerializedValue) -> R {
        let Some((k, _)) = self.svc_by_cookie(cookie) else { return self.send(c, CallFunctionReply { serial, result: CallFunctionResult::InvalidService }) };
        let callee = self.owner_of_svc(&k);
        let b = loop { let s = self.next; self.next = self.next.wrapping_add(1); if !self.calls.contains_key(&s) { break s; } };
        if self.conns[&c].calls.contains_key(&serial) { return Err(()); }
        self.calls.insert(b, Call { caller: c, caller_serial: serial, svc: k, aborted: false });
        self.conns.get_mut(&c).unwrap().calls.insert(serial, (b, callee)); self.svcs.get_mut(&k).unwrap().calls.insert(b);
        let res = if self.conns[&callee].ver >= 19 { self.send(callee, CallFunction2 { serial: b, service_cookie: ServiceCookie(cookie), function, version, value }) }
        else { self.send(callee, CallFunction { serial: b, service_cookie: ServiceCookie(cookie), function, value }) };
        if res.is_err() { w.remove_conns.push((callee, false)); }
        Ok(())
    }
}
