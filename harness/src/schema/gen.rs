//! Grammar-directed generator of schema ASTs (size-bounded by a node budget).  Every AST it
//! returns can be rendered into syntactically valid source text by `layout.rs`.
use super::ast::*;
use verif_harness::Rng;

pub const KEYWORDS: [&str; 41] = [
    "import", "struct", "enum", "service", "fn", "event", "const", "newtype", "required", "u8", "i8",
    "u16", "i16", "u32", "i32", "u64", "i64", "string", "uuid", "object_id", "service_id", "bool",
    "f32", "f64", "value", "box", "vec", "bytes", "map", "set", "option", "version", "args", "ok",
    "err", "sender", "receiver", "lifetime", "unit", "result", "fallback",
];
/// keywords of `type_name` that are complete types on their own: an identifier with such a prefix
/// cannot be used as a type reference (DESIGN §5 item 5)
pub const BARE_TYPE_KW: [&str; 19] = PRIMS;

const COMMON: [&str; 25] = [
    "a", "b", "x", "y", "foo", "bar", "Foo", "Bar", "Baz", "my_field", "MyStruct", "FOO_BAR", "x1", "_",
    "_x", "T", "U", "v2", "data", "id", "name", "Self", "self", "match", "__",
];
const KWISH: [&str; 14] = [
    "structure", "enumerate", "values", "u8x", "stringly", "optional", "boxed", "required_x",
    "fallbacks", "imports", "fnord", "eventual", "constant", "unity",
];
/// non-ASCII identifiers restricted to the code points the model lexer classifies (Schema/Lexer.v)
const UNI: [&str; 5] = ["é", "naïve", "λx", "中文", "ß1"];

pub const COMMENT_POOL: [&str; 22] = [
    "", "foo", " indented", "/slash", "!bang", "a\rb", "tab\there", "trailing", "héllo ✓ 中",
    "// nested", "x  y", "#[attr]", "struct X {}", "\u{a0}nbsp", "\tlead tab", "import x;", "}", "{",
    "\"quote", "\\", "x\u{2028}y", "TODO: fix",
];
pub const DOC_POOL: [&str; 30] = [
    "", "Plain text.", " indented code", "# Heading", "[link]", "[`Foo`]", "[x](Foo)", "[x](self::Foo)",
    "[broken](nope::Nope)", "[a][b]", "[b]: Foo", "<http://example.com>", "- [ ] task", "- [x] done",
    "\"smart\" -- quotes...", "| a | b |", "|---|---|", "a\rb [Bar]", "\t[tabbed]", "é[ü](Ö)中",
    "[^1]", "[^1]: note", "~~strike~~", "```", "[Foo::a]", "[ ]", "[x]", "![img](Foo)", "[multi", "line](Foo)",
];

pub struct Gen<'a> {
    pub rng: &'a mut Rng,
    pub budget: i64,
    /// probability (percent) of a comment/doc/attribute in a prelude position
    pub prelude_pct: u64,
    pub kw_idents: bool,
    pub uni_idents: bool,
}

pub fn kw_prefixed(s: &str) -> bool {
    BARE_TYPE_KW.iter().any(|k| s.starts_with(k))
}

impl<'a> Gen<'a> {
    pub fn new(rng: &'a mut Rng, budget: i64) -> Self {
        let prelude_pct = *rng.pick(&[0, 10, 30, 60]);
        let kw_idents = rng.chance(1, 2);
        let uni_idents = rng.chance(1, 4);
        Gen { rng, budget, prelude_pct, kw_idents, uni_idents }
    }

    fn spend(&mut self) -> bool {
        self.budget -= 1;
        self.budget > 0
    }

    pub fn ident(&mut self) -> String {
        let r = self.rng.below(100);
        if self.kw_idents && r < 25 {
            self.rng.pick(&KEYWORDS).to_string()
        } else if self.kw_idents && r < 35 {
            self.rng.pick(&KWISH).to_string()
        } else if self.uni_idents && r < 45 {
            self.rng.pick(&UNI).to_string()
        } else if r < 90 {
            self.rng.pick(&COMMON).to_string()
        } else {
            let mut s = String::new();
            let first = b"abcdefghijklmnopqrstuvwxyzABCDEFGHIJKLMNOPQRSTUVWXYZ_";
            let rest = b"abcdefghijklmnopqrstuvwxyzABCDEFGHIJKLMNOPQRSTUVWXYZ_0123456789";
            s.push(*self.rng.pick(first) as char);
            for _ in 0..self.rng.below(8) {
                s.push(*self.rng.pick(rest) as char);
            }
            s
        }
    }

    /// identifier usable as the first identifier of a type reference
    fn type_ident(&mut self) -> String {
        let s = self.ident();
        if kw_prefixed(&s) {
            format!("T_{s}")
        } else {
            s
        }
    }

    fn comments(&mut self) -> Vec<String> {
        self.texts(&COMMENT_POOL)
    }
    fn docs(&mut self) -> Vec<String> {
        self.texts(&DOC_POOL)
    }
    fn texts(&mut self, pool: &[&str]) -> Vec<String> {
        let mut v = Vec::new();
        while self.rng.below(100) < self.prelude_pct && v.len() < 4 {
            v.push(self.rng.pick(pool).to_string());
        }
        v
    }
    fn attrs(&mut self) -> Vec<Attr> {
        let mut v = Vec::new();
        while self.rng.below(100) < self.prelude_pct / 2 && v.len() < 3 {
            let n = self.rng.below(4);
            v.push(Attr {
                name: if self.rng.chance(1, 2) { "rust".into() } else { self.ident() },
                opts: (0..n)
                    .map(|_| if self.rng.chance(1, 2) { "impl_copy".to_string() } else { self.ident() })
                    .collect(),
            });
        }
        v
    }

    pub fn lit_int(&mut self) -> String {
        match self.rng.below(12) {
            0 => "0".into(),
            1 => "007".into(),
            2 => format!("-{}", self.rng.below(300)),
            3 => "4294967296".into(),
            4 => "18446744073709551616".into(),
            5 => "-0".into(),
            6 => "4294967295".into(),
            _ => format!("{}", self.rng.below(40)),
        }
    }

    fn uuid(&mut self) -> String {
        let hexd = b"0123456789abcdefABCDEF";
        let mut s = String::new();
        for (i, n) in [8, 4, 4, 4, 12].iter().enumerate() {
            if i > 0 {
                s.push('-');
            }
            for _ in 0..*n {
                s.push(*self.rng.pick(hexd) as char);
            }
        }
        s
    }

    fn lit_string(&mut self) -> String {
        let pieces = [
            "a", "b", " ", "xyz", "\\\\", "\\\"", "\\n", "\\t", "\\u{1F600}", "é", "中", "\t", "\r", "'", "//", "///",
            ";", "{", "\u{2028}", "\\x",
            // a backslash directly followed by a multi-byte character (an invalid escape whose span must
            // end on a character boundary)
            "\\é", "\\中", "\\\u{1F600}", "\\ß",
        ];
        let mut s = String::from("\"");
        for _ in 0..self.rng.below(6) {
            s.push_str(*self.rng.pick(&pieces));
        }
        s.push('"');
        s
    }

    fn nref(&mut self, type_pos: bool) -> NamedRef {
        if self.rng.chance(1, 4) {
            let a = if type_pos { self.type_ident() } else { self.ident() };
            NamedRef::Extern(a, self.ident())
        } else {
            NamedRef::Intern(if type_pos { self.type_ident() } else { self.ident() })
        }
    }

    pub fn ty(&mut self, depth: u32) -> Type {
        let leaf = depth >= 4 || !self.spend();
        let r = self.rng.below(100);
        if leaf || r < 45 {
            if self.rng.chance(2, 3) {
                Type::Prim(*self.rng.pick(&PRIMS))
            } else {
                Type::Ref(self.nref(true))
            }
        } else if r < 75 {
            Type::Gen1(*self.rng.pick(&GEN1), Box::new(self.ty(depth + 1)))
        } else if r < 83 {
            Type::Map(Box::new(self.ty(depth + 1)), Box::new(self.ty(depth + 1)))
        } else if r < 91 {
            Type::Result(Box::new(self.ty(depth + 1)), Box::new(self.ty(depth + 1)))
        } else {
            let len = if self.rng.chance(2, 3) { ArrayLen::Lit(self.lit_int()) } else { ArrayLen::Ref(self.nref(false)) };
            Type::Array(Box::new(self.ty(depth + 1)), len)
        }
    }

    fn fallback(&mut self) -> Option<Fallback> {
        if self.rng.chance(1, 4) {
            Some(Fallback { comment: self.comments(), doc: self.docs(), name: self.ident() })
        } else {
            None
        }
    }

    fn fields(&mut self) -> Vec<Field> {
        let n = *self.rng.pick(&[0u64, 0, 1, 2, 3, 5]);
        let mut v = Vec::new();
        for _ in 0..n {
            if !self.spend() {
                break;
            }
            let req = self.rng.chance(1, 3);
            let name = if self.kw_idents && self.rng.chance(1, 8) { "required".to_string() } else { self.ident() };
            v.push(Field { comment: self.comments(), doc: self.docs(), req, name, id: self.lit_int(), ty: self.ty(0) });
        }
        v
    }

    fn vars(&mut self) -> Vec<Variant> {
        let n = *self.rng.pick(&[0u64, 0, 1, 2, 3, 5]);
        let mut v = Vec::new();
        for _ in 0..n {
            if !self.spend() {
                break;
            }
            let ty = if self.rng.chance(1, 2) { Some(self.ty(0)) } else { None };
            v.push(Variant { comment: self.comments(), doc: self.docs(), name: self.ident(), id: self.lit_int(), ty });
        }
        v
    }

    fn tyinl(&mut self) -> TyInl {
        match self.rng.below(5) {
            0 => TyInl::Struct(InlStruct { doc: self.docs(), attrs: self.attrs(), fields: self.fields(), fallback: self.fallback() }),
            1 => TyInl::Enum(InlEnum { doc: self.docs(), attrs: self.attrs(), vars: self.vars(), fallback: self.fallback() }),
            _ => TyInl::Ty(self.ty(0)),
        }
    }

    fn part(&mut self) -> Option<Part> {
        if self.rng.chance(1, 2) {
            let comment = if self.rng.chance(1, 3) { self.comments() } else { Vec::new() };
            Some(Part { comment, ty: self.tyinl() })
        } else {
            None
        }
    }

    fn service(&mut self) -> ServiceDef {
        let mut items = Vec::new();
        let n = *self.rng.pick(&[0u64, 1, 2, 3, 6]);
        for _ in 0..n {
            if !self.spend() {
                break;
            }
            if self.rng.chance(3, 5) {
                items.push(Item::Fn(FnDef {
                    comment: self.comments(),
                    doc: self.docs(),
                    name: self.ident(),
                    id: self.lit_int(),
                    args: self.part(),
                    ok: self.part(),
                    err: self.part(),
                }));
            } else {
                let ty = if self.rng.chance(1, 2) { Some(self.tyinl()) } else { None };
                items.push(Item::Ev(EvDef { comment: self.comments(), doc: self.docs(), name: self.ident(), id: self.lit_int(), ty }));
            }
        }
        ServiceDef {
            comment: self.comments(),
            doc: self.docs(),
            name: self.ident(),
            uuid_comment: self.comments(),
            uuid: self.uuid(),
            ver_comment: self.comments(),
            ver: self.lit_int(),
            items,
            fn_fb: self.fallback(),
            ev_fb: self.fallback(),
        }
    }

    fn def(&mut self) -> Def {
        match self.rng.below(10) {
            0..=2 => Def::Struct(StructDef {
                comment: self.comments(),
                doc: self.docs(),
                attrs: self.attrs(),
                name: self.ident(),
                fields: self.fields(),
                fallback: self.fallback(),
            }),
            3..=4 => Def::Enum(EnumDef {
                comment: self.comments(),
                doc: self.docs(),
                attrs: self.attrs(),
                name: self.ident(),
                vars: self.vars(),
                fallback: self.fallback(),
            }),
            5..=6 => Def::Service(self.service()),
            7..=8 => {
                let ty = *self.rng.pick(&CONST_TYPES);
                let val = match ty {
                    "string" => self.lit_string(),
                    "uuid" => self.uuid(),
                    _ => self.lit_int(),
                };
                Def::Const(ConstDef { comment: self.comments(), doc: self.docs(), name: self.ident(), ty, val })
            }
            _ => Def::Newtype(NewtypeDef {
                comment: self.comments(),
                doc: self.docs(),
                attrs: self.attrs(),
                name: self.ident(),
                ty: self.ty(0),
            }),
        }
    }

    pub fn schema(&mut self) -> Schema {
        // the grammar attaches top comments to the schema only when a `//!` line follows them
        let doc = if self.rng.chance(1, 3) {
            let mut d = self.docs();
            if d.is_empty() {
                d.push(self.rng.pick(&DOC_POOL).to_string());
            }
            d
        } else {
            Vec::new()
        };
        let comment = if doc.is_empty() { Vec::new() } else { self.comments() };
        let mut imports = Vec::new();
        for _ in 0..*self.rng.pick(&[0u64, 0, 1, 2, 4]) {
            let name = if self.rng.chance(1, 2) { self.rng.pick(&["dep_a", "dep_b", "zeta", "Alpha"]).to_string() } else { self.ident() };
            imports.push(Import { comment: self.comments(), name });
        }
        let mut defs = Vec::new();
        let n = *self.rng.pick(&[0u64, 1, 2, 3, 5, 8]);
        for _ in 0..n {
            if !self.spend() {
                break;
            }
            defs.push(self.def());
        }
        Schema { comment, doc, imports, defs }
    }
}

// ------------------------------------------------------------------ C17: name-directed generation
//
// The front end looks names up that come from the source text: the schema component and the item
// path of doc links (`LinkResolver`), the schema and the identifier of external references
// (`dep::Type` in type, key and array-length position), import names.  The functions below draw
// such names from a `World`: the schemas a generated main schema can talk about, each in a known
// *situation*, with the names they define (when they resolve).

/// how a schema name behaves as the target of a doc link or of an external reference
pub const SITUATIONS: [&str; 7] = ["missing", "unreadable", "syntax_error", "resolves", "not_imported", "self", "keyword"];
/// markdown shapes that make comrak produce (or deliberately not produce) a `Link` node
pub const LINK_FORMS: [&str; 16] = [
    "inline", "inline_title", "inline_angle", "ref_full", "ref_collapsed", "ref_shortcut", "broken_shortcut",
    "broken_code", "broken_full", "broken_full_code", "broken_collapsed", "autolink", "image", "nested", "block",
    "multiline",
];
pub type Tally = std::collections::BTreeMap<String, u64>;

fn bump(t: &mut Tally, k: String) {
    *t.entry(k).or_insert(0) += 1;
}

/// the names a schema defines, as doc-link item paths and by kind
#[derive(Clone, Default, Debug)]
pub struct Names {
    /// item paths that resolve (`Foo`, `Foo::a`, `Svc::f::args::x`, ...)
    pub paths: Vec<String>,
    /// paths one step off a definition: into a field/variant/const/newtype, a part that is not an
    /// inline type, an invalid function/event part, an undefined member
    pub near: Vec<String>,
    /// struct, enum and newtype names with the index of their definition
    pub types: Vec<(String, usize)>,
    /// integer constants
    pub consts: Vec<String>,
    /// services and string/uuid constants (never right in type or array-length position)
    pub others: Vec<String>,
}

pub fn names_of(a: &Schema) -> Names {
    fn fields(n: &mut Names, base: &str, fs: &[Field], fb: &Option<Fallback>) {
        for f in fs {
            n.paths.push(format!("{base}::{}", f.name));
            n.near.push(format!("{base}::{}::x", f.name));
        }
        if let Some(f) = fb {
            n.paths.push(format!("{base}::{}", f.name));
        }
        n.near.push(format!("{base}::nope"));
    }
    fn vars(n: &mut Names, base: &str, vs: &[Variant], fb: &Option<Fallback>) {
        for v in vs {
            n.paths.push(format!("{base}::{}", v.name));
            n.near.push(format!("{base}::{}::x", v.name));
        }
        if let Some(f) = fb {
            n.paths.push(format!("{base}::{}", f.name));
        }
        n.near.push(format!("{base}::Nope"));
    }
    fn inl(n: &mut Names, base: &str, t: Option<&TyInl>) {
        match t {
            None | Some(TyInl::Ty(_)) => {
                n.near.push(base.to_owned());
                n.near.push(format!("{base}::x"));
            }
            Some(TyInl::Struct(s)) => {
                n.paths.push(base.to_owned());
                fields(n, base, &s.fields, &s.fallback);
            }
            Some(TyInl::Enum(s)) => {
                n.paths.push(base.to_owned());
                vars(n, base, &s.vars, &s.fallback);
            }
        }
    }
    let mut n = Names::default();
    for (i, d) in a.defs.iter().enumerate() {
        match d {
            Def::Struct(s) => {
                n.paths.push(s.name.clone());
                n.types.push((s.name.clone(), i));
                fields(&mut n, &s.name, &s.fields, &s.fallback);
            }
            Def::Enum(s) => {
                n.paths.push(s.name.clone());
                n.types.push((s.name.clone(), i));
                vars(&mut n, &s.name, &s.vars, &s.fallback);
            }
            Def::Service(s) => {
                n.paths.push(s.name.clone());
                n.others.push(s.name.clone());
                n.near.push(format!("{}::nope", s.name));
                for it in &s.items {
                    match it {
                        Item::Fn(f) => {
                            let b = format!("{}::{}", s.name, f.name);
                            n.paths.push(b.clone());
                            n.near.push(format!("{b}::bogus"));
                            inl(&mut n, &format!("{b}::args"), f.args.as_ref().map(|p| &p.ty));
                            inl(&mut n, &format!("{b}::ok"), f.ok.as_ref().map(|p| &p.ty));
                            inl(&mut n, &format!("{b}::err"), f.err.as_ref().map(|p| &p.ty));
                        }
                        Item::Ev(e) => {
                            let b = format!("{}::{}", s.name, e.name);
                            n.paths.push(b.clone());
                            n.near.push(format!("{b}::ok"));
                            inl(&mut n, &format!("{b}::args"), e.ty.as_ref());
                        }
                    }
                }
                for f in [&s.fn_fb, &s.ev_fb].into_iter().flatten() {
                    n.paths.push(format!("{}::{}", s.name, f.name));
                    n.near.push(format!("{}::{}::args", s.name, f.name));
                }
            }
            Def::Const(c) => {
                n.paths.push(c.name.clone());
                n.near.push(format!("{}::x", c.name));
                if c.ty == "string" || c.ty == "uuid" {
                    n.others.push(c.name.clone());
                } else {
                    n.consts.push(c.name.clone());
                }
            }
            Def::Newtype(t) => {
                n.paths.push(t.name.clone());
                n.near.push(format!("{}::x", t.name));
                n.types.push((t.name.clone(), i));
            }
        }
    }
    n
}

#[derive(Clone, Debug)]
pub struct Target {
    pub name: String,
    /// one of SITUATIONS
    pub situation: &'static str,
    pub names: Names,
}

#[derive(Clone, Debug, Default)]
pub struct World {
    pub targets: Vec<Target>,
}

impl World {
    /// a situation that occurs in this world, uniformly; then one of its targets
    pub fn pick<'w>(&'w self, rng: &mut Rng) -> &'w Target {
        let present: Vec<&'static str> = SITUATIONS.iter().copied().filter(|s| self.targets.iter().any(|t| t.situation == *s)).collect();
        let s = *rng.pick(&present);
        let ts: Vec<&Target> = self.targets.iter().filter(|t| t.situation == s).collect();
        *rng.pick(&ts)
    }
    pub fn own(&self) -> &Target {
        self.targets.iter().find(|t| t.situation == "self").expect("a world has its own schema")
    }
}

const GENERIC_ITEMS: [&str; 16] = [
    "Foo", "Foo::a", "Bar::A", "Svc", "Svc::f", "Svc::f::args", "Svc::f::args::x", "Config", "Backend::configure", "N",
    "Id", "nope", "Foo::a::b", "struct", "self", "Config::host::x",
];

fn mangle(rng: &mut Rng, p: &str) -> String {
    match rng.below(5) {
        0 => format!("{p}x"),
        1 => format!("{p}::zz"),
        2 => {
            let mut s = p.to_owned();
            s.pop();
            if s.is_empty() || s.ends_with(':') {
                format!("{p}_")
            } else {
                s
            }
        }
        3 => match p.rsplit_once("::") {
            Some((a, b)) => format!("{b}::{a}"),
            None => format!("{p}::{p}"),
        },
        _ => {
            // flip the case of the first letter of the last component
            let (head, last) = match p.rsplit_once("::") {
                Some((a, b)) => (format!("{a}::"), b),
                None => (String::new(), p),
            };
            let mut cs = last.chars();
            match cs.next() {
                Some(c) if c.is_ascii_lowercase() => format!("{head}{}{}", c.to_ascii_uppercase(), cs.as_str()),
                Some(c) if c.is_ascii_uppercase() => format!("{head}{}{}", c.to_ascii_lowercase(), cs.as_str()),
                _ => format!("{head}{last}9"),
            }
        }
    }
}

/// a doc-link target path into `t`; tallies `<path form>|<item class>`
pub fn link_url(rng: &mut Rng, t: &Target, tally: &mut Tally) -> String {
    let n = &t.names;
    let r = rng.below(100);
    let (item, cls) = if r < 8 {
        (String::new(), "schema_only")
    } else if !n.paths.is_empty() && r < 58 {
        (rng.pick(&n.paths).clone(), "defined")
    } else if !n.near.is_empty() && r < 72 {
        (rng.pick(&n.near).clone(), "near_miss")
    } else if !n.paths.is_empty() && r < 84 {
        let p = rng.pick(&n.paths).clone();
        (mangle(rng, &p), "mangled")
    } else {
        (rng.pick(&GENERIC_ITEMS).to_string(), "generic")
    };
    let s = t.name.as_str();
    let join = |pre: &str, item: &str| -> String {
        if item.is_empty() {
            pre.trim_end_matches("::").to_owned()
        } else {
            format!("{pre}{item}")
        }
    };
    let r = rng.below(100);
    let (url, form) = if t.situation == "self" {
        if r < 25 {
            (join("self::", &item), "self_kw")
        } else if r < 40 {
            (join("::self::", &item), "scoped_self_kw")
        } else if r < 70 {
            (if item.is_empty() { "self".to_owned() } else { item.clone() }, "bare")
        } else if r < 85 {
            (join(&format!("::{s}::"), &item), "scoped_own_name")
        } else if r < 90 {
            (join(&format!("{s}::"), &item), "own_name_unscoped")
        } else {
            (format!("::{}::{}", rng.pick(&["", "self:", ":self", "self::self"]), item), "malformed")
        }
    } else if r < 65 {
        (join(&format!("::{s}::"), &item), "scoped")
    } else if r < 75 {
        (join(&format!("{s}::"), &item), "unscoped")
    } else if r < 80 {
        (format!("::{s}::{item}::"), "malformed")
    } else if r < 84 {
        (format!(":::{s}::{item}"), "malformed")
    } else if r < 87 {
        (format!("::{s}:{item}"), "malformed")
    } else if r < 90 {
        (format!("::{s}::::{item}"), "malformed")
    } else if r < 95 {
        (join(&format!("::{s}::self::"), &item), "scoped_then_self")
    } else {
        (join(&format!("::self::{s}::"), &item), "self_then_schema")
    };
    bump(tally, format!("{form}|{cls}"));
    url
}

const LINK_TEXT: [&str; 10] = ["text", "x", "é", "`code`", "**b**", "a b", "Foo", "中 文", "t\\]t", "1"];
const LINK_LABEL: [&str; 7] = ["lbl", "L1", "é", "Foo", "a b", "REF", "ü1"];
const LINK_PRE: [&str; 14] = ["", "", "", "", "See ", "é", "中", "\t", "a\r", "\u{a0}", "*", "~~", "\\", "(see "];
const LINK_POST: [&str; 10] = ["", "", "", ".", " é", "中", "\r", "*", "~~", ")"];

/// the doc lines (one `///` line each) of one link of shape `form` to `url`
pub fn link_lines(rng: &mut Rng, form: &str, url: &str, url2: &str) -> Vec<String> {
    let text = *rng.pick(&LINK_TEXT);
    let lbl = *rng.pick(&LINK_LABEL);
    let pre = *rng.pick(&LINK_PRE);
    let post = *rng.pick(&LINK_POST);
    let one = |s: String| vec![format!("{pre}{s}{post}")];
    match form {
        "inline" => one(format!("[{text}]({url})")),
        "inline_title" => one(format!("[{text}]({url} {})", rng.pick(&["\"title\"", "'t'", "(t)", "\"é\""]))),
        "inline_angle" => one(format!("[{text}](<{url}>)")),
        "ref_full" => vec![format!("{pre}[{text}][{lbl}]{post}"), String::new(), format!("[{lbl}]: {url}")],
        "ref_collapsed" => vec![format!("{pre}[{lbl}][]{post}"), String::new(), format!("[{lbl}]: <{url}>")],
        "ref_shortcut" => {
            let def = match rng.below(3) {
                0 => format!("[{lbl}]: {url}"),
                1 => format!("[{lbl}]: {url} \"title\""),
                _ => format!("  [{lbl}]:   {url}"),
            };
            if rng.chance(1, 2) {
                vec![format!("{pre}[{lbl}]{post}"), String::new(), def]
            } else {
                vec![def, String::new(), format!("{pre}[{lbl}]{post}")]
            }
        }
        "broken_shortcut" => one(format!("[{url}]")),
        "broken_code" => one(if rng.chance(1, 12) {
            // `convert_broken_link` slices the label between its back-ticks
            format!("[{}]", rng.pick(&["`", "``", "` `", "`é`", "`::`", "`x`", "`self`", "`\u{a0}`", "`a``"]))
        } else {
            format!("[`{url}`]")
        }),
        "broken_full" => one(format!("[{text}][{url}]")),
        "broken_full_code" => one(format!("[{text}][`{url}`]")),
        "broken_collapsed" => one(if rng.chance(1, 2) { format!("[{url}][]") } else { format!("[`{url}`][]") }),
        "autolink" => one(match rng.below(3) {
            0 => format!("<{url}>"),
            1 => format!("<{}>", url.trim_start_matches(':')),
            _ => format!("<{}>", url.trim_start_matches(':').replacen("::", ":", 1)),
        }),
        "image" => one(format!("![{text}]({url})")),
        "nested" => one(match rng.below(3) {
            0 => format!("[![{text}]({url2})]({url})"),
            1 => format!("[[`{url2}`]]({url})"),
            _ => format!("[{text} [`{url2}`]][`{url}`]"),
        }),
        "block" => match rng.below(8) {
            0 => vec![format!("- [{text}]({url})"), format!("  [`{url2}`]")],
            1 => vec![format!("> [`{url}`]"), format!("> [{text}]({url2})")],
            2 => vec![format!("# [`{url}`]")],
            3 => vec![format!("- [ ] [{url}]"), format!("- [x] [{text}]({url2})")],
            4 => vec!["| a | b |".into(), "|---|---|".into(), format!("| [{text}]({url}) | [`{url2}`] |")],
            5 => vec![format!("t[^1]"), String::new(), format!("[^1]: [`{url}`]")],
            6 => vec![format!("1. [{text}][{lbl}]"), String::new(), format!("[{lbl}]: {url}")],
            _ => vec![format!("    [{text}]({url})"), "```".into(), format!("[`{url}`]"), "```".into(), format!("`[x]({url2})`")],
        },
        _ => match rng.below(6) {
            0 => vec![format!("{pre}[multi"), format!("line]({url}){post}")],
            1 => vec![format!("{pre}[{text}]("), format!("{url}){post}")],
            2 => vec![format!("{pre}[{text}]["), format!("`{url}`]{post}")],
            3 => vec![format!("a\r[{text}]({url})\rb [`{url2}`]")],
            4 => vec![format!("[te\rxt]({url})")],
            _ => vec![format!("[`{url}`"), "]".into(), format!("[`{url2}`]")],
        },
    }
}

/// every doc list of the schema, mutable
pub fn for_each_doc(a: &mut Schema, f: &mut dyn FnMut(&mut Vec<String>)) {
    fn fields(fs: &mut [Field], fb: &mut Option<Fallback>, f: &mut dyn FnMut(&mut Vec<String>)) {
        for x in fs {
            f(&mut x.doc);
        }
        if let Some(x) = fb {
            f(&mut x.doc);
        }
    }
    fn vars(vs: &mut [Variant], fb: &mut Option<Fallback>, f: &mut dyn FnMut(&mut Vec<String>)) {
        for x in vs {
            f(&mut x.doc);
        }
        if let Some(x) = fb {
            f(&mut x.doc);
        }
    }
    fn inl(t: &mut TyInl, f: &mut dyn FnMut(&mut Vec<String>)) {
        match t {
            TyInl::Ty(_) => {}
            TyInl::Struct(s) => {
                f(&mut s.doc);
                fields(&mut s.fields, &mut s.fallback, f);
            }
            TyInl::Enum(s) => {
                f(&mut s.doc);
                vars(&mut s.vars, &mut s.fallback, f);
            }
        }
    }
    for d in &mut a.defs {
        match d {
            Def::Struct(s) => {
                f(&mut s.doc);
                fields(&mut s.fields, &mut s.fallback, f);
            }
            Def::Enum(s) => {
                f(&mut s.doc);
                vars(&mut s.vars, &mut s.fallback, f);
            }
            Def::Service(s) => {
                f(&mut s.doc);
                for i in &mut s.items {
                    match i {
                        Item::Fn(x) => {
                            f(&mut x.doc);
                            for p in [&mut x.args, &mut x.ok, &mut x.err].into_iter().flatten() {
                                inl(&mut p.ty, f);
                            }
                        }
                        Item::Ev(x) => {
                            f(&mut x.doc);
                            if let Some(t) = &mut x.ty {
                                inl(t, f);
                            }
                        }
                    }
                }
                for x in [&mut s.fn_fb, &mut s.ev_fb].into_iter().flatten() {
                    f(&mut x.doc);
                }
            }
            Def::Const(s) => f(&mut s.doc),
            Def::Newtype(s) => f(&mut s.doc),
        }
    }
}

/// doc comments with links into the world: `matrix` counts `<link form>|<situation>`, `paths`
/// counts `<path form>|<item class>`
pub fn inject_link_docs(rng: &mut Rng, a: &mut Schema, w: &World, matrix: &mut Tally, paths: &mut Tally) {
    let mut mk = |rng: &mut Rng| -> Vec<String> {
        let mut v: Vec<String> = Vec::new();
        for _ in 0..1 + rng.below(3) {
            let t = w.pick(rng);
            let url = link_url(rng, t, paths);
            let t2 = w.pick(rng);
            let url2 = link_url(rng, t2, paths);
            let form = *rng.pick(&LINK_FORMS);
            bump(matrix, format!("{form}|{}", t.situation));
            if !v.is_empty() && rng.chance(1, 2) {
                v.push(String::new());
            }
            v.extend(link_lines(rng, form, &url, &url2));
            if rng.chance(1, 5) {
                v.push(rng.pick(&DOC_POOL).to_string());
            }
        }
        v
    };
    // (schema comments exist only together with schema docs, see `schema()`: replacing or adding
    // `//!` lines keeps the text valid)
    if rng.chance(1, 2) {
        a.doc = mk(rng);
    }
    let mut rng2 = rng.clone();
    for_each_doc(a, &mut |d: &mut Vec<String>| {
        if rng2.chance(2, 3) {
            *d = mk(&mut rng2);
        }
    });
    *rng = rng2;
}

/// every type of the schema, mutable, outermost first: `f(type, index of the definition, key position)`
pub fn for_each_type(a: &mut Schema, f: &mut dyn FnMut(&mut Type, usize, bool)) {
    fn ty(t: &mut Type, i: usize, key: bool, f: &mut dyn FnMut(&mut Type, usize, bool)) {
        f(t, i, key);
        match t {
            Type::Prim(_) | Type::Ref(_) => {}
            Type::Gen1(g, x) => {
                let k = *g == "set";
                ty(x, i, k, f)
            }
            Type::Map(k, v) => {
                ty(k, i, true, f);
                ty(v, i, false, f);
            }
            Type::Result(a, b) => {
                ty(a, i, false, f);
                ty(b, i, false, f);
            }
            Type::Array(x, _) => ty(x, i, false, f),
        }
    }
    fn fields(fs: &mut [Field], i: usize, f: &mut dyn FnMut(&mut Type, usize, bool)) {
        for x in fs {
            ty(&mut x.ty, i, false, f);
        }
    }
    fn vars(vs: &mut [Variant], i: usize, f: &mut dyn FnMut(&mut Type, usize, bool)) {
        for x in vs {
            if let Some(t) = &mut x.ty {
                ty(t, i, false, f);
            }
        }
    }
    fn inl(t: &mut TyInl, i: usize, f: &mut dyn FnMut(&mut Type, usize, bool)) {
        match t {
            TyInl::Ty(t) => ty(t, i, false, f),
            TyInl::Struct(s) => fields(&mut s.fields, i, f),
            TyInl::Enum(s) => vars(&mut s.vars, i, f),
        }
    }
    for (i, d) in a.defs.iter_mut().enumerate() {
        match d {
            Def::Struct(s) => fields(&mut s.fields, i, f),
            Def::Enum(s) => vars(&mut s.vars, i, f),
            Def::Service(s) => {
                for it in &mut s.items {
                    match it {
                        Item::Fn(x) => {
                            for p in [&mut x.args, &mut x.ok, &mut x.err].into_iter().flatten() {
                                inl(&mut p.ty, usize::MAX, f);
                            }
                        }
                        Item::Ev(x) => {
                            if let Some(t) = &mut x.ty {
                                inl(t, usize::MAX, f);
                            }
                        }
                    }
                }
            }
            Def::Const(_) => {}
            Def::Newtype(n) => ty(&mut n.ty, i, false, f),
        }
    }
}

/// Point named references (type, key and array-length position) at names of the world: the
/// schema part is a target in a known situation, the identifier is of the right kind, of a wrong
/// kind, or undefined there.  `clean`: only references that resolve without a diagnostic, to own
/// definitions made earlier (no recursion) or to resolving imports.
/// Tallies `<position>|<situation>|<identifier class>`.
pub fn retarget_refs(rng: &mut Rng, a: &mut Schema, w: &World, clean: bool, tally: &mut Tally) {
    let mut rng2 = rng.clone();
    let mut pick_ref = |rng: &mut Rng, type_pos: bool, def: usize| -> Option<NamedRef> {
        let t = if clean {
            let res: Vec<&Target> = w.targets.iter().filter(|t| t.situation == "resolves").collect();
            if !res.is_empty() && rng.chance(1, 2) {
                *rng.pick(&res)
            } else {
                w.own()
            }
        } else if rng.chance(1, 3) {
            w.own()
        } else {
            w.pick(rng)
        };
        let own = t.situation == "self";
        let n = &t.names;
        let right: Vec<String> = if type_pos {
            n.types.iter().filter(|(_, i)| !(clean && own) || *i < def).map(|(s, _)| s.clone()).collect()
        } else {
            n.consts.clone()
        };
        let wrong: Vec<String> = if type_pos {
            n.consts.iter().chain(n.others.iter()).cloned().collect()
        } else {
            n.types.iter().map(|(s, _)| s.clone()).chain(n.others.iter().cloned()).collect()
        };
        let r = rng.below(100);
        let (id, cls) = if !right.is_empty() && (clean || r < 55) {
            (rng.pick(&right).clone(), "right_kind")
        } else if clean {
            return None;
        } else if !wrong.is_empty() && r < 72 {
            (rng.pick(&wrong).clone(), "wrong_kind")
        } else if !right.is_empty() && r < 85 {
            let p = rng.pick(&right).clone();
            (format!("{p}x"), "undefined")
        } else {
            (rng.pick(&["Nope", "Foo", "Bar", "N", "Id", "Config", "x"]).to_string(), "undefined")
        };
        let r = if own && (clean || rng.chance(4, 5)) { NamedRef::Intern(id) } else { NamedRef::Extern(t.name.clone(), id) };
        let first = match &r {
            NamedRef::Intern(a) => a,
            NamedRef::Extern(a, _) => a,
        };
        if type_pos && kw_prefixed(first) {
            return None;
        }
        bump(tally, format!("{}|{}|{}", if type_pos { "type" } else { "array_len" }, t.situation, cls));
        Some(r)
    };
    for_each_type(a, &mut |t: &mut Type, def: usize, key: bool| {
        let rng = &mut rng2;
        match t {
            Type::Ref(_) => {
                if clean || rng.chance(3, 5) {
                    match pick_ref(rng, true, def) {
                        Some(r) => *t = Type::Ref(r),
                        None if clean => *t = Type::Prim(*rng.pick(&["u32", "string", "uuid"])),
                        None => {}
                    }
                }
            }
            Type::Prim(_) if !clean && rng.chance(1, 8) => {
                if let Some(r) = pick_ref(rng, true, def) {
                    *t = Type::Ref(r);
                }
            }
            Type::Array(_, len) => {
                let redo = match len {
                    ArrayLen::Ref(_) => clean || rng.chance(3, 5),
                    ArrayLen::Lit(_) => rng.chance(1, 4),
                };
                if redo {
                    match pick_ref(rng, false, def) {
                        Some(r) => *len = ArrayLen::Ref(r),
                        None if clean => *len = ArrayLen::Lit("3".into()),
                        None => {}
                    }
                } else if clean {
                    *len = ArrayLen::Lit("3".into());
                }
            }
            _ => {}
        }
        if clean && key {
            // keys must be key types
            match t {
                Type::Prim("u8" | "i8" | "u16" | "i16" | "u32" | "i32" | "u64" | "i64" | "string" | "uuid") => {}
                _ => *t = Type::Prim(*rng.pick(&["u32", "string", "uuid", "i64"])),
            }
        }
    });
    *rng = rng2;
}

/// Rename and renumber so that the schema has no diagnostics of its own (names unique and in the
/// recommended case, ids 1.., no empty enum, constants in range).  References are left to
/// `retarget_refs(.., clean = true)`.
pub fn make_clean(rng: &mut Rng, a: &mut Schema) {
    fn fields(fs: &mut [Field], fb: &mut Option<Fallback>) {
        for (j, f) in fs.iter_mut().enumerate() {
            f.name = format!("f{j}");
            f.id = format!("{}", j + 1);
        }
        if let Some(f) = fb {
            f.name = "rest".into();
        }
    }
    fn vars(vs: &mut Vec<Variant>, fb: &mut Option<Fallback>) {
        if vs.is_empty() {
            vs.push(Variant { comment: Vec::new(), doc: Vec::new(), name: String::new(), id: String::new(), ty: None });
        }
        for (j, v) in vs.iter_mut().enumerate() {
            v.name = format!("V{j}");
            v.id = format!("{}", j + 1);
        }
        if let Some(f) = fb {
            f.name = "Rest".into();
        }
    }
    fn inl(t: &mut TyInl) {
        match t {
            TyInl::Ty(_) => {}
            TyInl::Struct(s) => {
                s.attrs.clear();
                fields(&mut s.fields, &mut s.fallback)
            }
            TyInl::Enum(s) => {
                s.attrs.clear();
                vars(&mut s.vars, &mut s.fallback)
            }
        }
    }
    a.imports.clear();
    for (i, d) in a.defs.iter_mut().enumerate() {
        match d {
            Def::Struct(s) => {
                s.name = format!("Ty{i}");
                s.attrs.clear();
                fields(&mut s.fields, &mut s.fallback);
            }
            Def::Enum(s) => {
                s.name = format!("Ty{i}");
                s.attrs.clear();
                vars(&mut s.vars, &mut s.fallback);
            }
            Def::Service(s) => {
                s.name = format!("Svc{i}");
                s.ver = format!("{}", 1 + rng.below(3));
                let (mut nf, mut ne) = (0, 0);
                for it in &mut s.items {
                    match it {
                        Item::Fn(f) => {
                            nf += 1;
                            f.name = format!("m{nf}");
                            f.id = format!("{nf}");
                            for p in [&mut f.args, &mut f.ok, &mut f.err].into_iter().flatten() {
                                inl(&mut p.ty);
                            }
                        }
                        Item::Ev(e) => {
                            ne += 1;
                            e.name = format!("e{ne}");
                            e.id = format!("{ne}");
                            if let Some(t) = &mut e.ty {
                                inl(t);
                            }
                        }
                    }
                }
                if let Some(f) = &mut s.fn_fb {
                    f.name = "other_fn".into();
                }
                if let Some(f) = &mut s.ev_fb {
                    f.name = "other_ev".into();
                }
            }
            Def::Const(c) => {
                c.name = format!("CONST_{i}");
                match c.ty {
                    "string" => c.val = rng.pick(&["\"s\"", "\"\"", "\"a\\\\b\\\"c\"", "\"é\""]).to_string(),
                    "uuid" => {}
                    _ => c.val = format!("{}", 1 + rng.below(100)),
                }
            }
            Def::Newtype(n) => {
                n.name = format!("Ty{i}");
                n.attrs.clear();
            }
        }
    }
}
