//! Grammar-directed generator of schema ASTs (size-bounded by a node budget).  Every AST it
//! returns can be rendered into syntactically valid source text by `layout.rs`.
use super::ast::*;
use verif_harness::Rng;

pub const KEYWORDS: [&str; 41] = [
    "import", "struct", "enum", "service", "fn", "event", "const", "newtype", "required", "u8", "i8",
    "u16", "i16", "u32", "i32", "u64", "i64", "string", "uuid", "object_id", "service_id", "bool",
    "f32", "f64", "value", "box", "vec", "bytes", "map", "set", "option", "version", "args", "ok",
    "err", "sender", "receiver", "lifetime", "unit", "result", "fallback",
];
/// keywords of `type_name` that are complete types on their own: an identifier with such a prefix
/// cannot be used as a type reference (DESIGN §5 item 5)
pub const BARE_TYPE_KW: [&str; 19] = PRIMS;

const COMMON: [&str; 25] = [
    "a", "b", "x", "y", "foo", "bar", "Foo", "Bar", "Baz", "my_field", "MyStruct", "FOO_BAR", "x1", "_",
    "_x", "T", "U", "v2", "data", "id", "name", "Self", "self", "match", "__",
];
const KWISH: [&str; 14] = [
    "structure", "enumerate", "values", "u8x", "stringly", "optional", "boxed", "required_x",
    "fallbacks", "imports", "fnord", "eventual", "constant", "unity",
];
/// non-ASCII identifiers restricted to the code points the model lexer classifies (Schema/Lexer.v)
const UNI: [&str; 5] = ["é", "naïve", "λx", "中文", "ß1"];

pub const COMMENT_POOL: [&str; 22] = [
    "", "foo", " indented", "/slash", "!bang", "a\rb", "tab\there", "trailing", "héllo ✓ 中",
    "// nested", "x  y", "#[attr]", "struct X {}", "\u{a0}nbsp", "\tlead tab", "import x;", "}", "{",
    "\"quote", "\\", "x\u{2028}y", "TODO: fix",
];
pub const DOC_POOL: [&str; 30] = [
    "", "Plain text.", " indented code", "# Heading", "[link]", "[`Foo`]", "[x](Foo)", "[x](self::Foo)",
    "[broken](nope::Nope)", "[a][b]", "[b]: Foo", "<http://example.com>", "- [ ] task", "- [x] done",
    "\"smart\" -- quotes...", "| a | b |", "|---|---|", "a\rb [Bar]", "\t[tabbed]", "é[ü](Ö)中",
    "[^1]", "[^1]: note", "~~strike~~", "```", "[Foo::a]", "[ ]", "[x]", "![img](Foo)", "[multi", "line](Foo)",
];

pub struct Gen<'a> {
    pub rng: &'a mut Rng,
    pub budget: i64,
    /// probability (percent) of a comment/doc/attribute in a prelude position
    pub prelude_pct: u64,
    pub kw_idents: bool,
    pub uni_idents: bool,
}

pub fn kw_prefixed(s: &str) -> bool {
    BARE_TYPE_KW.iter().any(|k| s.starts_with(k))
}

impl<'a> Gen<'a> {
    pub fn new(rng: &'a mut Rng, budget: i64) -> Self {
        let prelude_pct = *rng.pick(&[0, 10, 30, 60]);
        let kw_idents = rng.chance(1, 2);
        let uni_idents = rng.chance(1, 4);
        Gen { rng, budget, prelude_pct, kw_idents, uni_idents }
    }

    fn spend(&mut self) -> bool {
        self.budget -= 1;
        self.budget > 0
    }

    pub fn ident(&mut self) -> String {
        let r = self.rng.below(100);
        if self.kw_idents && r < 25 {
            self.rng.pick(&KEYWORDS).to_string()
        } else if self.kw_idents && r < 35 {
            self.rng.pick(&KWISH).to_string()
        } else if self.uni_idents && r < 45 {
            self.rng.pick(&UNI).to_string()
        } else if r < 90 {
            self.rng.pick(&COMMON).to_string()
        } else {
            let mut s = String::new();
            let first = b"abcdefghijklmnopqrstuvwxyzABCDEFGHIJKLMNOPQRSTUVWXYZ_";
            let rest = b"abcdefghijklmnopqrstuvwxyzABCDEFGHIJKLMNOPQRSTUVWXYZ_0123456789";
            s.push(*self.rng.pick(first) as char);
            for _ in 0..self.rng.below(8) {
                s.push(*self.rng.pick(rest) as char);
            }
            s
        }
    }

    /// identifier usable as the first identifier of a type reference
    fn type_ident(&mut self) -> String {
        let s = self.ident();
        if kw_prefixed(&s) {
            format!("T_{s}")
        } else {
            s
        }
    }

    fn comments(&mut self) -> Vec<String> {
        self.texts(&COMMENT_POOL)
    }
    fn docs(&mut self) -> Vec<String> {
        self.texts(&DOC_POOL)
    }
    fn texts(&mut self, pool: &[&str]) -> Vec<String> {
        let mut v = Vec::new();
        while self.rng.below(100) < self.prelude_pct && v.len() < 4 {
            v.push(self.rng.pick(pool).to_string());
        }
        v
    }
    fn attrs(&mut self) -> Vec<Attr> {
        let mut v = Vec::new();
        while self.rng.below(100) < self.prelude_pct / 2 && v.len() < 3 {
            let n = self.rng.below(4);
            v.push(Attr {
                name: if self.rng.chance(1, 2) { "rust".into() } else { self.ident() },
                opts: (0..n)
                    .map(|_| if self.rng.chance(1, 2) { "impl_copy".to_string() } else { self.ident() })
                    .collect(),
            });
        }
        v
    }

    pub fn lit_int(&mut self) -> String {
        match self.rng.below(12) {
            0 => "0".into(),
            1 => "007".into(),
            2 => format!("-{}", self.rng.below(300)),
            3 => "4294967296".into(),
            4 => "18446744073709551616".into(),
            5 => "-0".into(),
            6 => "4294967295".into(),
            _ => format!("{}", self.rng.below(40)),
        }
    }

    fn uuid(&mut self) -> String {
        let hexd = b"0123456789abcdefABCDEF";
        let mut s = String::new();
        for (i, n) in [8, 4, 4, 4, 12].iter().enumerate() {
            if i > 0 {
                s.push('-');
            }
            for _ in 0..*n {
                s.push(*self.rng.pick(hexd) as char);
            }
        }
        s
    }

    fn lit_string(&mut self) -> String {
        let pieces = [
            "a", "b", " ", "xyz", "\\\\", "\\\"", "\\n", "\\t", "\\u{1F600}", "é", "中", "\t", "\r", "'", "//", "///",
            ";", "{", "\u{2028}", "\\x",
        ];
        let mut s = String::from("\"");
        for _ in 0..self.rng.below(6) {
            s.push_str(*self.rng.pick(&pieces));
        }
        s.push('"');
        s
    }

    fn nref(&mut self, type_pos: bool) -> NamedRef {
        if self.rng.chance(1, 4) {
            let a = if type_pos { self.type_ident() } else { self.ident() };
            NamedRef::Extern(a, self.ident())
        } else {
            NamedRef::Intern(if type_pos { self.type_ident() } else { self.ident() })
        }
    }

    pub fn ty(&mut self, depth: u32) -> Type {
        let leaf = depth >= 4 || !self.spend();
        let r = self.rng.below(100);
        if leaf || r < 45 {
            if self.rng.chance(2, 3) {
                Type::Prim(*self.rng.pick(&PRIMS))
            } else {
                Type::Ref(self.nref(true))
            }
        } else if r < 75 {
            Type::Gen1(*self.rng.pick(&GEN1), Box::new(self.ty(depth + 1)))
        } else if r < 83 {
            Type::Map(Box::new(self.ty(depth + 1)), Box::new(self.ty(depth + 1)))
        } else if r < 91 {
            Type::Result(Box::new(self.ty(depth + 1)), Box::new(self.ty(depth + 1)))
        } else {
            let len = if self.rng.chance(2, 3) { ArrayLen::Lit(self.lit_int()) } else { ArrayLen::Ref(self.nref(false)) };
            Type::Array(Box::new(self.ty(depth + 1)), len)
        }
    }

    fn fallback(&mut self) -> Option<Fallback> {
        if self.rng.chance(1, 4) {
            Some(Fallback { comment: self.comments(), doc: self.docs(), name: self.ident() })
        } else {
            None
        }
    }

    fn fields(&mut self) -> Vec<Field> {
        let n = *self.rng.pick(&[0u64, 0, 1, 2, 3, 5]);
        let mut v = Vec::new();
        for _ in 0..n {
            if !self.spend() {
                break;
            }
            let req = self.rng.chance(1, 3);
            let name = if self.kw_idents && self.rng.chance(1, 8) { "required".to_string() } else { self.ident() };
            v.push(Field { comment: self.comments(), doc: self.docs(), req, name, id: self.lit_int(), ty: self.ty(0) });
        }
        v
    }

    fn vars(&mut self) -> Vec<Variant> {
        let n = *self.rng.pick(&[0u64, 0, 1, 2, 3, 5]);
        let mut v = Vec::new();
        for _ in 0..n {
            if !self.spend() {
                break;
            }
            let ty = if self.rng.chance(1, 2) { Some(self.ty(0)) } else { None };
            v.push(Variant { comment: self.comments(), doc: self.docs(), name: self.ident(), id: self.lit_int(), ty });
        }
        v
    }

    fn tyinl(&mut self) -> TyInl {
        match self.rng.below(5) {
            0 => TyInl::Struct(InlStruct { doc: self.docs(), attrs: self.attrs(), fields: self.fields(), fallback: self.fallback() }),
            1 => TyInl::Enum(InlEnum { doc: self.docs(), attrs: self.attrs(), vars: self.vars(), fallback: self.fallback() }),
            _ => TyInl::Ty(self.ty(0)),
        }
    }

    fn part(&mut self) -> Option<Part> {
        if self.rng.chance(1, 2) {
            let comment = if self.rng.chance(1, 3) { self.comments() } else { Vec::new() };
            Some(Part { comment, ty: self.tyinl() })
        } else {
            None
        }
    }

    fn service(&mut self) -> ServiceDef {
        let mut items = Vec::new();
        let n = *self.rng.pick(&[0u64, 1, 2, 3, 6]);
        for _ in 0..n {
            if !self.spend() {
                break;
            }
            if self.rng.chance(3, 5) {
                items.push(Item::Fn(FnDef {
                    comment: self.comments(),
                    doc: self.docs(),
                    name: self.ident(),
                    id: self.lit_int(),
                    args: self.part(),
                    ok: self.part(),
                    err: self.part(),
                }));
            } else {
                let ty = if self.rng.chance(1, 2) { Some(self.tyinl()) } else { None };
                items.push(Item::Ev(EvDef { comment: self.comments(), doc: self.docs(), name: self.ident(), id: self.lit_int(), ty }));
            }
        }
        ServiceDef {
            comment: self.comments(),
            doc: self.docs(),
            name: self.ident(),
            uuid_comment: self.comments(),
            uuid: self.uuid(),
            ver_comment: self.comments(),
            ver: self.lit_int(),
            items,
            fn_fb: self.fallback(),
            ev_fb: self.fallback(),
        }
    }

    fn def(&mut self) -> Def {
        match self.rng.below(10) {
            0..=2 => Def::Struct(StructDef {
                comment: self.comments(),
                doc: self.docs(),
                attrs: self.attrs(),
                name: self.ident(),
                fields: self.fields(),
                fallback: self.fallback(),
            }),
            3..=4 => Def::Enum(EnumDef {
                comment: self.comments(),
                doc: self.docs(),
                attrs: self.attrs(),
                name: self.ident(),
                vars: self.vars(),
                fallback: self.fallback(),
            }),
            5..=6 => Def::Service(self.service()),
            7..=8 => {
                let ty = *self.rng.pick(&CONST_TYPES);
                let val = match ty {
                    "string" => self.lit_string(),
                    "uuid" => self.uuid(),
                    _ => self.lit_int(),
                };
                Def::Const(ConstDef { comment: self.comments(), doc: self.docs(), name: self.ident(), ty, val })
            }
            _ => Def::Newtype(NewtypeDef {
                comment: self.comments(),
                doc: self.docs(),
                attrs: self.attrs(),
                name: self.ident(),
                ty: self.ty(0),
            }),
        }
    }

    pub fn schema(&mut self) -> Schema {
        // the grammar attaches top comments to the schema only when a `//!` line follows them
        let doc = if self.rng.chance(1, 3) {
            let mut d = self.docs();
            if d.is_empty() {
                d.push(self.rng.pick(&DOC_POOL).to_string());
            }
            d
        } else {
            Vec::new()
        };
        let comment = if doc.is_empty() { Vec::new() } else { self.comments() };
        let mut imports = Vec::new();
        for _ in 0..*self.rng.pick(&[0u64, 0, 1, 2, 4]) {
            let name = if self.rng.chance(1, 2) { self.rng.pick(&["dep_a", "dep_b", "zeta", "Alpha"]).to_string() } else { self.ident() };
            imports.push(Import { comment: self.comments(), name });
        }
        let mut defs = Vec::new();
        let n = *self.rng.pick(&[0u64, 1, 2, 3, 5, 8]);
        for _ in 0..n {
            if !self.spend() {
                break;
            }
            defs.push(self.def());
        }
        Schema { comment, doc, imports, defs }
    }
}
