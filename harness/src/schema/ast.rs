//! Harness-side mirror of the schema AST as seen through the public accessors of
//! `aldrin_parser::ast` (spans dropped, comments/docs as `value_inner()`), its canonical
//! textual dump (the format `extract/schema_driver.ml` reads and writes) and the converter
//! from the real AST.
use aldrin_parser::ast as p;
use verif_harness::hex;

#[derive(Clone, Debug, PartialEq)]
pub struct Schema {
    pub comment: Vec<String>,
    pub doc: Vec<String>,
    pub imports: Vec<Import>,
    pub defs: Vec<Def>,
}
#[derive(Clone, Debug, PartialEq)]
pub struct Import {
    pub comment: Vec<String>,
    pub name: String,
}
#[derive(Clone, Debug, PartialEq)]
pub enum Def {
    Struct(StructDef),
    Enum(EnumDef),
    Service(ServiceDef),
    Const(ConstDef),
    Newtype(NewtypeDef),
}
#[derive(Clone, Debug, PartialEq)]
pub struct Attr {
    pub name: String,
    pub opts: Vec<String>,
}
#[derive(Clone, Debug, PartialEq)]
pub struct StructDef {
    pub comment: Vec<String>,
    pub doc: Vec<String>,
    pub attrs: Vec<Attr>,
    pub name: String,
    pub fields: Vec<Field>,
    pub fallback: Option<Fallback>,
}
#[derive(Clone, Debug, PartialEq)]
pub struct Field {
    pub comment: Vec<String>,
    pub doc: Vec<String>,
    pub req: bool,
    pub name: String,
    pub id: String,
    pub ty: Type,
}
#[derive(Clone, Debug, PartialEq)]
pub struct Fallback {
    pub comment: Vec<String>,
    pub doc: Vec<String>,
    pub name: String,
}
#[derive(Clone, Debug, PartialEq)]
pub struct EnumDef {
    pub comment: Vec<String>,
    pub doc: Vec<String>,
    pub attrs: Vec<Attr>,
    pub name: String,
    pub vars: Vec<Variant>,
    pub fallback: Option<Fallback>,
}
#[derive(Clone, Debug, PartialEq)]
pub struct Variant {
    pub comment: Vec<String>,
    pub doc: Vec<String>,
    pub name: String,
    pub id: String,
    pub ty: Option<Type>,
}
#[derive(Clone, Debug, PartialEq)]
pub struct ServiceDef {
    pub comment: Vec<String>,
    pub doc: Vec<String>,
    pub name: String,
    pub uuid_comment: Vec<String>,
    pub uuid: String,
    pub ver_comment: Vec<String>,
    pub ver: String,
    pub items: Vec<Item>,
    pub fn_fb: Option<Fallback>,
    pub ev_fb: Option<Fallback>,
}
#[derive(Clone, Debug, PartialEq)]
pub enum Item {
    Fn(FnDef),
    Ev(EvDef),
}
#[derive(Clone, Debug, PartialEq)]
pub struct FnDef {
    pub comment: Vec<String>,
    pub doc: Vec<String>,
    pub name: String,
    pub id: String,
    pub args: Option<Part>,
    pub ok: Option<Part>,
    pub err: Option<Part>,
}
#[derive(Clone, Debug, PartialEq)]
pub struct Part {
    pub comment: Vec<String>,
    pub ty: TyInl,
}
#[derive(Clone, Debug, PartialEq)]
pub enum TyInl {
    Ty(Type),
    Struct(InlStruct),
    Enum(InlEnum),
}
#[derive(Clone, Debug, PartialEq)]
pub struct InlStruct {
    pub doc: Vec<String>,
    pub attrs: Vec<Attr>,
    pub fields: Vec<Field>,
    pub fallback: Option<Fallback>,
}
#[derive(Clone, Debug, PartialEq)]
pub struct InlEnum {
    pub doc: Vec<String>,
    pub attrs: Vec<Attr>,
    pub vars: Vec<Variant>,
    pub fallback: Option<Fallback>,
}
#[derive(Clone, Debug, PartialEq)]
pub struct EvDef {
    pub comment: Vec<String>,
    pub doc: Vec<String>,
    pub name: String,
    pub id: String,
    pub ty: Option<TyInl>,
}
#[derive(Clone, Debug, PartialEq)]
pub struct ConstDef {
    pub comment: Vec<String>,
    pub doc: Vec<String>,
    pub name: String,
    pub ty: &'static str,
    pub val: String,
}
#[derive(Clone, Debug, PartialEq)]
pub struct NewtypeDef {
    pub comment: Vec<String>,
    pub doc: Vec<String>,
    pub attrs: Vec<Attr>,
    pub name: String,
    pub ty: Type,
}
#[derive(Clone, Debug, PartialEq)]
pub enum Type {
    Prim(&'static str),
    Gen1(&'static str, Box<Type>),
    Map(Box<Type>, Box<Type>),
    Result(Box<Type>, Box<Type>),
    Array(Box<Type>, ArrayLen),
    Ref(NamedRef),
}
#[derive(Clone, Debug, PartialEq)]
pub enum NamedRef {
    Intern(String),
    Extern(String, String),
}
#[derive(Clone, Debug, PartialEq)]
pub enum ArrayLen {
    Lit(String),
    Ref(NamedRef),
}

pub const PRIMS: [&str; 19] = [
    "bool", "u8", "i8", "u16", "i16", "u32", "i32", "u64", "i64", "f32", "f64", "string", "uuid",
    "object_id", "service_id", "value", "bytes", "lifetime", "unit",
];
pub const GEN1: [&str; 6] = ["option", "box", "vec", "set", "sender", "receiver"];
pub const CONST_TYPES: [&str; 10] = [
    "u8", "i8", "u16", "i16", "u32", "i32", "u64", "i64", "string", "uuid",
];

// ------------------------------------------------------------------ dump

pub struct Dump(pub String);

impl Dump {
    fn w(&mut self, t: &str) {
        if !self.0.is_empty() {
            self.0.push(' ');
        }
        self.0.push_str(t);
    }
    fn s(&mut self, s: &str) {
        let h = format!("s{}", hex(s.as_bytes()));
        self.w(&h);
    }
    fn ss(&mut self, v: &[String]) {
        self.w("[");
        for x in v {
            self.s(x);
        }
        self.w("]");
    }
    fn list<T>(&mut self, v: &[T], f: impl Fn(&mut Dump, &T)) {
        self.w("[");
        for x in v {
            f(self, x);
        }
        self.w("]");
    }
    fn opt<T>(&mut self, v: &Option<T>, f: impl Fn(&mut Dump, &T)) {
        match v {
            None => self.w("-"),
            Some(x) => {
                self.w("+");
                f(self, x)
            }
        }
    }
    fn attr(&mut self, a: &Attr) {
        self.s(&a.name);
        self.ss(&a.opts);
    }
    fn nref(&mut self, r: &NamedRef) {
        match r {
            NamedRef::Intern(n) => {
                self.w("i");
                self.s(n)
            }
            NamedRef::Extern(a, b) => {
                self.w("e");
                self.s(a);
                self.s(b)
            }
        }
    }
    fn ty(&mut self, t: &Type) {
        match t {
            Type::Prim(k) => self.w(k),
            Type::Gen1(k, a) => {
                self.w(k);
                self.ty(a)
            }
            Type::Map(a, b) => {
                self.w("map");
                self.ty(a);
                self.ty(b)
            }
            Type::Result(a, b) => {
                self.w("result");
                self.ty(a);
                self.ty(b)
            }
            Type::Array(a, l) => {
                self.w("array");
                self.ty(a);
                match l {
                    ArrayLen::Lit(s) => {
                        self.w("lit");
                        self.s(s)
                    }
                    ArrayLen::Ref(r) => {
                        self.w("lref");
                        self.nref(r)
                    }
                }
            }
            Type::Ref(r) => {
                self.w("ref");
                self.nref(r)
            }
        }
    }
    fn field(&mut self, f: &Field) {
        self.ss(&f.comment);
        self.ss(&f.doc);
        self.w(if f.req { "1" } else { "0" });
        self.s(&f.name);
        self.s(&f.id);
        self.ty(&f.ty);
    }
    fn fb(&mut self, f: &Fallback) {
        self.ss(&f.comment);
        self.ss(&f.doc);
        self.s(&f.name);
    }
    fn var(&mut self, v: &Variant) {
        self.ss(&v.comment);
        self.ss(&v.doc);
        self.s(&v.name);
        self.s(&v.id);
        self.opt(&v.ty, |d, t| d.ty(t));
    }
    fn tyinl(&mut self, t: &TyInl) {
        match t {
            TyInl::Ty(t) => {
                self.w("Ty");
                self.ty(t)
            }
            TyInl::Struct(s) => {
                self.w("IS");
                self.ss(&s.doc);
                self.list(&s.attrs, |d, a| d.attr(a));
                self.list(&s.fields, |d, f| d.field(f));
                self.opt(&s.fallback, |d, f| d.fb(f));
            }
            TyInl::Enum(s) => {
                self.w("IE");
                self.ss(&s.doc);
                self.list(&s.attrs, |d, a| d.attr(a));
                self.list(&s.vars, |d, f| d.var(f));
                self.opt(&s.fallback, |d, f| d.fb(f));
            }
        }
    }
    fn part(&mut self, p: &Part) {
        self.ss(&p.comment);
        self.tyinl(&p.ty);
    }
    fn def(&mut self, d: &Def) {
        match d {
            Def::Struct(s) => {
                self.w("St");
                self.ss(&s.comment);
                self.ss(&s.doc);
                self.list(&s.attrs, |d, a| d.attr(a));
                self.s(&s.name);
                self.list(&s.fields, |d, f| d.field(f));
                self.opt(&s.fallback, |d, f| d.fb(f));
            }
            Def::Enum(s) => {
                self.w("En");
                self.ss(&s.comment);
                self.ss(&s.doc);
                self.list(&s.attrs, |d, a| d.attr(a));
                self.s(&s.name);
                self.list(&s.vars, |d, f| d.var(f));
                self.opt(&s.fallback, |d, f| d.fb(f));
            }
            Def::Service(s) => {
                self.w("Sv");
                self.ss(&s.comment);
                self.ss(&s.doc);
                self.s(&s.name);
                self.ss(&s.uuid_comment);
                self.s(&s.uuid);
                self.ss(&s.ver_comment);
                self.s(&s.ver);
                self.list(&s.items, |d, i| match i {
                    Item::Fn(f) => {
                        d.w("Fn");
                        d.ss(&f.comment);
                        d.ss(&f.doc);
                        d.s(&f.name);
                        d.s(&f.id);
                        d.opt(&f.args, |d, p| d.part(p));
                        d.opt(&f.ok, |d, p| d.part(p));
                        d.opt(&f.err, |d, p| d.part(p));
                    }
                    Item::Ev(e) => {
                        d.w("Ev");
                        d.ss(&e.comment);
                        d.ss(&e.doc);
                        d.s(&e.name);
                        d.s(&e.id);
                        d.opt(&e.ty, |d, t| d.tyinl(t));
                    }
                });
                self.opt(&s.fn_fb, |d, f| d.fb(f));
                self.opt(&s.ev_fb, |d, f| d.fb(f));
            }
            Def::Const(c) => {
                self.w("Co");
                self.ss(&c.comment);
                self.ss(&c.doc);
                self.s(&c.name);
                self.w(c.ty);
                self.s(&c.val);
            }
            Def::Newtype(n) => {
                self.w("Nt");
                self.ss(&n.comment);
                self.ss(&n.doc);
                self.list(&n.attrs, |d, a| d.attr(a));
                self.s(&n.name);
                self.ty(&n.ty);
            }
        }
    }
}

pub fn dump(s: &Schema) -> String {
    let mut d = Dump(String::new());
    d.ss(&s.comment);
    d.ss(&s.doc);
    d.list(&s.imports, |d, i| {
        d.ss(&i.comment);
        d.s(&i.name)
    });
    d.list(&s.defs, |d, x| d.def(x));
    d.0
}

/// the formatter's canonical form: imports stably sorted by name
pub fn canon(s: &Schema) -> Schema {
    let mut c = s.clone();
    c.imports.sort_by(|a, b| a.name.cmp(&b.name));
    c
}

// ------------------------------------------------------------------ from the real AST

// The text of a comment / doc line is computed here from the RAW token text (`value()`), not through
// the library's `value_inner()`: the formatter prints through that accessor, so a defect in it would
// be invisible to an AST comparison that reads both sides through the same accessor.
fn inner(raw: &str, marker: usize) -> String {
    let v = raw.get(marker..).unwrap_or("");
    v.strip_prefix(' ').unwrap_or(v).trim_end().to_owned()
}
fn cs(v: &[p::Comment]) -> Vec<String> {
    v.iter().map(|c| inner(c.value(), 2)).collect()
}
fn ds(v: &[p::DocString]) -> Vec<String> {
    v.iter().map(|c| inner(c.value(), 3)).collect()
}
fn attrs(v: &[p::Attribute]) -> Vec<Attr> {
    v.iter()
        .map(|a| Attr {
            name: a.name().value().to_owned(),
            opts: a.options().iter().map(|o| o.value().to_owned()).collect(),
        })
        .collect()
}
fn nref(r: &p::NamedRef) -> NamedRef {
    match r.kind() {
        p::NamedRefKind::Intern(i) => NamedRef::Intern(i.value().to_owned()),
        p::NamedRefKind::Extern(a, b) => NamedRef::Extern(a.value().to_owned(), b.value().to_owned()),
    }
}
pub fn ty(t: &p::TypeName) -> Type {
    use p::TypeNameKind as K;
    let b = |t: &p::TypeName| Box::new(ty(t));
    match t.kind() {
        K::Bool => Type::Prim("bool"),
        K::U8 => Type::Prim("u8"),
        K::I8 => Type::Prim("i8"),
        K::U16 => Type::Prim("u16"),
        K::I16 => Type::Prim("i16"),
        K::U32 => Type::Prim("u32"),
        K::I32 => Type::Prim("i32"),
        K::U64 => Type::Prim("u64"),
        K::I64 => Type::Prim("i64"),
        K::F32 => Type::Prim("f32"),
        K::F64 => Type::Prim("f64"),
        K::String => Type::Prim("string"),
        K::Uuid => Type::Prim("uuid"),
        K::ObjectId => Type::Prim("object_id"),
        K::ServiceId => Type::Prim("service_id"),
        K::Value => Type::Prim("value"),
        K::Bytes => Type::Prim("bytes"),
        K::Lifetime => Type::Prim("lifetime"),
        K::Unit => Type::Prim("unit"),
        K::Option(a) => Type::Gen1("option", b(a)),
        K::Box(a) => Type::Gen1("box", b(a)),
        K::Vec(a) => Type::Gen1("vec", b(a)),
        K::Set(a) => Type::Gen1("set", b(a)),
        K::Sender(a) => Type::Gen1("sender", b(a)),
        K::Receiver(a) => Type::Gen1("receiver", b(a)),
        K::Map(k, v) => Type::Map(b(k), b(v)),
        K::Result(k, v) => Type::Result(b(k), b(v)),
        K::Array(a, l) => Type::Array(
            b(a),
            match l.value() {
                p::ArrayLenValue::Literal(i) => ArrayLen::Lit(i.value().to_owned()),
                p::ArrayLenValue::Ref(r) => ArrayLen::Ref(nref(r)),
            },
        ),
        K::Ref(r) => Type::Ref(nref(r)),
    }
}
fn field(f: &p::StructField) -> Field {
    Field {
        comment: cs(f.comment()),
        doc: ds(f.doc()),
        req: f.required(),
        name: f.name().value().to_owned(),
        id: f.id().value().to_owned(),
        ty: ty(f.field_type()),
    }
}
fn sfb(f: &p::StructFallback) -> Fallback {
    Fallback { comment: cs(f.comment()), doc: ds(f.doc()), name: f.name().value().to_owned() }
}
fn efb(f: &p::EnumFallback) -> Fallback {
    Fallback { comment: cs(f.comment()), doc: ds(f.doc()), name: f.name().value().to_owned() }
}
fn var(v: &p::EnumVariant) -> Variant {
    Variant {
        comment: cs(v.comment()),
        doc: ds(v.doc()),
        name: v.name().value().to_owned(),
        id: v.id().value().to_owned(),
        ty: v.variant_type().map(ty),
    }
}
fn tyinl(t: &p::TypeNameOrInline) -> TyInl {
    match t {
        p::TypeNameOrInline::TypeName(t) => TyInl::Ty(ty(t)),
        p::TypeNameOrInline::Struct(s) => TyInl::Struct(InlStruct {
            doc: ds(s.doc()),
            attrs: attrs(s.attributes()),
            fields: s.fields().iter().map(field).collect(),
            fallback: s.fallback().map(sfb),
        }),
        p::TypeNameOrInline::Enum(s) => TyInl::Enum(InlEnum {
            doc: ds(s.doc()),
            attrs: attrs(s.attributes()),
            vars: s.variants().iter().map(var).collect(),
            fallback: s.fallback().map(efb),
        }),
    }
}
fn part(x: &p::FunctionPart) -> Part {
    Part { comment: cs(x.comment()), ty: tyinl(x.part_type()) }
}

pub fn from_real(s: &aldrin_parser::Schema) -> Schema {
    Schema {
        comment: cs(s.comment()),
        doc: ds(s.doc()),
        imports: s
            .imports()
            .iter()
            .map(|i| Import { comment: cs(i.comment()), name: i.schema_name().value().to_owned() })
            .collect(),
        defs: s
            .definitions()
            .iter()
            .map(|d| match d {
                p::Definition::Struct(s) => Def::Struct(StructDef {
                    comment: cs(s.comment()),
                    doc: ds(s.doc()),
                    attrs: attrs(s.attributes()),
                    name: s.name().value().to_owned(),
                    fields: s.fields().iter().map(field).collect(),
                    fallback: s.fallback().map(sfb),
                }),
                p::Definition::Enum(s) => Def::Enum(EnumDef {
                    comment: cs(s.comment()),
                    doc: ds(s.doc()),
                    attrs: attrs(s.attributes()),
                    name: s.name().value().to_owned(),
                    vars: s.variants().iter().map(var).collect(),
                    fallback: s.fallback().map(efb),
                }),
                p::Definition::Service(s) => Def::Service(ServiceDef {
                    comment: cs(s.comment()),
                    doc: ds(s.doc()),
                    name: s.name().value().to_owned(),
                    uuid_comment: cs(s.uuid_comment()),
                    uuid: s.uuid().value().to_owned(),
                    ver_comment: cs(s.version_comment()),
                    ver: s.version().value().to_owned(),
                    items: s
                        .items()
                        .iter()
                        .map(|i| match i {
                            p::ServiceItem::Function(f) => Item::Fn(FnDef {
                                comment: cs(f.comment()),
                                doc: ds(f.doc()),
                                name: f.name().value().to_owned(),
                                id: f.id().value().to_owned(),
                                args: f.args().map(part),
                                ok: f.ok().map(part),
                                err: f.err().map(part),
                            }),
                            p::ServiceItem::Event(e) => Item::Ev(EvDef {
                                comment: cs(e.comment()),
                                doc: ds(e.doc()),
                                name: e.name().value().to_owned(),
                                id: e.id().value().to_owned(),
                                ty: e.event_type().map(tyinl),
                            }),
                        })
                        .collect(),
                    fn_fb: s.function_fallback().map(|f| Fallback {
                        comment: cs(f.comment()),
                        doc: ds(f.doc()),
                        name: f.name().value().to_owned(),
                    }),
                    ev_fb: s.event_fallback().map(|f| Fallback {
                        comment: cs(f.comment()),
                        doc: ds(f.doc()),
                        name: f.name().value().to_owned(),
                    }),
                }),
                p::Definition::Const(c) => {
                    use p::ConstValue as V;
                    let (t, v) = match c.value() {
                        V::U8(v) => ("u8", v.value()),
                        V::I8(v) => ("i8", v.value()),
                        V::U16(v) => ("u16", v.value()),
                        V::I16(v) => ("i16", v.value()),
                        V::U32(v) => ("u32", v.value()),
                        V::I32(v) => ("i32", v.value()),
                        V::U64(v) => ("u64", v.value()),
                        V::I64(v) => ("i64", v.value()),
                        V::String(v) => ("string", v.value()),
                        V::Uuid(v) => ("uuid", v.value()),
                    };
                    Def::Const(ConstDef {
                        comment: cs(c.comment()),
                        doc: ds(c.doc()),
                        name: c.name().value().to_owned(),
                        ty: t,
                        val: v.to_owned(),
                    })
                }
                p::Definition::Newtype(n) => Def::Newtype(NewtypeDef {
                    comment: cs(n.comment()),
                    doc: ds(n.doc()),
                    attrs: attrs(n.attributes()),
                    name: n.name().value().to_owned(),
                    ty: ty(n.target_type()),
                }),
            })
            .collect(),
    }
}

/// every doc list of a schema in a fixed order, with the real DocString objects (for the
/// C17 span correspondence)
pub fn doc_lists<'a>(s: &'a aldrin_parser::Schema) -> Vec<&'a [p::DocString]> {
    let mut out: Vec<&'a [p::DocString]> = Vec::new();
    fn fields<'a>(out: &mut Vec<&'a [p::DocString]>, fs: &'a [p::StructField], fb: Option<&'a p::StructFallback>) {
        for f in fs {
            out.push(f.doc());
        }
        if let Some(f) = fb {
            out.push(f.doc());
        }
    }
    fn vars<'a>(out: &mut Vec<&'a [p::DocString]>, vs: &'a [p::EnumVariant], fb: Option<&'a p::EnumFallback>) {
        for f in vs {
            out.push(f.doc());
        }
        if let Some(f) = fb {
            out.push(f.doc());
        }
    }
    fn tyinl<'a>(out: &mut Vec<&'a [p::DocString]>, t: &'a p::TypeNameOrInline) {
        match t {
            p::TypeNameOrInline::TypeName(_) => {}
            p::TypeNameOrInline::Struct(s) => {
                out.push(s.doc());
                fields(out, s.fields(), s.fallback());
            }
            p::TypeNameOrInline::Enum(s) => {
                out.push(s.doc());
                vars(out, s.variants(), s.fallback());
            }
        }
    }
    out.push(s.doc());
    for d in s.definitions() {
        match d {
            p::Definition::Struct(x) => {
                out.push(x.doc());
                fields(&mut out, x.fields(), x.fallback());
            }
            p::Definition::Enum(x) => {
                out.push(x.doc());
                vars(&mut out, x.variants(), x.fallback());
            }
            p::Definition::Service(x) => {
                out.push(x.doc());
                for i in x.items() {
                    match i {
                        p::ServiceItem::Function(f) => {
                            out.push(f.doc());
                            for pt in [f.args(), f.ok(), f.err()].into_iter().flatten() {
                                tyinl(&mut out, pt.part_type());
                            }
                        }
                        p::ServiceItem::Event(e) => {
                            out.push(e.doc());
                            if let Some(t) = e.event_type() {
                                tyinl(&mut out, t);
                            }
                        }
                    }
                }
                if let Some(f) = x.function_fallback() {
                    out.push(f.doc());
                }
                if let Some(f) = x.event_fallback() {
                    out.push(f.doc());
                }
            }
            p::Definition::Const(x) => out.push(x.doc()),
            p::Definition::Newtype(x) => out.push(x.doc()),
        }
    }
    out
}
