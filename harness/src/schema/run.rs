//! Drives the real parser / formatter / code generator and evaluates the C18 and C17 property
//! statements on their outputs (the monitors).
use super::ast;
use aldrin_codegen::{Generator, Options, RustOptions};
use aldrin_parser::{Diagnostic, Formatter, MemoryResolver, Parser, Renderer};
use std::collections::BTreeMap;
use std::fmt::Write as _;
use verif_harness::{catch, hex};

pub const MAIN: &str = "main";
pub const DEP_A: &str = "/// Dependency a.\nstruct Foo {\n    a @ 1 = u8;\n}\n\nenum Bar {\n    A @ 1;\n}\n\nconst N = u32(4);\n\nservice Svc {\n    uuid = 6ac4a2ad-5b0a-4a5e-9a3c-0a1b2c3d4e5f;\n    version = 1;\n\n    fn f @ 1 = Foo;\n}\n";
pub const DEP_B: &str = "import dep_a;\n\nstruct Foo {\n    b @ 1 = dep_a::Foo;\n}\n\nnewtype Id = u32;\n";

/// a dependency without diagnostics that has every kind of definition a doc link can point into
pub const DEP_RICH: &str = "//! Rich dependency: every kind of definition.\n\nstruct Config {\n    /// The host.\n    required host @ 1 = string;\n    port @ 2 = u16;\n    rest = fallback;\n}\n\nenum Mode {\n    Fast @ 1;\n    Slow @ 2 = u32;\n    Other = fallback;\n}\n\nnewtype Id = u32;\nnewtype Key = string;\nconst LIMIT = u32(8);\nconst NAME = string(\"rich\");\nconst TAG = uuid(01234567-89ab-cdef-0123-456789abcdef);\n\nservice Backend {\n    uuid = 7d1e5a0c-3b1f-4f0e-9c55-2f3a4b5c6d7e;\n    version = 2;\n\n    fn configure @ 1 {\n        args = struct {\n            cfg @ 1 = Config;\n            more = fallback;\n        }\n        ok = enum {\n            Done @ 1;\n            Unknown = fallback;\n        }\n        err = Mode;\n    }\n\n    fn ping @ 2;\n    fn get @ 3 = Config;\n\n    event changed @ 1 = struct {\n        id @ 1 = Id;\n    }\n    event mode @ 2 = enum {\n        On @ 1;\n    }\n    event tick @ 3 = u32;\n    event bare @ 4;\n\n    fn other_fn = fallback;\n    event other_ev = fallback;\n}\n";

pub type Imports = Vec<(String, Option<String>)>;

pub fn std_imports() -> Imports {
    vec![("dep_a".into(), Some(DEP_A.into())), ("dep_b".into(), Some(DEP_B.into()))]
}

pub fn parse(name: &str, src: &str, imports: &Imports) -> Parser {
    let mut r = MemoryResolver::new(name, Ok(src.to_owned()));
    for (n, s) in imports {
        match s {
            Some(s) => r.add(n.clone(), Ok(s.clone())),
            None => r.add(n.clone(), Err(std::io::Error::new(std::io::ErrorKind::Other, "unreadable"))),
        };
    }
    Parser::parse(r)
}

/// position-free signature of a diagnostic: its Debug text with every `Span { .. }` blanked
pub fn scrub(dbg: &str) -> String {
    let mut out = String::new();
    let mut rest = dbg;
    while let Some(i) = rest.find("Span {") {
        out.push_str(&rest[..i]);
        out.push_str("Span");
        match rest[i..].find('}') {
            Some(j) => rest = &rest[i + j + 1..],
            None => {
                rest = "";
            }
        }
    }
    out.push_str(rest);
    // raw comment / doc text is layout (the AST comparison covers value_inner): blank it
    let mut res = String::new();
    let mut rest = out.as_str();
    loop {
        let ic = rest.find("Comment { span: Span, value: \"");
        let id = rest.find("DocString { span: Span, value: \"");
        let (i, key) = match (ic, id) {
            (Some(a), Some(b)) if a < b => (a, "Comment { span: Span, value: \""),
            (Some(a), None) => (a, "Comment { span: Span, value: \""),
            (_, Some(b)) => (b, "DocString { span: Span, value: \""),
            (None, None) => break,
        };
        res.push_str(&rest[..i]);
        res.push_str("Text");
        let body = &rest[i + key.len()..];
        let mut esc = false;
        let mut endi = body.len();
        for (j, c) in body.char_indices() {
            if esc {
                esc = false;
            } else if c == '\\' {
                esc = true;
            } else if c == '"' {
                endi = j + 1;
                break;
            }
        }
        rest = body[endi..].strip_prefix(" }").unwrap_or(&body[endi..]);
    }
    res.push_str(rest);
    res
}

pub fn kind_of(dbg: &str) -> String {
    match dbg.find("kind: ") {
        Some(i) => dbg[i + 6..].chars().take_while(|c| c.is_alphanumeric()).collect(),
        None => "?".into(),
    }
}

pub struct Diags {
    /// sorted position-free signatures (E:/W:/O: prefixed)
    pub sigs: Vec<String>,
    pub kinds: Vec<String>,
    pub syntax_or_io: bool,
    pub n_errors: usize,
}

pub fn diags(p: &Parser) -> Diags {
    let mut sigs = Vec::new();
    let mut kinds = Vec::new();
    let mut syn = false;
    for e in p.errors() {
        let d = format!("{:?}", e);
        let k = kind_of(&d);
        if k == "InvalidSyntax" || k == "IoError" {
            syn = true;
        }
        sigs.push(format!("E:{}", scrub(&d)));
        kinds.push(k);
    }
    for w in p.warnings() {
        let d = format!("{:?}", w);
        kinds.push(kind_of(&d));
        sigs.push(format!("W:{}", scrub(&d)));
    }
    for w in p.other_warnings() {
        let d = format!("{:?}", w);
        kinds.push(kind_of(&d));
        sigs.push(format!("O:{}", scrub(&d)));
    }
    sigs.sort();
    Diags { sigs, kinds, syntax_or_io: syn, n_errors: p.errors().len() }
}

pub fn main_syntax_error(p: &Parser) -> bool {
    p.errors().iter().any(|e| {
        let d = format!("{:?}", e);
        let k = kind_of(&d);
        (k == "InvalidSyntax" || k == "IoError") && e.schema_name() == p.main_schema().name()
    })
}

#[derive(Default)]
pub struct Out {
    pub cases: String,
    pub imp: String,
    pub monitor: String,
    pub counts: BTreeMap<String, u64>,
    pub kinds: BTreeMap<String, u64>,
    pub samples: Vec<String>,
    pub distinct: std::collections::HashSet<u64>,
    /// C17 generator coverage: doc links by `<link form>|<import situation of the target schema>`
    pub link_matrix: BTreeMap<String, u64>,
    /// doc-link target paths by `<path form>|<item class>`
    pub link_paths: BTreeMap<String, u64>,
    /// generated named references by `<position>|<situation>|<identifier class>`
    pub ref_matrix: BTreeMap<String, u64>,
    /// what `LinkResolver::resolve` answered on the links comrak found (measured on the real code)
    pub link_resolutions: BTreeMap<String, u64>,
}

impl Out {
    pub fn count(&mut self, k: &str) {
        *self.counts.entry(k.to_owned()).or_insert(0) += 1;
    }
    pub fn case(&mut self, c: &str, i: &str) {
        self.cases.push_str(c);
        self.cases.push('\n');
        self.imp.push_str(i);
        self.imp.push('\n');
    }
    pub fn mon(&mut self, what: &str, src: &str, imports: &Imports, detail: &str) {
        let mut imps = String::new();
        for (n, s) in imports {
            if !imps.is_empty() {
                imps.push('|');
            }
            match s {
                Some(s) => write!(imps, "{}:{}", n, hex(s.as_bytes())).unwrap(),
                None => write!(imps, "{}:!", n).unwrap(),
            }
        }
        writeln!(self.monitor, "{} input={} imports={} detail={}", what, hex(src.as_bytes()), imps, hex(detail.as_bytes())).unwrap();
        self.count(&format!("monitor:{}", what.split(':').next().unwrap()));
    }
}

pub fn fnv(s: &str) -> u64 {
    let mut h = 0xcbf29ce484222325u64;
    for b in s.bytes() {
        h ^= b as u64;
        h = h.wrapping_mul(0x100000001b3);
    }
    h
}

fn has_bare_required(a: &ast::Schema) -> bool {
    fn fs(v: &[ast::Field]) -> bool {
        v.iter().any(|f| f.name == "required" && !f.req)
    }
    fn ti(t: &ast::TyInl) -> bool {
        matches!(t, ast::TyInl::Struct(s) if fs(&s.fields))
    }
    a.defs.iter().any(|d| match d {
        ast::Def::Struct(s) => fs(&s.fields),
        ast::Def::Service(s) => s.items.iter().any(|i| match i {
            ast::Item::Fn(f) => [&f.args, &f.ok, &f.err].iter().any(|p| p.as_ref().map(|p| ti(&p.ty)).unwrap_or(false)),
            ast::Item::Ev(e) => e.ty.as_ref().map(ti).unwrap_or(false),
        }),
        _ => false,
    })
}

/// The C18 monitor on one source text.  `intended`: the AST the generator meant (if any).
/// Returns false when the source is not syntactically valid (not an input of C18).
pub fn check_c18(src: &str, imports: &Imports, intended: Option<&ast::Schema>, o: &mut Out) -> bool {
    let r = catch(|| check_c18_inner(src, imports, intended, o));
    match r {
        Ok(b) => b,
        Err(_) => {
            // a panicking front end is C17's finding; such a text is not an input of C18
            o.count("class:front_end_panicked_see_C17");
            true
        }
    }
}

fn check_c18_inner(src: &str, imports: &Imports, intended: Option<&ast::Schema>, o: &mut Out) -> bool {
    let p1 = parse(MAIN, src, imports);
    if main_syntax_error(&p1) {
        o.count("input_syntax_error");
        if intended.is_some() {
            // the generator is meant to emit valid text only: a broken reading of the grammar
            o.mon("generator_invalid", src, imports, &format!("{:?}", p1.errors().first()));
        }
        // the model parser must reject as well
        o.case(&format!("parse {}", hex(src.as_bytes())), "err");
        return false;
    }
    let a1 = ast::from_real(p1.main_schema());
    let d1 = ast::dump(&a1);
    if let Some(i) = intended {
        if ast::dump(i) != d1 {
            o.mon("parse_differs_from_intended", src, imports, &format!("intended {}\nparsed   {}", ast::dump(i), d1));
        }
    }
    o.case(&format!("parse {}", hex(src.as_bytes())), &format!("ok {}", d1));
    let g1 = diags(&p1);
    for k in &g1.kinds {
        *o.kinds.entry(k.clone()).or_insert(0) += 1;
    }
    let f = match Formatter::new(&p1) {
        Ok(f) => f,
        Err(_) => {
            // a syntax/IO error in an import only: Formatter refuses although the main schema is fine
            o.count("formatter_refused_import_error");
            return true;
        }
    };
    let t1 = f.to_string();
    o.case(&format!("print {}", d1), &hex(t1.as_bytes()));
    let bare_req = has_bare_required(&a1);
    let tag = if bare_req { ":field_named_required" } else { "" };
    let p2 = parse(MAIN, &t1, imports);
    if main_syntax_error(&p2) {
        o.mon(&format!("formatted_text_has_syntax_error{}", tag), src, imports, &t1);
        o.case(&format!("rt {}", d1), "bad");
        o.case(&format!("parse {}", hex(t1.as_bytes())), "err");
        o.count("class:formatted_syntax_error");
        return true;
    }
    let a2 = ast::from_real(p2.main_schema());
    let d2 = ast::dump(&a2);
    let dc = ast::dump(&ast::canon(&a1));
    if d2 != dc {
        o.mon(&format!("formatted_ast_differs{}", tag), src, imports, &format!("canon(parse(src)) {}\nparse(fmt(src)) {}\n{}", dc, d2, t1));
        o.case(&format!("rt {}", d1), "bad");
    } else {
        o.case(&format!("rt {}", d1), "ok");
    }
    o.case(&format!("lex {}", d1), "ok");
    o.case(&format!("parse {}", hex(t1.as_bytes())), &format!("ok {}", d2));
    let g2 = diags(&p2);
    // the `use a free id` hints are handed out in HashMap order (C17's finding): not a formatter matter
    let stable = |v: &Vec<String>| -> Vec<String> {
        let mut out: Vec<String> = v
            .iter()
            .map(|s| match s.find("free_id: ") {
                Some(i) => {
                    let rest = &s[i + 9..];
                    let n = rest.chars().take_while(|c| c.is_ascii_digit()).count();
                    format!("{}free_id: _{}", &s[..i], &rest[n..])
                }
                None => s.clone(),
            })
            .collect();
        out.sort();
        out
    };
    let (g1s, g2s) = (stable(&g1.sigs), stable(&g2.sigs));
    if g1s != g2s {
        let only1: Vec<_> = g1s.iter().filter(|s| !g2s.contains(s)).collect();
        let only2: Vec<_> = g2s.iter().filter(|s| !g1s.contains(s)).collect();
        o.mon("diagnostics_differ_after_formatting", src, imports, &format!("only before: {:?}\nonly after: {:?}\n{}", only1, only2, t1));
    }
    match Formatter::new(&p2) {
        Ok(f2) => {
            let t2 = f2.to_string();
            if t2 != t1 {
                o.mon("not_idempotent", src, imports, &format!("{}\n----\n{}", t1, t2));
            }
        }
        Err(_) => o.mon("formatter_refuses_own_output", src, imports, &t1),
    }
    o.count(if t1 == src { "class:already_formatted" } else { "class:reformatted" });
    if g1.n_errors == 0 {
        o.count("class:no_errors");
    } else {
        o.count("class:semantic_errors");
    }
    if !a1.defs.is_empty() || !a1.imports.is_empty() {
        o.distinct.insert(fnv(src));
    }
    true
}

// ------------------------------------------------------------------ C17

/// everything observable about one front-end run, position-free parts and exact parts
pub struct FrontEnd {
    pub sigs: Vec<String>,
    pub rendered: Vec<String>,
    pub formatted: Option<String>,
    pub generated: Option<String>,
    pub n_errors: usize,
    pub syntax: bool,
    pub ast: Option<String>,
    pub raw_order: Vec<String>,
}

pub fn front_end(src: &Option<String>, imports: &Imports, variant: u64) -> FrontEnd {
    let mut r = MemoryResolver::new(
        MAIN,
        match src {
            Some(s) => Ok(s.clone()),
            None => Err(std::io::Error::new(std::io::ErrorKind::NotFound, "missing")),
        },
    );
    for (n, s) in imports {
        match s {
            Some(s) => r.add(n.clone(), Ok(s.clone())),
            None => r.add(n.clone(), Err(std::io::Error::new(std::io::ErrorKind::Other, "unreadable"))),
        };
    }
    let p = Parser::parse(r);
    let renderer = Renderer::new(variant & 1 == 1, variant & 2 == 2, [100usize, 20, 60, 400][(variant as usize >> 2) & 3]);
    let mut rendered = Vec::new();
    let mut raw_order = Vec::new();
    for e in p.errors() {
        rendered.push(e.render(&renderer, &p));
        raw_order.push(format!("{:?}", e));
        let _ = (e.kind(), e.schema_name());
    }
    for w in p.warnings().iter().chain(p.other_warnings()) {
        rendered.push(w.render(&renderer, &p));
        raw_order.push(format!("{:?}", w));
        let _ = (w.kind(), w.schema_name());
    }
    rendered.sort();
    let g = diags(&p);
    let formatted = match Formatter::new(&p) {
        Ok(f) => Some(f.to_string()),
        Err(errs) => {
            for e in errs {
                let _ = e.render(&renderer, &p);
            }
            None
        }
    };
    let generated = if p.errors().is_empty() {
        let mut opts = Options::new();
        opts.introspection = variant & 16 == 16;
        opts.client = variant & 32 == 0;
        opts.server = variant & 64 == 0;
        let mut ro = RustOptions::new();
        if variant & 128 == 128 {
            ro.introspection_if = Some("introspection");
            ro.krate = Some("::my_aldrin");
        }
        let gen = Generator::new(&opts, &p);
        Some(match gen.rust(&ro) {
            Ok(out) => format!("{}\n{}", out.module_name, out.module_content),
            Err(e) => format!("!ERR {:?}", e),
        })
    } else {
        None
    };
    let syntax = main_syntax_error(&p);
    let ast = if syntax || src.is_none() { None } else { Some(ast::dump(&ast::from_real(p.main_schema()))) };
    FrontEnd { sigs: g.sigs, rendered, formatted, generated, n_errors: g.n_errors, syntax, ast, raw_order }
}
