//! Renders an AST into source text with arbitrary layout: optional whitespace wherever the
//! grammar allows it (none, blanks, tabs, LF/CRLF, blank lines, Unicode spaces), comments, doc
//! strings and attributes of a prelude interleaved in any order, single- or multi-line bodies,
//! fallbacks in either order, both spellings of `fn` bodies, trailing commas in attributes.
//! Grammar facts respected (DESIGN §5 items 5 and 8): the keywords `import struct enum service
//! fn event const newtype required` need following whitespace; a non-required field called
//! `required` must NOT be followed by whitespace (else `required` is taken as the keyword).
use super::ast::*;
use verif_harness::Rng;

pub struct Layout<'a> {
    pub rng: &'a mut Rng,
    pub out: String,
    /// 0 = canonical-ish (one blank), 1 = compact (no optional whitespace), 2 = chaotic
    pub style: u32,
    pub crlf: bool,
    pub uni_ws: bool,
}

impl<'a> Layout<'a> {
    pub fn new(rng: &'a mut Rng) -> Self {
        let style = *rng.pick(&[0, 1, 2, 2, 2]);
        let crlf = rng.chance(1, 4);
        let uni_ws = rng.chance(1, 5);
        Layout { rng, out: String::new(), style, crlf, uni_ws }
    }

    fn nl(&mut self) -> &'static str {
        if self.crlf && self.rng.chance(3, 4) {
            "\r\n"
        } else {
            "\n"
        }
    }

    /// at least one whitespace character
    fn ws1(&mut self) {
        match self.style {
            0 | 1 => self.out.push(' '),
            _ => {
                let n = 1 + self.rng.below(3);
                for _ in 0..n {
                    self.one_ws();
                }
            }
        }
    }

    fn one_ws(&mut self) {
        let r = self.rng.below(100);
        if r < 55 {
            self.out.push(' ');
        } else if r < 65 {
            self.out.push('\t');
        } else if r < 90 {
            let n = self.nl();
            self.out.push_str(n);
        } else if self.uni_ws {
            let c = *self.rng.pick(&['\u{a0}', '\u{2028}', '\u{3000}', '\u{85}', '\u{b}', '\u{c}', '\u{2003}', '\r']);
            self.out.push(c);
        } else {
            self.out.push(' ');
        }
    }

    /// optional whitespace
    fn ws(&mut self) {
        match self.style {
            0 => self.out.push(' '),
            1 => {}
            _ => {
                let n = *self.rng.pick(&[0u64, 0, 1, 1, 2, 4]);
                for _ in 0..n {
                    self.one_ws();
                }
            }
        }
    }

    /// whitespace between items (lines)
    fn brk(&mut self) {
        match self.style {
            0 => {
                let n = self.nl();
                self.out.push_str(n)
            }
            1 => {}
            _ => self.ws(),
        }
    }

    fn tok(&mut self, t: &str) {
        self.out.push_str(t);
    }

    /// keyword that needs following whitespace
    fn kw(&mut self, k: &str) {
        self.tok(k);
        self.ws1();
    }

    fn line_comment(&mut self, lead: &str, inner: &str, allow_tight: bool) {
        self.tok(lead);
        let tight_ok = allow_tight && !inner.is_empty() && !inner.starts_with(' ');
        if inner.is_empty() {
            // nothing, or blanks that trim away
        } else if tight_ok && self.style != 0 && self.rng.chance(1, 3) {
            self.tok(inner);
        } else {
            self.tok(" ");
            self.tok(inner);
        }
        if self.style == 2 {
            for _ in 0..*self.rng.pick(&[0u64, 0, 0, 1, 2]) {
                let c = *self.rng.pick(&[' ', '\t', ' ', '\r', '\u{a0}']);
                self.out.push(c);
            }
        }
        let n = self.nl();
        self.out.push_str(n);
    }

    fn comment(&mut self, inner: &str) {
        // `//x` is only the same comment when x does not start with ' ', '/' or '!'
        let tight = !(inner.starts_with('/') || inner.starts_with('!'));
        self.line_comment("//", inner, tight);
    }

    /// the prelude items in a random interleaving that keeps the order inside each class
    fn prelude(&mut self, comment: &[String], doc: &[String], attrs: &[Attr], inline: bool) {
        let (mut i, mut j, mut k) = (0, 0, 0);
        while i < comment.len() || j < doc.len() || k < attrs.len() {
            let mut choices = Vec::new();
            if i < comment.len() {
                choices.push(0);
            }
            if j < doc.len() {
                choices.push(1);
            }
            if k < attrs.len() {
                choices.push(2);
            }
            // style 0 keeps the formatter's order
            let c = if self.style == 0 { choices[0] } else { *self.rng.pick(&choices) };
            self.ws();
            match c {
                0 => {
                    self.comment(&comment[i]);
                    i += 1;
                }
                1 => {
                    self.line_comment(if inline { "//!" } else { "///" }, &doc[j], true);
                    j += 1;
                }
                _ => {
                    self.attr(&attrs[k], inline);
                    k += 1;
                }
            }
        }
        self.ws();
    }

    fn attr(&mut self, a: &Attr, inline: bool) {
        self.tok("#");
        self.ws();
        if inline {
            self.tok("!");
            self.ws();
        }
        self.tok("[");
        self.ws();
        self.tok(&a.name);
        self.ws();
        if !a.opts.is_empty() {
            self.tok("(");
            for (n, o) in a.opts.iter().enumerate() {
                if n > 0 {
                    self.tok(",");
                }
                self.ws();
                self.tok(o);
                self.ws();
            }
            if self.style != 0 && self.rng.chance(1, 3) {
                self.tok(",");
                self.ws();
            }
            self.tok(")");
            self.ws();
        }
        self.tok("]");
        self.brk();
    }

    fn nref(&mut self, r: &NamedRef) {
        match r {
            NamedRef::Intern(n) => self.tok(n),
            NamedRef::Extern(a, b) => {
                self.tok(a);
                if self.style == 2 {
                    self.ws();
                }
                self.tok("::");
                if self.style == 2 {
                    self.ws();
                }
                self.tok(b);
            }
        }
    }

    fn ty(&mut self, t: &Type) {
        match t {
            Type::Prim(k) => self.tok(k),
            Type::Gen1(k, a) => {
                self.tok(k);
                self.tws();
                self.tok("<");
                self.tws();
                self.ty(a);
                self.tws();
                self.tok(">");
            }
            Type::Map(a, b) => {
                self.tok("map");
                self.tws();
                self.tok("<");
                self.tws();
                self.ty(a);
                self.ws();
                self.tok("->");
                self.ws();
                self.ty(b);
                self.tws();
                self.tok(">");
            }
            Type::Result(a, b) => {
                self.tok("result");
                self.tws();
                self.tok("<");
                self.tws();
                self.ty(a);
                self.tws();
                self.tok(",");
                self.ws();
                self.ty(b);
                self.tws();
                self.tok(">");
            }
            Type::Array(a, l) => {
                self.tok("[");
                self.tws();
                self.ty(a);
                self.tws();
                self.tok(";");
                self.ws();
                match l {
                    ArrayLen::Lit(s) => self.tok(s),
                    ArrayLen::Ref(r) => self.nref(r),
                }
                self.tws();
                self.tok("]");
            }
            Type::Ref(r) => self.nref(r),
        }
    }

    /// whitespace inside type expressions: only in the chaotic style
    fn tws(&mut self) {
        if self.style == 2 {
            self.ws();
        }
    }

    fn field(&mut self, f: &Field) {
        self.prelude(&f.comment, &f.doc, &[], false);
        if f.req {
            self.kw("required");
        }
        self.tok(&f.name);
        if !(f.name == "required" && !f.req) {
            self.ws();
        }
        self.tok("@");
        self.ws();
        self.tok(&f.id);
        self.ws();
        self.tok("=");
        self.ws();
        self.ty(&f.ty);
        self.ws();
        self.tok(";");
        self.brk();
    }

    fn fallback(&mut self, f: &Fallback, kw: Option<&str>) {
        self.prelude(&f.comment, &f.doc, &[], false);
        if let Some(k) = kw {
            self.kw(k);
        }
        self.tok(&f.name);
        self.ws();
        self.tok("=");
        self.ws();
        self.tok("fallback");
        self.ws();
        self.tok(";");
        self.brk();
    }

    fn variant(&mut self, v: &Variant) {
        self.prelude(&v.comment, &v.doc, &[], false);
        self.tok(&v.name);
        self.ws();
        self.tok("@");
        self.ws();
        self.tok(&v.id);
        self.ws();
        if let Some(t) = &v.ty {
            self.tok("=");
            self.ws();
            self.ty(t);
            self.ws();
        }
        self.tok(";");
        self.brk();
    }

    fn struct_body(&mut self, fields: &[Field], fb: &Option<Fallback>) {
        for f in fields {
            self.field(f);
        }
        if let Some(f) = fb {
            self.fallback(f, None);
        }
        self.ws();
    }

    fn enum_body(&mut self, vars: &[Variant], fb: &Option<Fallback>) {
        for v in vars {
            self.variant(v);
        }
        if let Some(f) = fb {
            self.fallback(f, None);
        }
        self.ws();
    }

    /// `type_name_or_inline`: `T ;` or an inline struct/enum (no terminator)
    fn tyinl(&mut self, t: &TyInl) {
        match t {
            TyInl::Ty(t) => {
                self.ty(t);
                self.ws();
                self.tok(";");
            }
            TyInl::Struct(s) => {
                self.kw("struct");
                self.tok("{");
                self.prelude(&[], &s.doc, &s.attrs, true);
                self.struct_body(&s.fields, &s.fallback);
                self.tok("}");
            }
            TyInl::Enum(s) => {
                self.kw("enum");
                self.tok("{");
                self.prelude(&[], &s.doc, &s.attrs, true);
                self.enum_body(&s.vars, &s.fallback);
                self.tok("}");
            }
        }
        self.brk();
    }

    fn part(&mut self, kw: &str, p: &Part) {
        self.prelude(&p.comment, &[], &[], false);
        self.tok(kw);
        self.ws();
        self.tok("=");
        self.ws();
        self.tyinl(&p.ty);
    }

    fn item(&mut self, i: &Item) {
        match i {
            Item::Fn(f) => {
                self.prelude(&f.comment, &f.doc, &[], false);
                self.kw("fn");
                self.tok(&f.name);
                self.ws();
                self.tok("@");
                self.ws();
                self.tok(&f.id);
                self.ws();
                let ok_plain = f.ok.as_ref().map(|o| o.comment.is_empty()).unwrap_or(false);
                let only_ok = f.args.is_none() && f.err.is_none();
                if only_ok && f.ok.is_none() && self.rng.chance(2, 3) {
                    self.tok(";");
                    self.brk();
                } else if only_ok && ok_plain && self.rng.chance(2, 3) {
                    self.tok("=");
                    self.ws();
                    self.tyinl(&f.ok.as_ref().unwrap().ty);
                } else {
                    self.tok("{");
                    self.ws();
                    if let Some(p) = &f.args {
                        self.part("args", p);
                    }
                    if let Some(p) = &f.ok {
                        self.part("ok", p);
                    }
                    if let Some(p) = &f.err {
                        self.part("err", p);
                    }
                    self.ws();
                    self.tok("}");
                    self.brk();
                }
            }
            Item::Ev(e) => {
                self.prelude(&e.comment, &e.doc, &[], false);
                self.kw("event");
                self.tok(&e.name);
                self.ws();
                self.tok("@");
                self.ws();
                self.tok(&e.id);
                self.ws();
                match &e.ty {
                    None => {
                        self.tok(";");
                        self.brk();
                    }
                    Some(t) => {
                        self.tok("=");
                        self.ws();
                        self.tyinl(t);
                    }
                }
            }
        }
    }

    fn def(&mut self, d: &Def) {
        match d {
            Def::Struct(s) => {
                self.prelude(&s.comment, &s.doc, &s.attrs, false);
                self.kw("struct");
                self.tok(&s.name);
                self.ws();
                self.tok("{");
                self.brk();
                self.struct_body(&s.fields, &s.fallback);
                self.tok("}");
            }
            Def::Enum(s) => {
                self.prelude(&s.comment, &s.doc, &s.attrs, false);
                self.kw("enum");
                self.tok(&s.name);
                self.ws();
                self.tok("{");
                self.brk();
                self.enum_body(&s.vars, &s.fallback);
                self.tok("}");
            }
            Def::Service(s) => {
                self.prelude(&s.comment, &s.doc, &[], false);
                self.kw("service");
                self.tok(&s.name);
                self.ws();
                self.tok("{");
                self.brk();
                self.prelude(&s.uuid_comment, &[], &[], false);
                self.tok("uuid");
                self.ws();
                self.tok("=");
                self.ws();
                self.tok(&s.uuid);
                self.ws();
                self.tok(";");
                self.brk();
                self.prelude(&s.ver_comment, &[], &[], false);
                self.tok("version");
                self.ws();
                self.tok("=");
                self.ws();
                self.tok(&s.ver);
                self.ws();
                self.tok(";");
                self.brk();
                for i in &s.items {
                    self.item(i);
                }
                let ev_first = self.style != 0 && self.rng.chance(1, 2);
                if ev_first {
                    if let Some(f) = &s.ev_fb {
                        self.fallback(f, Some("event"));
                    }
                }
                if let Some(f) = &s.fn_fb {
                    self.fallback(f, Some("fn"));
                }
                if !ev_first {
                    if let Some(f) = &s.ev_fb {
                        self.fallback(f, Some("event"));
                    }
                }
                self.ws();
                self.tok("}");
            }
            Def::Const(c) => {
                self.prelude(&c.comment, &c.doc, &[], false);
                self.kw("const");
                self.tok(&c.name);
                self.ws();
                self.tok("=");
                self.ws();
                self.tok(c.ty);
                self.ws();
                self.tok("(");
                self.ws();
                self.tok(&c.val);
                self.ws();
                self.tok(")");
                self.ws();
                self.tok(";");
            }
            Def::Newtype(n) => {
                self.prelude(&n.comment, &n.doc, &n.attrs, false);
                self.kw("newtype");
                self.tok(&n.name);
                self.ws();
                self.tok("=");
                self.ws();
                self.ty(&n.ty);
                self.ws();
                self.tok(";");
            }
        }
        self.brk();
    }

    pub fn schema(&mut self, s: &Schema) {
        // header: every `//!` line may be preceded by some of the schema comments
        self.ws();
        let mut ci = 0;
        for (n, d) in s.doc.iter().enumerate() {
            let last = n + 1 == s.doc.len();
            let take = if last {
                s.comment.len() - ci
            } else if self.style == 0 {
                0
            } else {
                self.rng.below((s.comment.len() - ci + 1) as u64) as usize
            };
            for _ in 0..take {
                self.ws();
                let c = s.comment[ci].clone();
                self.comment(&c);
                ci += 1;
            }
            self.ws();
            self.line_comment("//!", d, true);
        }
        for i in &s.imports {
            self.prelude(&i.comment, &[], &[], false);
            self.kw("import");
            self.tok(&i.name);
            self.ws();
            self.tok(";");
            self.brk();
        }
        for d in &s.defs {
            self.def(d);
        }
        // trailing whitespace (never a trailing comment: the grammar has no place for it)
        if self.style == 2 {
            self.ws();
        }
    }
}

pub fn render(rng: &mut Rng, s: &Schema) -> String {
    let mut l = Layout::new(rng);
    l.schema(s);
    l.out
}
