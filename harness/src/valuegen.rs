//! Structured generator of `Value` trees: all 43 kinds, integers biased to the varint and
//! zigzag boundaries, NaN payloads, empty and large containers, every container kind as a
//! nesting step, depths 1..40.
use crate::Rng;
use aldrin_core::{
    Bytes, ChannelCookie, Enum, ObjectCookie, ObjectId, ObjectUuid, ServiceCookie, ServiceId,
    ServiceUuid, Struct, Value,
};
use std::collections::{HashMap, HashSet};
use uuid::Uuid;

/// unsigned boundary-biased integer below 2^bits
pub fn gen_uint(r: &mut Rng, bits: u32) -> u64 {
    let max = if bits == 64 { u64::MAX } else { (1u64 << bits) - 1 };
    let w = (bits / 8) as u64;
    let v = match r.below(8) {
        0 => r.below(4),
        1 => max - r.below(3).min(max),
        // the one-byte threshold 255-W and its neighbours
        2 => (255 - w) + r.below(4) - 2,
        // 2^(8k) +- 1
        3 => {
            let k = r.range(1, w.max(1));
            let p = if 8 * k >= 64 { u64::MAX } else { 1u64 << (8 * k) };
            p.wrapping_add(r.below(3)).wrapping_sub(1)
        }
        4 => {
            let k = r.below(bits as u64 + 1) as u32;
            if k == 0 {
                0
            } else if k == 64 {
                r.next()
            } else {
                r.next() & ((1u64 << k) - 1)
            }
        }
        5 => r.below(300),
        _ => r.next(),
    };
    v & max
}

pub fn gen_sint(r: &mut Rng, bits: u32) -> i64 {
    // choose the zigzag image with the unsigned bias, then decode: boundaries of the encoding
    let z = gen_uint(r, bits);
    let v = ((z >> 1) as i64) ^ -((z & 1) as i64);
    match r.below(10) {
        0 => {
            if bits == 64 {
                i64::MIN
            } else {
                -(1i64 << (bits - 1))
            }
        }
        1 => {
            if bits == 64 {
                i64::MAX
            } else {
                (1i64 << (bits - 1)) - 1
            }
        }
        _ => v,
    }
}

pub fn gen_string(r: &mut Rng) -> String {
    let n = match r.below(10) {
        0 => 0,
        1 => r.range(250, 260) as usize,
        2 if r.chance(1, 6) => r.range(65000, 66000) as usize,
        _ => r.below(12) as usize,
    };
    let n = if n > 64 && !spend(n) { n % 7 } else { n };
    let alphabet = ['a', 'b', 'z', '0', ' ', '\u{e9}', '\u{20ac}', '\u{1f600}', '\u{7f}', '\0'];
    (0..n).map(|_| *r.pick(&alphabet)).collect()
}

pub fn gen_uuid(r: &mut Rng) -> Uuid {
    match r.below(4) {
        0 => Uuid::from_u128(r.below(4) as u128),
        _ => Uuid::from_u128(((r.next() as u128) << 64) | r.next() as u128),
    }
}

fn gen_f32(r: &mut Rng) -> f32 {
    let bits = match r.below(6) {
        0 => 0x7fc0_0000 | (r.next() as u32 & 0x003f_ffff), // quiet NaN with payload
        1 => 0x7f80_0001 | (r.next() as u32 & 0x003f_fffe), // signalling NaN
        2 => 0xffc0_0000 | (r.next() as u32 & 0x003f_ffff),
        3 => *r.pick(&[0u32, 0x8000_0000, 0x7f80_0000, 0xff80_0000, 1, 0x3f80_0000]),
        _ => r.next() as u32,
    };
    f32::from_bits(bits)
}

fn gen_f64(r: &mut Rng) -> f64 {
    let bits = match r.below(6) {
        0 => 0x7ff8_0000_0000_0000 | (r.next() & 0x0007_ffff_ffff_ffff),
        1 => 0x7ff0_0000_0000_0001 | (r.next() & 0x0007_ffff_ffff_fffe),
        2 => 0xfff8_0000_0000_0000 | (r.next() & 0x0007_ffff_ffff_ffff),
        3 => *r.pick(&[0u64, 1 << 63, 0x7ff0_0000_0000_0000, 0xfff0_0000_0000_0000, 1]),
        _ => r.next(),
    };
    f64::from_bits(bits)
}

thread_local! {
    /// node budget of the value being generated: keeps every generated value small enough
    static BUDGET: std::cell::Cell<i64> = std::cell::Cell::new(0);
}

pub fn set_budget(n: i64) {
    BUDGET.with(|b| b.set(n));
}

fn spend(n: usize) -> bool {
    BUDGET.with(|b| {
        let left = b.get() - n as i64;
        b.set(left);
        left > 0
    })
}

fn count(r: &mut Rng, big_ok: bool) -> usize {
    let n = match r.below(12) {
        0 | 1 => 0,
        2 if big_ok => r.range(250, 260) as usize,
        3 if big_ok && r.chance(1, 8) => r.range(65530, 65600) as usize,
        _ => r.range(1, 4) as usize,
    };
    if spend(n) {
        n
    } else {
        n.min(1)
    }
}

macro_rules! gen_map {
    ($r:expr, $kf:expr, $big:expr, $child:expr) => {{
        let n = count($r, $big).min(600);
        let mut m = HashMap::new();
        for _ in 0..n {
            let k = $kf($r);
            let v = $child($r);
            m.insert(k, v);
        }
        m
    }};
}

macro_rules! gen_set {
    ($r:expr, $kf:expr) => {{
        let n = count($r, true).min(600);
        let mut m = HashSet::new();
        for _ in 0..n {
            m.insert($kf($r));
        }
        m
    }};
}

/// a leaf (non-nesting) value: 31 of the 43 kinds
pub fn gen_leaf(r: &mut Rng) -> Value {
    if !spend(1) {
        return Value::U8(r.next() as u8);
    }
    match r.below(31) {
        0 => Value::None,
        1 => Value::Bool(r.chance(1, 2)),
        2 => Value::U8(gen_uint(r, 8) as u8),
        3 => Value::I8(gen_sint(r, 8) as i8),
        4 => Value::U16(gen_uint(r, 16) as u16),
        5 => Value::I16(gen_sint(r, 16) as i16),
        6 => Value::U32(gen_uint(r, 32) as u32),
        7 => Value::I32(gen_sint(r, 32) as i32),
        8 => Value::U64(gen_uint(r, 64)),
        9 => Value::I64(gen_sint(r, 64)),
        10 => Value::F32(gen_f32(r)),
        11 => Value::F64(gen_f64(r)),
        12 => Value::String(gen_string(r)),
        13 => Value::Uuid(gen_uuid(r)),
        14 => Value::ObjectId(ObjectId::new(ObjectUuid(gen_uuid(r)), ObjectCookie(gen_uuid(r)))),
        15 => Value::ServiceId(ServiceId::new(
            ObjectId::new(ObjectUuid(gen_uuid(r)), ObjectCookie(gen_uuid(r))),
            ServiceUuid(gen_uuid(r)),
            ServiceCookie(gen_uuid(r)),
        )),
        16 => {
            let n = match r.below(8) {
                0 => 0,
                1 => r.range(250, 260) as usize,
                2 if r.chance(1, 6) => r.range(65530, 65600) as usize,
                _ => r.below(9) as usize,
            };
            let n = if n > 64 && !spend(n) { n % 7 } else { n };
            Value::Bytes(Bytes(r.bytes(n)))
        }
        17 => Value::U8Set(gen_set!(r, |r: &mut Rng| gen_uint(r, 8) as u8)),
        18 => Value::I8Set(gen_set!(r, |r: &mut Rng| gen_sint(r, 8) as i8)),
        19 => Value::U16Set(gen_set!(r, |r: &mut Rng| gen_uint(r, 16) as u16)),
        20 => Value::I16Set(gen_set!(r, |r: &mut Rng| gen_sint(r, 16) as i16)),
        21 => Value::U32Set(gen_set!(r, |r: &mut Rng| gen_uint(r, 32) as u32)),
        22 => Value::I32Set(gen_set!(r, |r: &mut Rng| gen_sint(r, 32) as i32)),
        23 => Value::U64Set(gen_set!(r, |r: &mut Rng| gen_uint(r, 64))),
        24 => Value::I64Set(gen_set!(r, |r: &mut Rng| gen_sint(r, 64))),
        25 => Value::StringSet(gen_set!(r, gen_string)),
        26 => Value::UuidSet(gen_set!(r, gen_uuid)),
        27 => Value::Sender(ChannelCookie(gen_uuid(r))),
        28 => Value::Receiver(ChannelCookie(gen_uuid(r))),
        29 => Value::Vec(Vec::new()),
        _ => Value::Struct(Struct(HashMap::new())),
    }
}

/// wrap children produced by `child` in a nesting step of kind `which` (0..=14): Some, Vec,
/// ten maps, Struct, Enum; one designated child is `spine`, siblings come from `child`.
fn nest(r: &mut Rng, which: u64, spine: Value, big_ok: bool, child: &mut dyn FnMut(&mut Rng) -> Value) -> Value {
    macro_rules! m {
        ($variant:ident, $kf:expr) => {{
            let mut m = gen_map!(r, $kf, big_ok, |r: &mut Rng| child(r));
            m.insert($kf(r), spine);
            Value::$variant(m)
        }};
    }
    match which {
        0 => Value::Some(Box::new(spine)),
        1 => {
            let n = count(r, big_ok);
            let mut l: Vec<Value> = (0..n).map(|_| child(r)).collect();
            let pos = r.below(l.len() as u64 + 1) as usize;
            l.insert(pos, spine);
            Value::Vec(l)
        }
        2 => m!(U8Map, |r: &mut Rng| gen_uint(r, 8) as u8),
        3 => m!(I8Map, |r: &mut Rng| gen_sint(r, 8) as i8),
        4 => m!(U16Map, |r: &mut Rng| gen_uint(r, 16) as u16),
        5 => m!(I16Map, |r: &mut Rng| gen_sint(r, 16) as i16),
        6 => m!(U32Map, |r: &mut Rng| gen_uint(r, 32) as u32),
        7 => m!(I32Map, |r: &mut Rng| gen_sint(r, 32) as i32),
        8 => m!(U64Map, |r: &mut Rng| gen_uint(r, 64)),
        9 => m!(I64Map, |r: &mut Rng| gen_sint(r, 64)),
        10 => m!(StringMap, gen_string),
        11 => m!(UuidMap, gen_uuid),
        12 => {
            let mut m = gen_map!(r, |r: &mut Rng| gen_uint(r, 32) as u32, big_ok, |r: &mut Rng| child(r));
            m.insert(gen_uint(r, 32) as u32, spine);
            Value::Struct(Struct(m))
        }
        _ => Value::Enum(Box::new(Enum::new(gen_uint(r, 32) as u32, spine))),
    }
}

/// a bushy tree of depth at most `depth`
pub fn gen_tree(r: &mut Rng, depth: u32) -> Value {
    if depth <= 1 || r.chance(1, 3) {
        return gen_leaf(r);
    }
    let spine = gen_tree(r, depth - 1);
    let which = r.below(14);
    // large containers hold leaves only
    let big = depth <= 2;
    let mut child = |r: &mut Rng| if big { gen_leaf(r) } else { gen_tree(r, (depth - 1).min(3)) };
    nest(r, which, spine, big, &mut child)
}

/// a value of depth exactly `depth`: a spine of random nesting steps with leaf siblings
pub fn gen_chain(r: &mut Rng, depth: u32) -> Value {
    let mut v = gen_leaf(r);
    // leaves Vec([]) / Struct({}) have depth 1 as well
    for _ in 1..depth {
        let which = r.below(14);
        let mut child = |r: &mut Rng| gen_leaf(r);
        v = nest(r, which, v, false, &mut child);
    }
    v
}

pub fn depth(v: &Value) -> u32 {
    fn mx<'a>(it: impl Iterator<Item = &'a Value>) -> u32 {
        it.map(depth).max().unwrap_or(0)
    }
    match v {
        Value::Some(x) => 1 + depth(x),
        Value::Enum(e) => 1 + depth(&e.value),
        Value::Vec(l) => 1 + mx(l.iter()),
        Value::U8Map(m) => 1 + mx(m.values()),
        Value::I8Map(m) => 1 + mx(m.values()),
        Value::U16Map(m) => 1 + mx(m.values()),
        Value::I16Map(m) => 1 + mx(m.values()),
        Value::U32Map(m) => 1 + mx(m.values()),
        Value::I32Map(m) => 1 + mx(m.values()),
        Value::U64Map(m) => 1 + mx(m.values()),
        Value::I64Map(m) => 1 + mx(m.values()),
        Value::StringMap(m) => 1 + mx(m.values()),
        Value::UuidMap(m) => 1 + mx(m.values()),
        Value::Struct(s) => 1 + mx(s.0.values()),
        _ => 1,
    }
}

pub fn kind_name(v: &Value) -> &'static str {
    match v {
        Value::None => "None",
        Value::Some(_) => "Some",
        Value::Bool(_) => "Bool",
        Value::U8(_) => "U8",
        Value::I8(_) => "I8",
        Value::U16(_) => "U16",
        Value::I16(_) => "I16",
        Value::U32(_) => "U32",
        Value::I32(_) => "I32",
        Value::U64(_) => "U64",
        Value::I64(_) => "I64",
        Value::F32(_) => "F32",
        Value::F64(_) => "F64",
        Value::String(_) => "String",
        Value::Uuid(_) => "Uuid",
        Value::ObjectId(_) => "ObjectId",
        Value::ServiceId(_) => "ServiceId",
        Value::Vec(_) => "Vec",
        Value::Bytes(_) => "Bytes",
        Value::U8Map(_) => "U8Map",
        Value::I8Map(_) => "I8Map",
        Value::U16Map(_) => "U16Map",
        Value::I16Map(_) => "I16Map",
        Value::U32Map(_) => "U32Map",
        Value::I32Map(_) => "I32Map",
        Value::U64Map(_) => "U64Map",
        Value::I64Map(_) => "I64Map",
        Value::StringMap(_) => "StringMap",
        Value::UuidMap(_) => "UuidMap",
        Value::U8Set(_) => "U8Set",
        Value::I8Set(_) => "I8Set",
        Value::U16Set(_) => "U16Set",
        Value::I16Set(_) => "I16Set",
        Value::U32Set(_) => "U32Set",
        Value::I32Set(_) => "I32Set",
        Value::U64Set(_) => "U64Set",
        Value::I64Set(_) => "I64Set",
        Value::StringSet(_) => "StringSet",
        Value::UuidSet(_) => "UuidSet",
        Value::Struct(_) => "Struct",
        Value::Enum(_) => "Enum",
        Value::Sender(_) => "Sender",
        Value::Receiver(_) => "Receiver",
    }
}

/// visit every node (for the kind histogram)
pub fn walk(v: &Value, f: &mut dyn FnMut(&Value)) {
    f(v);
    match v {
        Value::Some(x) => walk(x, f),
        Value::Enum(e) => walk(&e.value, f),
        Value::Vec(l) => l.iter().for_each(|x| walk(x, f)),
        Value::U8Map(m) => m.values().for_each(|x| walk(x, f)),
        Value::I8Map(m) => m.values().for_each(|x| walk(x, f)),
        Value::U16Map(m) => m.values().for_each(|x| walk(x, f)),
        Value::I16Map(m) => m.values().for_each(|x| walk(x, f)),
        Value::U32Map(m) => m.values().for_each(|x| walk(x, f)),
        Value::I32Map(m) => m.values().for_each(|x| walk(x, f)),
        Value::U64Map(m) => m.values().for_each(|x| walk(x, f)),
        Value::I64Map(m) => m.values().for_each(|x| walk(x, f)),
        Value::StringMap(m) => m.values().for_each(|x| walk(x, f)),
        Value::UuidMap(m) => m.values().for_each(|x| walk(x, f)),
        Value::Struct(s) => s.0.values().for_each(|x| walk(x, f)),
        _ => {}
    }
}
