//! Shared pieces of the correspondence harness: PRNG, value generator, the text format the
//! model driver reads (`extract/driver.ml`), canonical printing.
#![allow(clippy::all)]

pub mod brokertrack;
pub mod msgfmt;
pub mod valuefmt;
pub mod valuegen;

/// splitmix64: every random choice of a run derives from one seed
#[derive(Clone)]
pub struct Rng(pub u64);

impl Rng {
    pub fn new(seed: u64) -> Self {
        Rng(seed ^ 0x9E37_79B9_7F4A_7C15)
    }
    pub fn next(&mut self) -> u64 {
        self.0 = self.0.wrapping_add(0x9E37_79B9_7F4A_7C15);
        let mut z = self.0;
        z = (z ^ (z >> 30)).wrapping_mul(0xBF58_476D_1CE4_E5B9);
        z = (z ^ (z >> 27)).wrapping_mul(0x94D0_49BB_1331_11EB);
        z ^ (z >> 31)
    }
    pub fn below(&mut self, n: u64) -> u64 {
        if n == 0 {
            0
        } else {
            self.next() % n
        }
    }
    pub fn range(&mut self, lo: u64, hi: u64) -> u64 {
        lo + self.below(hi - lo + 1)
    }
    pub fn chance(&mut self, num: u64, den: u64) -> bool {
        self.below(den) < num
    }
    pub fn pick<'a, T>(&mut self, xs: &'a [T]) -> &'a T {
        &xs[self.below(xs.len() as u64) as usize]
    }
    pub fn bytes(&mut self, n: usize) -> Vec<u8> {
        (0..n).map(|_| self.next() as u8).collect()
    }
}

pub fn hex(b: &[u8]) -> String {
    let mut s = String::with_capacity(b.len() * 2);
    for x in b {
        s.push_str(&format!("{:02x}", x));
    }
    s
}

pub fn unhex(s: &str) -> Vec<u8> {
    (0..s.len() / 2)
        .map(|i| u8::from_str_radix(&s[2 * i..2 * i + 2], 16).unwrap())
        .collect()
}

pub fn env_u64(name: &str, default: u64) -> u64 {
    std::env::var(name)
        .ok()
        .and_then(|s| s.parse().ok())
        .unwrap_or(default)
}

/// Build a `SerializedValue` holding arbitrary bytes (there is no public constructor): wrap the
/// bytes as the payload of a `SendItem` frame and parse the frame.  Needs at least one byte.
pub fn sv_from_bytes(b: &[u8]) -> Option<aldrin_core::SerializedValue> {
    use aldrin_core::message::{Message, MessageKind, MessageOps};
    if b.is_empty() {
        return None;
    }
    let total = 4 + 1 + 4 + b.len() + 16;
    let mut f = bytes::BytesMut::with_capacity(total);
    f.extend_from_slice(&(total as u32).to_le_bytes());
    f.extend_from_slice(&[u8::from(MessageKind::SendItem)]);
    f.extend_from_slice(&(b.len() as u32).to_le_bytes());
    f.extend_from_slice(b);
    f.extend_from_slice(&[0u8; 16]);
    match Message::deserialize_message(f) {
        Ok(Message::SendItem(m)) => Some(m.value),
        _ => None,
    }
}

/// run `f`, mapping a panic to `Err(message)`
pub fn catch<T>(f: impl FnOnce() -> T) -> Result<T, String> {
    let r = std::panic::catch_unwind(std::panic::AssertUnwindSafe(f));
    r.map_err(|e| {
        if let Some(s) = e.downcast_ref::<String>() {
            s.clone()
        } else if let Some(s) = e.downcast_ref::<&str>() {
            s.to_string()
        } else {
            "panic".to_string()
        }
    })
}

pub fn quiet_panics() {
    std::panic::set_hook(Box::new(|_| {}));
}
