//! C16 harness: value generator, specification (conforms / norm) and monitor for the wire contract
//! of generated types.  The generated types themselves live in a per-run corpus crate built by
//! checks/c16.py; this binary never links them.  It shares `types.txt` (the wire-type table the
//! schema generator vlib/c16gen.py writes) with the corpus runner and with the model driver.
//!
//!   derive gen <types.txt> <outdir> <n> [pairs.txt]   cases.txt + expect.txt + stats.json
//!   derive canon <types.txt> <cases.txt> <in.txt> <out.txt>
//!   derive monitor <types.txt> <dir>                  reads cases/expect/impl.txt, writes impl.canon.txt, monitor.txt
#![allow(clippy::all)]

use aldrin_core::tags;
use aldrin_core::{
    Bytes, ChannelCookie, Deserialize, DeserializeError, Deserializer, Enum, ObjectCookie, ObjectId, ObjectUuid,
    SerializedValue, ServiceCookie, ServiceId, ServiceUuid, Struct, Value,
};
use std::collections::{BTreeMap, BTreeSet, HashMap, HashSet};
use std::fmt::Write as _;
use std::io::Write;
use verif_harness::valuefmt::{fmt_value, Legacy};
use verif_harness::valuegen::{gen_sint, gen_string, gen_tree, gen_uint, gen_uuid, set_budget};
use verif_harness::{catch, env_u64, hex, quiet_panics, sv_from_bytes, unhex, Rng};

// ---------------------------------------------------------------- wire types

#[derive(Clone, Copy, Debug, PartialEq, Eq)]
enum K {
    U8,
    I8,
    U16,
    I16,
    U32,
    I32,
    U64,
    I64,
    Str,
    Uuid,
}

#[derive(Clone, Debug)]
enum Ty {
    Unit,
    Bool,
    Int(K),
    F32,
    F64,
    String,
    Uuid,
    ObjectId,
    ServiceId,
    Sender,
    Receiver,
    Bytes,
    Value,
    Opt(Box<Ty>),
    Vec(Box<Ty>),
    Arr(u32, Box<Ty>),
    Map(K, Box<Ty>),
    Set(K),
    Res(Box<Ty>, Box<Ty>),
    Ref(String),
}

#[derive(Clone, Debug)]
enum Def {
    Struct { fb: bool, fields: Vec<(u32, bool, Ty)> },
    Enum { fb: bool, vars: Vec<(u32, Option<Ty>)> },
    Newtype(Ty),
}

struct Table {
    defs: BTreeMap<String, Def>,
    order: Vec<String>,
    rank: HashMap<String, u32>,
}

const INF: u32 = 1_000_000;

fn key_of(s: &str) -> K {
    match s {
        "u8" => K::U8,
        "i8" => K::I8,
        "u16" => K::U16,
        "i16" => K::I16,
        "u32" => K::U32,
        "i32" => K::I32,
        "u64" => K::U64,
        "i64" => K::I64,
        "string" => K::Str,
        "uuid" => K::Uuid,
        _ => panic!("key kind {s}"),
    }
}

fn parse_ty(t: &mut std::slice::Iter<&str>) -> Ty {
    let tok = *t.next().expect("type token");
    match tok {
        "unit" => Ty::Unit,
        "bool" => Ty::Bool,
        "u8" | "i8" | "u16" | "i16" | "u32" | "i32" | "u64" | "i64" => Ty::Int(key_of(tok)),
        "f32" => Ty::F32,
        "f64" => Ty::F64,
        "string" => Ty::String,
        "uuid" => Ty::Uuid,
        "object_id" => Ty::ObjectId,
        "service_id" => Ty::ServiceId,
        "sender" => Ty::Sender,
        "receiver" => Ty::Receiver,
        "bytes" => Ty::Bytes,
        "value" => Ty::Value,
        "opt" => Ty::Opt(Box::new(parse_ty(t))),
        "vec" => Ty::Vec(Box::new(parse_ty(t))),
        "arr" => {
            let n: u32 = t.next().unwrap().parse().unwrap();
            Ty::Arr(n, Box::new(parse_ty(t)))
        }
        "map" => {
            let k = key_of(t.next().unwrap());
            Ty::Map(k, Box::new(parse_ty(t)))
        }
        "set" => Ty::Set(key_of(t.next().unwrap())),
        "res" => {
            let a = parse_ty(t);
            let b = parse_ty(t);
            Ty::Res(Box::new(a), Box::new(b))
        }
        "ref" => Ty::Ref(t.next().unwrap().to_string()),
        _ => panic!("type token {tok}"),
    }
}

impl Table {
    fn load(path: &str) -> Table {
        let text = std::fs::read_to_string(path).expect("types.txt");
        let mut defs = BTreeMap::new();
        let mut order = Vec::new();
        for line in text.lines() {
            let toks: Vec<&str> = line.split_whitespace().collect();
            if toks.is_empty() {
                continue;
            }
            let mut it = toks.iter();
            let kind = *it.next().unwrap();
            let key = it.next().unwrap().to_string();
            let def = match kind {
                "struct" => {
                    let fb = *it.next().unwrap() == "1";
                    let n: usize = it.next().unwrap().parse().unwrap();
                    let mut fields = Vec::new();
                    for _ in 0..n {
                        let id: u32 = it.next().unwrap().parse().unwrap();
                        let req = *it.next().unwrap() == "1";
                        fields.push((id, req, parse_ty(&mut it)));
                    }
                    Def::Struct { fb, fields }
                }
                "enum" => {
                    let fb = *it.next().unwrap() == "1";
                    let n: usize = it.next().unwrap().parse().unwrap();
                    let mut vars = Vec::new();
                    for _ in 0..n {
                        let id: u32 = it.next().unwrap().parse().unwrap();
                        let mut peek = it.clone();
                        if *peek.next().unwrap() == "-" {
                            it.next();
                            vars.push((id, None));
                        } else {
                            vars.push((id, Some(parse_ty(&mut it))));
                        }
                    }
                    Def::Enum { fb, vars }
                }
                "newtype" => Def::Newtype(parse_ty(&mut it)),
                _ => panic!("def kind {kind}"),
            };
            assert!(it.next().is_none(), "trailing tokens in {line}");
            order.push(key.clone());
            defs.insert(key, def);
        }
        let mut t = Table { defs, order, rank: HashMap::new() };
        t.compute_ranks();
        t
    }

    /// rank = number of named definitions that must be entered to build the smallest value
    fn compute_ranks(&mut self) {
        for k in self.defs.keys() {
            self.rank.insert(k.clone(), INF);
        }
        loop {
            let mut changed = false;
            for (k, d) in &self.defs {
                let r = match d {
                    Def::Newtype(t) => self.ty_rank(t).saturating_add(1),
                    Def::Struct { fields, .. } => fields
                        .iter()
                        .filter(|f| f.1)
                        .map(|f| self.ty_rank(&f.2))
                        .max()
                        .unwrap_or(0)
                        .saturating_add(1),
                    Def::Enum { vars, .. } => vars
                        .iter()
                        .map(|v| v.1.as_ref().map(|t| self.ty_rank(t)).unwrap_or(0))
                        .min()
                        .unwrap_or(INF)
                        .saturating_add(1),
                }
                .min(INF);
                if r < self.rank[k] {
                    self.rank.insert(k.clone(), r);
                    changed = true;
                }
            }
            if !changed {
                break;
            }
        }
    }

    fn ty_rank(&self, t: &Ty) -> u32 {
        match t {
            Ty::Arr(_, e) => self.ty_rank(e),
            Ty::Res(a, b) => self.ty_rank(a).min(self.ty_rank(b)),
            Ty::Ref(k) => self.rank[k],
            _ => 0,
        }
    }

    fn def(&self, k: &str) -> &Def {
        self.defs.get(k).unwrap_or_else(|| panic!("unknown type key {k}"))
    }

    /// the struct/enum a root type resolves to through newtypes
    fn root_def(&self, k: &str) -> Option<&Def> {
        let mut d = self.def(k);
        for _ in 0..50 {
            match d {
                Def::Newtype(Ty::Ref(k2)) => d = self.def(k2),
                Def::Newtype(_) => return None,
                _ => return Some(d),
            }
        }
        None
    }
}

// ---------------------------------------------------------------- values of a type

macro_rules! paste_map {
    (U8, $m:expr) => { Value::U8Map($m) };
    (I8, $m:expr) => { Value::I8Map($m) };
    (U16, $m:expr) => { Value::U16Map($m) };
    (I16, $m:expr) => { Value::I16Map($m) };
    (U32, $m:expr) => { Value::U32Map($m) };
    (I32, $m:expr) => { Value::I32Map($m) };
    (U64, $m:expr) => { Value::U64Map($m) };
    (I64, $m:expr) => { Value::I64Map($m) };
    (String, $m:expr) => { Value::StringMap($m) };
    (Uuid, $m:expr) => { Value::UuidMap($m) };
}
macro_rules! paste_set {
    (U8, $m:expr) => { Value::U8Set($m) };
    (I8, $m:expr) => { Value::I8Set($m) };
    (U16, $m:expr) => { Value::U16Set($m) };
    (I16, $m:expr) => { Value::I16Set($m) };
    (U32, $m:expr) => { Value::U32Set($m) };
    (I32, $m:expr) => { Value::I32Set($m) };
    (U64, $m:expr) => { Value::U64Set($m) };
    (I64, $m:expr) => { Value::I64Set($m) };
    (String, $m:expr) => { Value::StringSet($m) };
    (Uuid, $m:expr) => { Value::UuidSet($m) };
}

fn gen_key_u(r: &mut Rng, k: K) -> u64 {
    let bits = match k {
        K::U8 | K::I8 => 8,
        K::U16 | K::I16 => 16,
        K::U32 | K::I32 => 32,
        _ => 64,
    };
    gen_uint(r, bits)
}

macro_rules! per_key {
    ($k:expr, $r:expr, $mk:ident) => {
        match $k {
            K::U8 => $mk!(U8, |r: &mut Rng| gen_key_u(r, K::U8) as u8),
            K::I8 => $mk!(I8, |r: &mut Rng| gen_sint(r, 8) as i8),
            K::U16 => $mk!(U16, |r: &mut Rng| gen_key_u(r, K::U16) as u16),
            K::I16 => $mk!(I16, |r: &mut Rng| gen_sint(r, 16) as i16),
            K::U32 => $mk!(U32, |r: &mut Rng| gen_key_u(r, K::U32) as u32),
            K::I32 => $mk!(I32, |r: &mut Rng| gen_sint(r, 32) as i32),
            K::U64 => $mk!(U64, |r: &mut Rng| gen_key_u(r, K::U64)),
            K::I64 => $mk!(I64, |r: &mut Rng| gen_sint(r, 64)),
            K::Str => $mk!(String, |r: &mut Rng| gen_string(r)),
            K::Uuid => $mk!(Uuid, |r: &mut Rng| gen_uuid(r)),
        }
    };
}

fn gen_int(r: &mut Rng, k: K) -> Value {
    match k {
        K::U8 => Value::U8(gen_uint(r, 8) as u8),
        K::I8 => Value::I8(gen_sint(r, 8) as i8),
        K::U16 => Value::U16(gen_uint(r, 16) as u16),
        K::I16 => Value::I16(gen_sint(r, 16) as i16),
        K::U32 => Value::U32(gen_uint(r, 32) as u32),
        K::I32 => Value::I32(gen_sint(r, 32) as i32),
        K::U64 => Value::U64(gen_uint(r, 64)),
        K::I64 => Value::I64(gen_sint(r, 64)),
        _ => unreachable!(),
    }
}

fn small_count(r: &mut Rng, low: bool) -> usize {
    if low {
        return 0;
    }
    match r.below(10) {
        0 | 1 => 0,
        2..=6 => 1,
        7 | 8 => 2,
        _ => r.range(3, 5) as usize,
    }
}

fn gen_object_id(r: &mut Rng) -> ObjectId {
    ObjectId::new(ObjectUuid(gen_uuid(r)), ObjectCookie(gen_uuid(r)))
}

struct G<'a> {
    t: &'a Table,
    r: Rng,
    /// probability (in 1/8) of adding unknown fields to a struct
    extras: u64,
}

impl<'a> G<'a> {
    fn arbitrary(&mut self) -> Value {
        set_budget(12);
        gen_tree(&mut self.r, 3)
    }

    /// a value conforming to `ty`; `fuel` bounds the number of nested named types
    fn value(&mut self, ty: &Ty, fuel: u32) -> Value {
        let low = fuel == 0;
        match ty {
            Ty::Unit => Value::None,
            Ty::Bool => Value::Bool(self.r.chance(1, 2)),
            Ty::Int(k) => gen_int(&mut self.r, *k),
            Ty::F32 => Value::F32(f32::from_bits(self.r.next() as u32)),
            Ty::F64 => Value::F64(f64::from_bits(self.r.next())),
            Ty::String => Value::String(gen_string(&mut self.r)),
            Ty::Uuid => Value::Uuid(gen_uuid(&mut self.r)),
            Ty::ObjectId => Value::ObjectId(gen_object_id(&mut self.r)),
            Ty::ServiceId => Value::ServiceId(ServiceId::new(
                gen_object_id(&mut self.r),
                ServiceUuid(gen_uuid(&mut self.r)),
                ServiceCookie(gen_uuid(&mut self.r)),
            )),
            Ty::Sender => Value::Sender(ChannelCookie(gen_uuid(&mut self.r))),
            Ty::Receiver => Value::Receiver(ChannelCookie(gen_uuid(&mut self.r))),
            Ty::Bytes => {
                let n = *self.r.pick(&[0usize, 1, 2, 5, 17, 300]);
                Value::Bytes(Bytes(self.r.bytes(n)))
            }
            Ty::Value => self.arbitrary(),
            Ty::Opt(t) => {
                if low || self.r.chance(1, 3) {
                    Value::None
                } else {
                    Value::Some(Box::new(self.value(t, fuel)))
                }
            }
            Ty::Vec(t) => {
                let n = small_count(&mut self.r, low);
                Value::Vec((0..n).map(|_| self.value(t, fuel)).collect())
            }
            Ty::Arr(n, t) => Value::Vec((0..*n).map(|_| self.value(t, fuel)).collect()),
            Ty::Map(k, t) => {
                let n = small_count(&mut self.r, low);
                macro_rules! mk {
                    ($v:ident, $kf:expr) => {{
                        let mut m = HashMap::new();
                        for _ in 0..n {
                            let key = $kf(&mut self.r);
                            let val = self.value(t, fuel);
                            m.insert(key, val);
                        }
                        paste_map!($v, m)
                    }};
                }
                per_key!(*k, self.r, mk)
            }
            Ty::Set(k) => {
                let n = small_count(&mut self.r, false);
                macro_rules! mk {
                    ($v:ident, $kf:expr) => {{
                        let mut m = HashSet::new();
                        for _ in 0..n {
                            m.insert($kf(&mut self.r));
                        }
                        paste_set!($v, m)
                    }};
                }
                per_key!(*k, self.r, mk)
            }
            Ty::Res(a, b) => {
                let ra = self.t.ty_rank(a);
                let rb = self.t.ty_rank(b);
                let first = if low && ra != rb { ra < rb } else { self.r.chance(1, 2) };
                if first {
                    Value::Enum(Box::new(Enum::new(0u32, self.value(a, fuel))))
                } else {
                    Value::Enum(Box::new(Enum::new(1u32, self.value(b, fuel))))
                }
            }
            Ty::Ref(k) => self.named(k, fuel),
        }
    }

    fn named(&mut self, key: &str, fuel: u32) -> Value {
        let fuel2 = fuel.saturating_sub(1);
        let low = fuel == 0;
        match self.t.def(key).clone() {
            Def::Newtype(t) => self.value(&t, fuel),
            Def::Struct { fields, .. } => {
                let mut m = HashMap::new();
                for (id, req, t) in &fields {
                    if *req {
                        m.insert(*id, self.value(t, fuel2));
                    } else if !low {
                        match self.r.below(6) {
                            0 | 1 => {}
                            2 => {
                                m.insert(*id, Value::None);
                            }
                            _ => {
                                m.insert(*id, Value::Some(Box::new(self.value(t, fuel2))));
                            }
                        }
                    }
                }
                if self.r.below(8) < self.extras {
                    let known: HashSet<u32> = fields.iter().map(|f| f.0).collect();
                    for _ in 0..self.r.range(1, 3) {
                        let id = match self.r.below(4) {
                            0 => self.r.range(0, 90) as u32,
                            1 => self.r.range(250, 260) as u32,
                            2 => self.r.range(65530, 70000) as u32,
                            _ => self.r.next() as u32,
                        };
                        if !known.contains(&id) {
                            let v = self.arbitrary();
                            m.insert(id, v);
                        }
                    }
                }
                Value::Struct(Struct(m))
            }
            Def::Enum { vars, .. } => {
                let min = vars.iter().map(|v| v.1.as_ref().map(|t| self.t.ty_rank(t)).unwrap_or(0)).min().unwrap_or(0);
                let cands: Vec<&(u32, Option<Ty>)> = if low {
                    vars.iter().filter(|v| v.1.as_ref().map(|t| self.t.ty_rank(t)).unwrap_or(0) == min).collect()
                } else {
                    vars.iter().filter(|v| v.1.as_ref().map(|t| self.t.ty_rank(t)).unwrap_or(0) < INF).collect()
                };
                let (id, t) = (*self.r.pick(&cands)).clone();
                let v = match t {
                    None => Value::None,
                    Some(t) => self.value(&t, fuel2),
                };
                Value::Enum(Box::new(Enum::new(id, v)))
            }
        }
    }
}


// ---------------------------------------------------------------- the specification

/// the values of a map whose key kind is `k`, or None if `v` is not such a map
fn map_values(k: K, v: &Value) -> Option<Vec<&Value>> {
    Some(match (k, v) {
        (K::U8, Value::U8Map(m)) => m.values().collect(),
        (K::I8, Value::I8Map(m)) => m.values().collect(),
        (K::U16, Value::U16Map(m)) => m.values().collect(),
        (K::I16, Value::I16Map(m)) => m.values().collect(),
        (K::U32, Value::U32Map(m)) => m.values().collect(),
        (K::I32, Value::I32Map(m)) => m.values().collect(),
        (K::U64, Value::U64Map(m)) => m.values().collect(),
        (K::I64, Value::I64Map(m)) => m.values().collect(),
        (K::Str, Value::StringMap(m)) => m.values().collect(),
        (K::Uuid, Value::UuidMap(m)) => m.values().collect(),
        _ => return None,
    })
}

fn map_update(v: &Value, f: &mut dyn FnMut(&Value) -> Value) -> Value {
    macro_rules! up {
        ($c:ident, $m:expr) => {
            Value::$c($m.iter().map(|(k, x)| (k.clone(), f(x))).collect())
        };
    }
    match v {
        Value::U8Map(m) => up!(U8Map, m),
        Value::I8Map(m) => up!(I8Map, m),
        Value::U16Map(m) => up!(U16Map, m),
        Value::I16Map(m) => up!(I16Map, m),
        Value::U32Map(m) => up!(U32Map, m),
        Value::I32Map(m) => up!(I32Map, m),
        Value::U64Map(m) => up!(U64Map, m),
        Value::I64Map(m) => up!(I64Map, m),
        Value::StringMap(m) => up!(StringMap, m),
        Value::UuidMap(m) => up!(UuidMap, m),
        other => other.clone(),
    }
}

fn is_set(k: K, v: &Value) -> bool {
    matches!(
        (k, v),
        (K::U8, Value::U8Set(_))
            | (K::I8, Value::I8Set(_))
            | (K::U16, Value::U16Set(_))
            | (K::I16, Value::I16Set(_))
            | (K::U32, Value::U32Set(_))
            | (K::I32, Value::I32Set(_))
            | (K::U64, Value::U64Set(_))
            | (K::I64, Value::I64Set(_))
            | (K::Str, Value::StringSet(_))
            | (K::Uuid, Value::UuidSet(_))
    )
}

/// "the dynamic value conforms to the schema type": the property's notion, stated on `Value`
fn conforms(t: &Table, ty: &Ty, v: &Value) -> bool {
    match (ty, v) {
        (Ty::Unit, Value::None) => true,
        (Ty::Bool, Value::Bool(_)) => true,
        (Ty::Int(K::U8), Value::U8(_)) => true,
        (Ty::Int(K::I8), Value::I8(_)) => true,
        (Ty::Int(K::U16), Value::U16(_)) => true,
        (Ty::Int(K::I16), Value::I16(_)) => true,
        (Ty::Int(K::U32), Value::U32(_)) => true,
        (Ty::Int(K::I32), Value::I32(_)) => true,
        (Ty::Int(K::U64), Value::U64(_)) => true,
        (Ty::Int(K::I64), Value::I64(_)) => true,
        (Ty::F32, Value::F32(_)) => true,
        (Ty::F64, Value::F64(_)) => true,
        (Ty::String, Value::String(_)) => true,
        (Ty::Uuid, Value::Uuid(_)) => true,
        (Ty::ObjectId, Value::ObjectId(_)) => true,
        (Ty::ServiceId, Value::ServiceId(_)) => true,
        (Ty::Sender, Value::Sender(_)) => true,
        (Ty::Receiver, Value::Receiver(_)) => true,
        (Ty::Bytes, Value::Bytes(_)) => true,
        (Ty::Value, _) => true,
        (Ty::Opt(_), Value::None) => true,
        (Ty::Opt(e), Value::Some(x)) => conforms(t, e, x),
        (Ty::Vec(e), Value::Vec(l)) => l.iter().all(|x| conforms(t, e, x)),
        (Ty::Arr(n, e), Value::Vec(l)) => l.len() == *n as usize && l.iter().all(|x| conforms(t, e, x)),
        (Ty::Map(k, e), m) => match map_values(*k, m) {
            Some(vs) => vs.iter().all(|x| conforms(t, e, x)),
            None => false,
        },
        (Ty::Set(k), s) => is_set(*k, s),
        (Ty::Res(a, b), Value::Enum(e)) => match e.id {
            0 => conforms(t, a, &e.value),
            1 => conforms(t, b, &e.value),
            _ => false,
        },
        (Ty::Ref(key), v) => match t.def(key) {
            Def::Newtype(inner) => conforms(t, inner, v),
            Def::Struct { fields, .. } => match v {
                Value::Struct(s) => fields.iter().all(|(id, req, fty)| match (s.0.get(id), req) {
                    (None, true) => false,
                    (None, false) => true,
                    (Some(x), true) => conforms(t, fty, x),
                    (Some(Value::None), false) => true,
                    (Some(Value::Some(x)), false) => conforms(t, fty, x),
                    (Some(_), false) => false,
                }),
                _ => false,
            },
            Def::Enum { fb, vars } => match v {
                Value::Enum(e) => match vars.iter().find(|x| x.0 == e.id) {
                    Some((_, None)) => e.value == Value::None,
                    Some((_, Some(vt))) => conforms(t, vt, &e.value),
                    None => *fb,
                },
                _ => false,
            },
        },
        _ => false,
    }
}

/// the value a decode/encode cycle through the generated type yields for a conforming value:
/// unknown fields dropped unless the struct has a fallback, absent == None for optional fields
fn norm(t: &Table, ty: &Ty, v: &Value) -> Value {
    match (ty, v) {
        (Ty::Opt(e), Value::Some(x)) => Value::Some(Box::new(norm(t, e, x))),
        (Ty::Vec(e), Value::Vec(l)) | (Ty::Arr(_, e), Value::Vec(l)) => Value::Vec(l.iter().map(|x| norm(t, e, x)).collect()),
        (Ty::Map(_, e), m) => map_update(m, &mut |x| norm(t, e, x)),
        (Ty::Res(a, b), Value::Enum(e)) => {
            let inner = if e.id == 0 { norm(t, a, &e.value) } else { norm(t, b, &e.value) };
            Value::Enum(Box::new(Enum::new(e.id, inner)))
        }
        (Ty::Ref(key), v) => match t.def(key) {
            Def::Newtype(inner) => norm(t, inner, v),
            Def::Struct { fb, fields } => match v {
                Value::Struct(s) => {
                    let mut m = HashMap::new();
                    for (id, x) in &s.0 {
                        match fields.iter().find(|f| f.0 == *id) {
                            Some((_, true, fty)) => {
                                m.insert(*id, norm(t, fty, x));
                            }
                            Some((_, false, fty)) => {
                                if let Value::Some(y) = x {
                                    m.insert(*id, Value::Some(Box::new(norm(t, fty, y))));
                                }
                            }
                            None => {
                                if *fb {
                                    m.insert(*id, x.clone());
                                }
                            }
                        }
                    }
                    Value::Struct(Struct(m))
                }
                other => other.clone(),
            },
            Def::Enum { vars, .. } => match v {
                Value::Enum(e) => match vars.iter().find(|x| x.0 == e.id) {
                    Some((_, Some(vt))) => Value::Enum(Box::new(Enum::new(e.id, norm(t, vt, &e.value)))),
                    _ => v.clone(),
                },
                other => other.clone(),
            },
        },
        (_, v) => v.clone(),
    }
}

/// true iff every struct/enum reachable from `ty` has a fallback
fn all_fallback(t: &Table, ty: &Ty, seen: &mut BTreeSet<String>) -> bool {
    match ty {
        Ty::Opt(e) | Ty::Vec(e) | Ty::Arr(_, e) | Ty::Map(_, e) => all_fallback(t, e, seen),
        Ty::Res(a, b) => all_fallback(t, a, seen) && all_fallback(t, b, seen),
        Ty::Ref(k) => {
            if !seen.insert(k.clone()) {
                return true;
            }
            match t.def(k) {
                Def::Newtype(i) => all_fallback(t, i, seen),
                Def::Struct { fb, fields } => *fb && fields.iter().all(|f| all_fallback(t, &f.2, seen)),
                Def::Enum { fb, vars } => *fb && vars.iter().all(|v| v.1.as_ref().map(|x| all_fallback(t, x, seen)).unwrap_or(true)),
            }
        }
        _ => true,
    }
}

// ---------------------------------------------------------------- mutations

#[derive(Clone, Copy, Debug, PartialEq, Eq)]
enum Mut {
    DropRequired,
    Retype,
    UnwrapOptional,
    UnknownVariant,
    UnitPayload,
    ArrayLen,
    ExtraSome,
}
const MUTS: [Mut; 7] = [
    Mut::DropRequired,
    Mut::Retype,
    Mut::UnwrapOptional,
    Mut::UnknownVariant,
    Mut::UnitPayload,
    Mut::ArrayLen,
    Mut::ExtraSome,
];

fn other_kind(r: &mut Rng, v: &Value) -> Value {
    // a leaf of a kind different from v's
    for _ in 0..20 {
        let c = match r.below(9) {
            0 => Value::U8(7),
            1 => Value::U16(300),
            2 => Value::String("x".into()),
            3 => Value::Bool(true),
            4 => Value::Vec(vec![Value::U8(1)]),
            5 => Value::Struct(Struct(HashMap::new())),
            6 => Value::I64(-5),
            7 => Value::Bytes(Bytes(vec![1, 2])),
            _ => Value::Enum(Box::new(Enum::new(0u32, Value::None))),
        };
        if std::mem::discriminant(&c) != std::mem::discriminant(v) {
            return c;
        }
    }
    Value::F64(1.0)
}

/// applies mutation `m` at one position of (`ty`, `v`); None if there is no such position
fn mutate(t: &Table, r: &mut Rng, ty: &Ty, v: &Value, m: Mut, depth: u32) -> Option<Value> {
    // collect child positions first; with probability proportional to depth act here
    let here = r.chance(1, 2) || depth > 6;
    let try_here = |r: &mut Rng| -> Option<Value> {
        match (m, ty, v) {
            (Mut::Retype, Ty::Value, _) => None,
            (Mut::Retype, _, v) => Some(other_kind(r, v)),
            (Mut::ExtraSome, Ty::Value, _) => None,
            (Mut::ExtraSome, _, v) => Some(Value::Some(Box::new(v.clone()))),
            (Mut::ArrayLen, Ty::Arr(_, e), Value::Vec(l)) => {
                let mut l = l.clone();
                if r.chance(1, 2) && !l.is_empty() {
                    l.pop();
                } else {
                    let mut g = G { t, r: Rng(r.next()), extras: 0 };
                    l.push(g.value(e, 1));
                }
                Some(Value::Vec(l))
            }
            (_, Ty::Ref(k), v) => match (t.def(k), v) {
                (Def::Struct { fields, .. }, Value::Struct(s)) => match m {
                    Mut::DropRequired => {
                        let req: Vec<u32> = fields.iter().filter(|f| f.1 && s.0.contains_key(&f.0)).map(|f| f.0).collect();
                        if req.is_empty() {
                            return None;
                        }
                        let mut s2 = s.0.clone();
                        s2.remove(r.pick(&req));
                        Some(Value::Struct(Struct(s2)))
                    }
                    Mut::UnwrapOptional => {
                        let opt: Vec<u32> = fields
                            .iter()
                            .filter(|f| !f.1 && matches!(s.0.get(&f.0), Some(Value::Some(_))))
                            .map(|f| f.0)
                            .collect();
                        if opt.is_empty() {
                            return None;
                        }
                        let id = *r.pick(&opt);
                        let mut s2 = s.0.clone();
                        if let Some(Value::Some(x)) = s.0.get(&id) {
                            s2.insert(id, (**x).clone());
                        }
                        Some(Value::Struct(Struct(s2)))
                    }
                    _ => None,
                },
                (Def::Enum { vars, .. }, Value::Enum(e)) => match m {
                    Mut::UnknownVariant => {
                        let known: HashSet<u32> = vars.iter().map(|x| x.0).collect();
                        for _ in 0..20 {
                            let id = match r.below(3) {
                                0 => r.range(0, 100) as u32,
                                1 => r.range(250, 70000) as u32,
                                _ => r.next() as u32,
                            };
                            if !known.contains(&id) {
                                let payload = if r.chance(1, 2) {
                                    e.value.clone()
                                } else {
                                    set_budget(10);
                                    gen_tree(r, 3)
                                };
                                return Some(Value::Enum(Box::new(Enum::new(id, payload))));
                            }
                        }
                        None
                    }
                    Mut::UnitPayload => {
                        let units: Vec<u32> = vars.iter().filter(|x| x.1.is_none()).map(|x| x.0).collect();
                        if units.is_empty() {
                            return None;
                        }
                        let id = *r.pick(&units);
                        Some(Value::Enum(Box::new(Enum::new(id, Value::U8(1)))))
                    }
                    _ => None,
                },
                _ => None,
            },
            _ => None,
        }
    };
    if here {
        if let Some(x) = try_here(r) {
            return Some(x);
        }
    }
    // descend
    let res = match (ty, v) {
        (Ty::Opt(e), Value::Some(x)) => mutate(t, r, e, x, m, depth + 1).map(|y| Value::Some(Box::new(y))),
        (Ty::Vec(e), Value::Vec(l)) | (Ty::Arr(_, e), Value::Vec(l)) if !l.is_empty() => {
            let i = r.below(l.len() as u64) as usize;
            mutate(t, r, e, &l[i], m, depth + 1).map(|y| {
                let mut l2 = l.clone();
                l2[i] = y;
                Value::Vec(l2)
            })
        }
        (Ty::Map(k, e), mv) => match map_values(*k, mv) {
            Some(vs) if !vs.is_empty() => {
                let i = r.below(vs.len() as u64) as usize;
                let target = vs[i] as *const Value;
                match mutate(t, r, e, vs[i], m, depth + 1) {
                    Some(y) => Some(map_update(mv, &mut |x| if x as *const Value == target { y.clone() } else { x.clone() })),
                    None => None,
                }
            }
            _ => None,
        },
        (Ty::Res(a, b), Value::Enum(en)) => {
            let inner = if en.id == 0 { a } else { b };
            mutate(t, r, inner, &en.value, m, depth + 1).map(|y| Value::Enum(Box::new(Enum::new(en.id, y))))
        }
        (Ty::Ref(k), v) => match (t.def(k), v) {
            (Def::Newtype(i), v) => mutate(t, r, i, v, m, depth + 1),
            (Def::Struct { fields, .. }, Value::Struct(s)) => {
                let present: Vec<&(u32, bool, Ty)> = fields.iter().filter(|f| s.0.contains_key(&f.0)).collect();
                if present.is_empty() {
                    None
                } else {
                    let (id, req, fty) = (*r.pick(&present)).clone();
                    let cur = &s.0[&id];
                    let new = if req {
                        mutate(t, r, &fty, cur, m, depth + 1)
                    } else {
                        mutate(t, r, &Ty::Opt(Box::new(fty)), cur, m, depth + 1)
                    };
                    new.map(|y| {
                        let mut s2 = s.0.clone();
                        s2.insert(id, y);
                        Value::Struct(Struct(s2))
                    })
                }
            }
            (Def::Enum { vars, .. }, Value::Enum(en)) => match vars.iter().find(|x| x.0 == en.id) {
                Some((_, Some(vt))) => mutate(t, r, vt, &en.value, m, depth + 1).map(|y| Value::Enum(Box::new(Enum::new(en.id, y)))),
                _ => None,
            },
            _ => None,
        },
        _ => None,
    };
    if res.is_some() {
        return res;
    }
    if !here {
        return try_here(r);
    }
    None
}

// ---------------------------------------------------------------- encodings and canonical forms

fn ser(v: &Value, legacy: bool) -> Option<Vec<u8>> {
    let sv = if legacy {
        SerializedValue::serialize_as::<tags::Value>(Legacy(v)).ok()?
    } else {
        SerializedValue::serialize(v).ok()?
    };
    Some(<SerializedValue as AsRef<[u8]>>::as_ref(&sv).to_vec())
}

struct RawFields(Vec<(u32, Vec<u8>)>);
impl Deserialize<tags::Value> for RawFields {
    fn deserialize(d: Deserializer) -> Result<Self, DeserializeError> {
        let mut s = d.deserialize_struct()?;
        let mut out = Vec::new();
        while let Some(f) = s.deserialize()? {
            let id = f.id();
            let sv: SerializedValue = f.deserialize::<tags::Value, SerializedValue>()?;
            out.push((id, <SerializedValue as AsRef<[u8]>>::as_ref(&sv).to_vec()));
        }
        s.finish(RawFields(out))
    }
}
struct RawVariant(u32, Vec<u8>);
impl Deserialize<tags::Value> for RawVariant {
    fn deserialize(d: Deserializer) -> Result<Self, DeserializeError> {
        let e = d.deserialize_enum()?;
        let id = e.id();
        let sv: SerializedValue = e.deserialize::<tags::Value, SerializedValue>()?;
        Ok(RawVariant(id, <SerializedValue as AsRef<[u8]>>::as_ref(&sv).to_vec()))
    }
}

/// raw bytes of the root's unknown fields / unknown variant, `id:hex` sorted by id
fn raw_unknown(t: &Table, key: &str, bytes: &[u8]) -> String {
    let Some(sv) = sv_from_bytes(bytes) else { return String::new() };
    match t.root_def(key) {
        Some(Def::Struct { fb: true, fields }) => match sv.deserialize_as::<tags::Value, RawFields>() {
            Ok(RawFields(mut fs)) => {
                fs.retain(|f| !fields.iter().any(|d| d.0 == f.0));
                fs.sort();
                fs.iter().map(|(id, b)| format!("{}:{}", id, hex(b))).collect::<Vec<_>>().join(";")
            }
            Err(_) => "!".to_string(),
        },
        Some(Def::Enum { fb: true, vars }) => match sv.deserialize_as::<tags::Value, RawVariant>() {
            Ok(RawVariant(id, b)) => {
                if vars.iter().any(|v| v.0 == id) {
                    String::new()
                } else {
                    format!("{}:{}", id, hex(&b))
                }
            }
            Err(_) => "!".to_string(),
        },
        _ => String::new(),
    }
}

fn canon_bytes(t: &Table, key: &str, bytes: &[u8]) -> String {
    match sv_from_bytes(bytes).map(|sv| sv.deserialize_as_value()) {
        Some(Ok(v)) => format!("{} unk={}", fmt_value(&v, true), raw_unknown(t, key, bytes)),
        _ => {
            // not a Value (e.g. an opaque `value` field holding invalid UTF-8 was carried through):
            // an order-insensitive fingerprint, because map/unknown-field order is arbitrary
            let mut hist = [0u64; 256];
            for b in bytes {
                hist[*b as usize] += 1;
            }
            let mut h: u64 = 1469598103934665603;
            for (i, c) in hist.iter().enumerate() {
                h = (h ^ (*c).wrapping_mul(i as u64 + 1)).wrapping_mul(1099511628211);
            }
            format!("!UNDECODABLE len={} multiset={:016x}", bytes.len(), h)
        }
    }
}

/// canonical form of one runner/model answer line for the case line `case`
fn canon_line(t: &Table, case: &str, ans: &str) -> String {
    let c: Vec<&str> = case.split(' ').collect();
    let a: Vec<&str> = ans.split(' ').collect();
    match (c.first().copied(), a.first().copied()) {
        (Some("de"), Some("ok")) if a.len() >= 2 && c.len() >= 3 => {
            let mut s = format!("ok {}", canon_bytes(t, c[1], &unhex(a[1])));
            for extra in &a[2..] {
                s.push(' ');
                s.push_str(extra);
            }
            s
        }
        (Some("pair"), Some("ok")) if a.len() >= 3 && c.len() >= 4 => {
            let first = canon_bytes(t, c[1], &unhex(a[1]));
            if a[2] == "err2" {
                format!("ok {} {}", first, a[2..].join(" "))
            } else {
                format!("ok {} then {}", first, canon_bytes(t, c[2], &unhex(a[2])))
            }
        }
        _ => ans.to_string(),
    }
}

// ---------------------------------------------------------------- gen

fn expectation(t: &Table, key: &str, v: &Value, legacy: bool) -> String {
    let ty = Ty::Ref(key.to_string());
    if conforms(t, &ty, v) {
        let n = norm(t, &ty, v);
        // raw bytes the root's unknown fields must keep: their encoding in the input
        let unk = match (t.root_def(key), &n) {
            (Some(Def::Struct { fb: true, fields }), Value::Struct(s)) => {
                let mut parts: Vec<(u32, String)> = s
                    .0
                    .iter()
                    .filter(|(id, _)| !fields.iter().any(|f| f.0 == **id))
                    .map(|(id, x)| (*id, hex(&ser(x, legacy).unwrap_or_default())))
                    .collect();
                parts.sort();
                parts.iter().map(|(id, h)| format!("{}:{}", id, h)).collect::<Vec<_>>().join(";")
            }
            (Some(Def::Enum { fb: true, vars }), Value::Enum(e)) if !vars.iter().any(|x| x.0 == e.id) => {
                format!("{}:{}", e.id, hex(&ser(&e.value, legacy).unwrap_or_default()))
            }
            _ => String::new(),
        };
        format!("accept ok {} unk={}", fmt_value(&n, true), unk)
    } else {
        "reject".to_string()
    }
}

fn byte_mutate(r: &mut Rng, b: &mut Vec<u8>) {
    if b.is_empty() {
        b.push(r.next() as u8);
        return;
    }
    let i = r.below(b.len() as u64) as usize;
    match r.below(7) {
        0 => b[i] ^= 1 << r.below(8),
        1 => b[i] = r.below(70) as u8,
        2 => b.truncate(i),
        3 => b.insert(i, r.below(70) as u8),
        4 => {
            b.remove(i);
        }
        5 => b[i] = b[i].wrapping_add(1),
        _ => b[i] = *r.pick(&[0u8, 1, 39, 40, 65, 17, 43, 255, 254]),
    }
}

fn cmd_gen(types: &str, outdir: &str, n: u64, pairs: Option<&str>) {
    let t = Table::load(types);
    let seed = env_u64("VERIF_SEED", 1);
    let mut r = Rng::new(seed);
    let keys: Vec<String> = t.order.iter().filter(|k| t.rank[*k] < INF).cloned().collect();
    let uninhabited = t.order.len() - keys.len();
    let pairs: Vec<(String, String)> = pairs
        .and_then(|p| std::fs::read_to_string(p).ok())
        .map(|s| {
            s.lines()
                .filter_map(|l| {
                    let mut w = l.split_whitespace();
                    Some((w.next()?.to_string(), w.next()?.to_string()))
                })
                .filter(|(a, b)| t.defs.contains_key(a) && t.defs.contains_key(b) && t.rank[b] < INF)
                .collect()
        })
        .unwrap_or_default();
    let mut cases = String::new();
    let mut expect = String::new();
    let mut classes: BTreeMap<String, u64> = BTreeMap::new();
    let mut per_kind: BTreeMap<String, u64> = BTreeMap::new();
    let mut distinct: HashSet<u64> = HashSet::new();
    let mut samples: Vec<String> = Vec::new();
    let mut types_hit: BTreeSet<String> = BTreeSet::new();
    let mut emitted = 0u64;
    let mut bump = |m: &mut BTreeMap<String, u64>, k: &str| *m.entry(k.to_string()).or_insert(0) += 1;
    let hash = |s: &str| {
        use std::hash::{Hash, Hasher};
        let mut h = std::collections::hash_map::DefaultHasher::new();
        s.hash(&mut h);
        h.finish()
    };
    let mut round = 0u64;
    while emitted < n && !keys.is_empty() {
        // every type in turn so that each generated struct/enum/newtype is exercised
        let key = keys[(round % keys.len() as u64) as usize].clone();
        round += 1;
        if round > n * 20 {
            break;
        }
        let ty = Ty::Ref(key.clone());
        let mut g = G { t: &t, r: Rng(r.next()), extras: 3 };
        let fuel = r.range(0, 4) as u32;
        let v = g.value(&ty, fuel);
        let legacy = r.chance(1, 2);
        let stream = r.below(10);
        let (v, what) = if stream < 4 {
            (v, "conforming".to_string())
        } else if stream < 9 {
            let m = *r.pick(&MUTS);
            match mutate(&t, &mut r, &ty, &v, m, 0) {
                Some(x) => (x, format!("{:?}", m)),
                None => continue,
            }
        } else {
            (v, "bytes".to_string())
        };
        let Some(mut bytes) = ser(&v, legacy) else { continue };
        let exp = if what == "bytes" {
            let k = r.range(1, 2);
            for _ in 0..k {
                byte_mutate(&mut r, &mut bytes);
            }
            if bytes.is_empty() {
                continue;
            }
            "any".to_string()
        } else {
            expectation(&t, &key, &v, legacy)
        };
        let line = format!("de {} {}", key, hex(&bytes));
        let class = format!("{}:{}", what, exp.split(' ').next().unwrap());
        bump(&mut classes, &class);
        bump(&mut per_kind, match t.def(&key) {
            Def::Struct { fb: true, .. } => "struct+fallback",
            Def::Struct { .. } => "struct",
            Def::Enum { fb: true, .. } => "enum+fallback",
            Def::Enum { .. } => "enum",
            Def::Newtype(_) => "newtype",
        });
        bump(&mut per_kind, if legacy { "encoding1" } else { "encoding2" });
        if bytes.len() >= 2 {
            distinct.insert(hash(&line));
        }
        types_hit.insert(key.clone());
        if samples.len() < 6 && r.chance(1, 50) {
            samples.push(format!("{} ({})", line.chars().take(300).collect::<String>(), class));
        }
        writeln!(cases, "{}", line).unwrap();
        writeln!(expect, "{}", exp).unwrap();
        emitted += 1;
        // old/new pair: a value of the NEW type goes through the OLD type and back
        if !pairs.is_empty() && r.chance(1, 4) {
            let (old, new) = r.pick(&pairs).clone();
            let mut g = G { t: &t, r: Rng(r.next()), extras: 2 };
            let v = g.value(&Ty::Ref(new.clone()), r.range(1, 4) as u32);
            let legacy = r.chance(1, 2);
            let Some(bytes) = ser(&v, legacy) else { continue };
            let told = Ty::Ref(old.clone());
            let tnew = Ty::Ref(new.clone());
            let exp = if !conforms(&t, &told, &v) {
                bump(&mut classes, "pair:old-rejects");
                "reject".to_string()
            } else {
                let v1 = norm(&t, &told, &v);
                let e1 = expectation(&t, &old, &v, legacy);
                let first = e1.strip_prefix("accept ok ").unwrap().to_string();
                if !conforms(&t, &tnew, &v1) {
                    bump(&mut classes, "pair:new-rejects-after-old");
                    format!("accept ok {} err2", first)
                } else {
                    let v2 = norm(&t, &tnew, &v1);
                    let direct = norm(&t, &tnew, &v);
                    let keeps = all_fallback(&t, &told, &mut BTreeSet::new());
                    let same = fmt_value(&v2, true) == fmt_value(&direct, true);
                    bump(&mut classes, if keeps { "pair:old-all-fallback" } else { "pair:old-drops" });
                    if keeps && !same {
                        // the property's last sentence on the specification itself
                        bump(&mut classes, "pair:SPEC-INCONSISTENT");
                    }
                    let second = {
                        // after the old type re-encoded the value every container is encoding 2 except
                        // the raw unknown parts, which keep the input's encoding
                        let unk2 = match (t.root_def(&new), &v2) {
                            (Some(Def::Struct { fb: true, fields }), Value::Struct(s)) => {
                                let mut parts: Vec<(u32, String)> = s
                                    .0
                                    .iter()
                                    .filter(|(id, _)| !fields.iter().any(|f| f.0 == **id))
                                    .map(|(id, x)| (*id, hex(&ser(x, legacy).unwrap_or_default())))
                                    .collect();
                                parts.sort();
                                parts.iter().map(|(id, h)| format!("{}:{}", id, h)).collect::<Vec<_>>().join(";")
                            }
                            (Some(Def::Enum { fb: true, vars }), Value::Enum(e)) if !vars.iter().any(|x| x.0 == e.id) => {
                                format!("{}:{}", e.id, hex(&ser(&e.value, legacy).unwrap_or_default()))
                            }
                            _ => String::new(),
                        };
                        format!("{} unk={}", fmt_value(&v2, true), unk2)
                    };
                    format!("accept ok {} then {}{}", first, second, if keeps { " KEEPS" } else { "" })
                }
            };
            let line = format!("pair {} {} {}", old, new, hex(&bytes));
            distinct.insert(hash(&line));
            writeln!(cases, "{}", line).unwrap();
            writeln!(expect, "{}", exp).unwrap();
            emitted += 1;
        }
    }
    std::fs::create_dir_all(outdir).unwrap();
    std::fs::write(format!("{outdir}/cases.txt"), cases).unwrap();
    std::fs::write(format!("{outdir}/expect.txt"), expect).unwrap();
    let mut st = String::new();
    write!(
        st,
        "{{\"seed\":{},\"inputs\":{},\"distinct_nontrivial\":{},\"types_total\":{},\"types_exercised\":{},\"types_uninhabited\":{},\"pairs\":{},",
        seed,
        emitted,
        distinct.len(),
        t.order.len(),
        types_hit.len(),
        uninhabited,
        pairs.len()
    )
    .unwrap();
    let obj = |m: &BTreeMap<String, u64>| m.iter().map(|(k, v)| format!("\"{}\":{}", k, v)).collect::<Vec<_>>().join(",");
    write!(st, "\"result_classes\":{{{}}},\"streams\":{{{}}},", obj(&classes), obj(&per_kind)).unwrap();
    write!(st, "\"samples\":[{}]}}", samples.iter().map(|s| format!("\"{}\"", s)).collect::<Vec<_>>().join(",")).unwrap();
    std::fs::write(format!("{outdir}/stats.json"), st).unwrap();
}

// ---------------------------------------------------------------- canon / monitor

fn read_lines(p: &str) -> Vec<String> {
    std::fs::read_to_string(p).unwrap_or_default().lines().map(|s| s.to_string()).collect()
}

fn cmd_canon(types: &str, cases: &str, inp: &str, out: &str) {
    let t = Table::load(types);
    let cs = read_lines(cases);
    let ans = read_lines(inp);
    let mut f = std::io::BufWriter::new(std::fs::File::create(out).unwrap());
    for (c, a) in cs.iter().zip(ans.iter()) {
        let line = catch(|| canon_line(&t, c, a)).unwrap_or_else(|e| format!("!CANON-PANIC {e}"));
        writeln!(f, "{}", line).unwrap();
    }
}

/// The property statement evaluated on the implementation's answers alone.
fn cmd_monitor(types: &str, dir: &str) {
    let t = Table::load(types);
    let cs = read_lines(&format!("{dir}/cases.txt"));
    let ex = read_lines(&format!("{dir}/expect.txt"));
    let im = read_lines(&format!("{dir}/impl.txt"));
    let mut canon = String::new();
    let mut mon = String::new();
    let mut classes: BTreeMap<String, u64> = BTreeMap::new();
    if cs.len() != im.len() || cs.len() != ex.len() {
        writeln!(mon, "length-mismatch cases={} expect={} impl={}", cs.len(), ex.len(), im.len()).unwrap();
    }
    for i in 0..cs.len().min(im.len()).min(ex.len()) {
        let c = catch(|| canon_line(&t, &cs[i], &im[i])).unwrap_or_else(|e| format!("!CANON-PANIC {e}"));
        writeln!(canon, "{}", c).unwrap();
        let e = &ex[i];
        let class;
        let mut fail: Option<String> = None;
        if im[i].starts_with("!PANIC") {
            class = "panic".to_string();
            fail = Some("panic in generated deserialize/serialize".to_string());
        } else if c.contains("OWNED-DIFF") || c.contains("serr") {
            class = "reencode-problem".to_string();
            fail = Some("re-encoding failed or by-value and by-reference serialization differ".to_string());
        } else if e == "any" {
            class = if c.starts_with("ok") { "bytes:ok".to_string() } else { format!("bytes:{}", c) };
        } else if e == "reject" {
            if c.starts_with("err") {
                class = format!("reject:{}", c);
            } else {
                class = "reject-missed".to_string();
                fail = Some("a non-conforming value was accepted".to_string());
            }
        } else if let Some(want) = e.strip_prefix("accept ") {
            let want_core = want.strip_suffix(" KEEPS").unwrap_or(want);
            if c == want_core || (want_core.ends_with(" err2") && c.starts_with(&format!("{} ", want_core))) {
                class = if want.ends_with(" KEEPS") { "accept:pair-kept".to_string() } else if cs[i].starts_with("pair") { "accept:pair".to_string() } else { "accept".to_string() };
            } else if c.starts_with("err") {
                class = "accept-missed".to_string();
                fail = Some("a conforming value was rejected".to_string());
            } else {
                // same value but different raw bytes of an unknown field?
                let cv = c.split(" unk=").next().unwrap_or("");
                let wv = want_core.split(" unk=").next().unwrap_or("");
                if cv == wv {
                    class = "fallback-bytes-changed".to_string();
                    fail = Some("unknown fields/variant not preserved byte for byte".to_string());
                } else {
                    class = "reencode-differs".to_string();
                    fail = Some("re-encoded value is not equivalent to the input".to_string());
                }
            }
        } else {
            class = "bad-expectation".to_string();
        }
        *classes.entry(class.clone()).or_insert(0) += 1;
        if let Some(f) = fail {
            writeln!(mon, "{}: case={} impl={} want={}", f, cs[i], c.chars().take(600).collect::<String>(), e.chars().take(600).collect::<String>()).unwrap();
        }
    }
    std::fs::write(format!("{dir}/impl.canon.txt"), canon).unwrap();
    std::fs::write(format!("{dir}/monitor.txt"), mon).unwrap();
    let obj = classes.iter().map(|(k, v)| format!("\"{}\":{}", k.replace('"', "'"), v)).collect::<Vec<_>>().join(",");
    std::fs::write(format!("{dir}/monitor_stats.json"), format!("{{\"monitor_classes\":{{{}}}}}", obj)).unwrap();
}

fn main() {
    quiet_panics();
    let a: Vec<String> = std::env::args().collect();
    match a.get(1).map(|s| s.as_str()) {
        Some("gen") => cmd_gen(&a[2], &a[3], a[4].parse().unwrap(), a.get(5).map(|s| s.as_str())),
        Some("canon") => cmd_canon(&a[2], &a[3], &a[4], &a[5]),
        Some("monitor") => cmd_monitor(&a[2], &a[3]),
        _ => {
            eprintln!("usage: derive gen|canon|monitor ...");
            std::process::exit(2);
        }
    }
}
