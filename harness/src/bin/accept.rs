//! `accept gen <outdir>`: the handshake grid of C12 through the REAL `Acceptor` (new + accept on
//! a real `Broker`), the REAL `ClientBuilder` fed with every reply shape, and full handshakes of
//! the real client against the real acceptor, all over in-memory transports on a no-op-waker
//! executor.  Writes cases.txt (ops for extract/accept_driver), impl.txt (what the implementation
//! did, one line per op), monitor.txt (violations of the C12 handshake statement seen on the
//! implementation alone) and stats.json.
//!
//! ops:  A1 <v>            first message Connect{version: v}
//!       A2 <major> <minor> first message Connect2{major, minor}
//!       AO                first message is something else (Sync)
//!       K2OK <minor> | K2INC   reply ConnectReply2{Ok(minor)} / {IncompatibleVersion} to ClientBuilder::connect
//!       K1OK | K1INC <v>       reply ConnectReply::Ok / IncompatibleVersion(v) to ClientBuilder::connect1
//!       F2 | F1           ClientBuilder::connect / connect1 against Acceptor::new + accept
//! results: accepted c1|c2 <maj>.<min> <reply> | incompatible <maj>.<min> <reply> | unexpected none
//!          connected <maj>.<min> | incompatible | unexpected | full <broker-side> <client-side>
use aldrin::ClientBuilder;
use aldrin_broker::{AcceptError, Acceptor, Broker, BrokerHandle};
use aldrin_core::channel::{self, Unbounded};
use aldrin_core::message::*;
use aldrin_core::transport::AsyncTransport;
use aldrin_core::*;
use std::collections::BTreeMap;
use std::fmt::Write as _;
use std::future::Future;
use std::io::Write;
use std::pin::Pin;
use std::sync::Arc;
use std::task::{Context, Poll, Wake, Waker};
use verif_harness::{catch, env_u64, quiet_panics, Rng};

struct Noop;
impl Wake for Noop {
    fn wake(self: Arc<Self>) {}
}
fn waker() -> Waker {
    Arc::new(Noop).into()
}
type Task<'a, T> = Pin<Box<dyn Future<Output = T> + 'a>>;

fn send(t: &mut Unbounded, m: impl Into<Message>) -> bool {
    let w = waker();
    let mut cx = Context::from_waker(&w);
    if !matches!(Pin::new(&mut *t).send_poll_ready(&mut cx), Poll::Ready(Ok(()))) {
        return false;
    }
    if Pin::new(&mut *t).send_start(m.into()).is_err() {
        return false;
    }
    let _ = Pin::new(&mut *t).send_poll_flush(&mut cx);
    true
}

fn recv(t: &mut Unbounded) -> Option<Result<Message, ()>> {
    let w = waker();
    let mut cx = Context::from_waker(&w);
    match Pin::new(&mut *t).receive_poll(&mut cx) {
        Poll::Ready(Ok(m)) => Some(Ok(m)),
        Poll::Ready(Err(_)) => Some(Err(())),
        Poll::Pending => None,
    }
}

/// poll `fut` to completion, polling the helpers in between; None if it never completes
fn drive<T>(fut: &mut Task<'_, T>, others: &mut [&mut Option<Task<'_, ()>>]) -> Option<T> {
    let w = waker();
    let mut cx = Context::from_waker(&w);
    for _ in 0..200 {
        if let Poll::Ready(x) = fut.as_mut().poll(&mut cx) {
            return Some(x);
        }
        for o in others.iter_mut() {
            if let Some(f) = o.as_mut() {
                if f.as_mut().poll(&mut cx).is_ready() {
                    **o = None;
                }
            }
        }
    }
    None
}

fn reply_text(m: Option<Result<Message, ()>>) -> String {
    match m {
        None | Some(Err(())) => "none".into(),
        Some(Ok(Message::ConnectReply(ConnectReply::Ok(_)))) => "replyok".into(),
        Some(Ok(Message::ConnectReply(ConnectReply::IncompatibleVersion(v)))) => format!("replyinc {v}"),
        Some(Ok(Message::ConnectReply(ConnectReply::Rejected(_)))) => "replyrej".into(),
        Some(Ok(Message::ConnectReply2(r))) => match r.result {
            ConnectResult::Ok(minor) => format!("reply2ok {minor}"),
            ConnectResult::IncompatibleVersion => "reply2inc".into(),
            ConnectResult::Rejected => "reply2rej".into(),
        },
        Some(Ok(m)) => format!("other:{:?}", m.kind()),
    }
}

/// Acceptor::new on `first`, then accept on a real broker; the line and the parsed facts
fn run_accept(first: Message) -> String {
    let broker = Broker::new();
    let mut handle: BrokerHandle = broker.handle().clone();
    let mut btask: Option<Task<'_, ()>> = Some(Box::pin(async move {
        let _ = broker.run().await;
    }));
    let (mut c, b) = channel::unbounded();
    assert!(send(&mut c, first));
    let mut fut: Task<'_, Result<Acceptor<Unbounded>, AcceptError<_>>> = Box::pin(Acceptor::new(b));
    let acc = match drive(&mut fut, &mut []) {
        Some(x) => x,
        None => return "!STUCK new".into(),
    };
    drop(fut);
    match acc {
        Err(AcceptError::UnexpectedMessageReceived(_)) => format!("unexpected {}", reply_text(recv(&mut c))),
        Err(AcceptError::IncompatibleVersion(v)) => {
            format!("incompatible {}.{} {}", v.major(), v.minor(), reply_text(recv(&mut c)))
        }
        Err(e) => format!("!ERROR {e:?}"),
        Ok(acc) => {
            let v = acc.version();
            // the reply is sent by accept(), which also registers the connection with the broker
            let mut fut: Task<'_, bool> = Box::pin(async { acc.accept(&mut handle).await.is_ok() });
            let ok = drive(&mut fut, &mut [&mut btask]);
            drop(fut);
            let r = reply_text(recv(&mut c));
            let dialect = if r.starts_with("reply2") { "c2" } else { "c1" };
            match ok {
                Some(true) => format!("accepted {dialect} {}.{} {r}", v.major(), v.minor()),
                Some(false) => format!("!ACCEPT-FAILED {}.{} {r}", v.major(), v.minor()),
                None => "!STUCK accept".into(),
            }
        }
    }
}

fn client_text<T>(r: Result<ProtocolVersion, aldrin::error::ConnectError<T>>) -> String {
    use aldrin::error::ConnectError as E;
    match r {
        Ok(v) => format!("connected {}.{}", v.major(), v.minor()),
        Err(E::IncompatibleVersion) => "incompatible".into(),
        Err(E::UnexpectedMessageReceived(_)) => "unexpected".into(),
        Err(E::Rejected(_)) => "rejected".into(),
        Err(E::Transport(_)) => "!transport".into(),
        Err(E::Serialize(_)) => "!serialize".into(),
        Err(E::Deserialize(_)) => "!deserialize".into(),
    }
}

/// ClientBuilder::connect (legacy = connect1) with `reply` already waiting on the transport
fn run_client(legacy: bool, reply: Message) -> String {
    let (c, mut b) = channel::unbounded();
    assert!(send(&mut b, reply));
    if legacy {
        let mut fut: Task<'_, _> = Box::pin(async move { ClientBuilder::new(c).connect1().await.map(|cl| cl.version()) });
        match drive(&mut fut, &mut []) {
            Some(r) => client_text(r),
            None => "!STUCK".into(),
        }
    } else {
        let mut fut: Task<'_, _> = Box::pin(async move { ClientBuilder::new(c).connect().await.map(|cl| cl.version()) });
        match drive(&mut fut, &mut []) {
            Some(r) => client_text(r),
            None => "!STUCK".into(),
        }
    }
}

/// the crate's client against the crate's acceptor
fn run_full(legacy: bool) -> String {
    let broker = Broker::new();
    let mut handle: BrokerHandle = broker.handle().clone();
    let mut btask: Option<Task<'_, ()>> = Some(Box::pin(async move {
        let _ = broker.run().await;
    }));
    let (c, b) = channel::unbounded();
    let bside = std::rc::Rc::new(std::cell::RefCell::new(String::from("pending")));
    let bside2 = bside.clone();
    let mut atask: Option<Task<'_, ()>> = Some(Box::pin(async move {
        match Acceptor::new(b).await {
            Ok(acc) => {
                let v = acc.version();
                let ok = acc.accept(&mut handle).await.is_ok();
                *bside2.borrow_mut() = format!("{}{}.{}", if ok { "accepted " } else { "!ACCEPT-FAILED " }, v.major(), v.minor());
            }
            Err(AcceptError::IncompatibleVersion(v)) => {
                *bside2.borrow_mut() = format!("incompatible {}.{}", v.major(), v.minor());
            }
            Err(AcceptError::UnexpectedMessageReceived(_)) => *bside2.borrow_mut() = "unexpected".into(),
            Err(e) => *bside2.borrow_mut() = format!("!ERROR {e:?}"),
        }
    }));
    let cl = if legacy {
        let mut fut: Task<'_, _> = Box::pin(async move { ClientBuilder::new(c).connect1().await.map(|cl| cl.version()) });
        drive(&mut fut, &mut [&mut atask, &mut btask]).map(client_text)
    } else {
        let mut fut: Task<'_, _> = Box::pin(async move { ClientBuilder::new(c).connect().await.map(|cl| cl.version()) });
        drive(&mut fut, &mut [&mut atask, &mut btask]).map(client_text)
    };
    // let the acceptor finish registering the connection
    let mut idle: Task<'_, ()> = Box::pin(std::future::pending());
    let _ = drive(&mut idle, &mut [&mut atask, &mut btask]);
    let b = bside.borrow().clone();
    format!("full {} | {}", b, cl.unwrap_or_else(|| "!STUCK".into()))
}

fn run_op(op: &str) -> String {
    let p: Vec<&str> = op.split_whitespace().collect();
    let num = |i: usize| p[i].parse::<u32>().unwrap();
    match p[0] {
        "A1" => run_accept(Connect { version: num(1), value: SerializedValue::serialize(()).unwrap() }.into()),
        "A2" => run_accept(
            Connect2 { major_version: num(1), minor_version: num(2), value: SerializedValue::serialize(ConnectData::new()).unwrap() }.into(),
        ),
        "AO" => run_accept(Sync { serial: 0 }.into()),
        "K2OK" => run_client(
            false,
            ConnectReply2 { result: ConnectResult::Ok(num(1)), value: SerializedValue::serialize(ConnectReplyData::new()).unwrap() }.into(),
        ),
        "K2INC" => run_client(
            false,
            ConnectReply2 { result: ConnectResult::IncompatibleVersion, value: SerializedValue::serialize(ConnectReplyData::new()).unwrap() }.into(),
        ),
        "K1OK" => run_client(true, ConnectReply::Ok(SerializedValue::serialize(()).unwrap()).into()),
        "K1INC" => run_client(true, ConnectReply::IncompatibleVersion(num(1)).into()),
        "F2" => run_full(false),
        "F1" => run_full(true),
        _ => "!BADOP".into(),
    }
}

/// the C12 handshake statement evaluated on the implementation's answer alone
fn monitor(op: &str, res: &str) -> Option<String> {
    let p: Vec<&str> = op.split_whitespace().collect();
    let num = |i: usize| p[i].parse::<u64>().unwrap();
    let expect = match p[0] {
        "A1" => {
            if num(1) == 14 {
                "accepted c1 1.14 replyok".to_string()
            } else {
                format!("incompatible 1.{} replyinc 14", num(1))
            }
        }
        "A2" => {
            if num(1) == 1 && num(2) >= 14 {
                let m = num(2).min(20);
                format!("accepted c2 1.{m} reply2ok {m}")
            } else {
                format!("incompatible {}.{} reply2inc", num(1), num(2))
            }
        }
        "F2" => "full accepted 1.20 | connected 1.20".to_string(),
        "F1" => "full accepted 1.14 | connected 1.14".to_string(),
        _ => return None,
    };
    if res == expect {
        None
    } else {
        Some(format!("handshake: op `{op}` gave `{res}`, the property requires `{expect}`"))
    }
}

fn main() {
    quiet_panics();
    let args: Vec<String> = std::env::args().collect();
    if args.len() >= 4 && args[1] == "run" {
        let cases = std::fs::read_to_string(&args[2]).unwrap();
        let mut out = String::new();
        for l in cases.lines() {
            let r = catch(|| run_op(l)).unwrap_or_else(|e| format!("!PANIC {e}"));
            writeln!(out, "{r}").unwrap();
        }
        std::fs::write(&args[3], out).unwrap();
        return;
    }
    if args.len() < 3 || args[1] != "gen" {
        eprintln!("usage: accept gen <outdir> [extra-random] | accept run <cases> <impl-out>");
        std::process::exit(2);
    }
    let outdir = &args[2];
    let extra: u64 = args.get(3).and_then(|s| s.parse().ok()).unwrap_or(200);
    let seed = env_u64("VERIF_SEED", 1);
    let mut rng = Rng::new(seed);
    std::fs::create_dir_all(outdir).unwrap();

    let mut ops: Vec<String> = vec![];
    let majors: [u64; 4] = [0, 1, 2, 4294967295];
    let mut minors: Vec<u64> = (0..=40).collect();
    minors.push(4294967295);
    for &mi in &minors {
        ops.push(format!("A1 {mi}"));
    }
    for &ma in &majors {
        for &mi in &minors {
            ops.push(format!("A2 {ma} {mi}"));
        }
    }
    ops.push("AO".into());
    for &mi in &minors {
        ops.push(format!("K2OK {mi}"));
        ops.push(format!("K1INC {mi}"));
    }
    ops.push("K2INC".into());
    ops.push("K1OK".into());
    ops.push("F2".into());
    ops.push("F1".into());
    // random points of the u32 x u32 space, biased to the interesting corner
    for _ in 0..extra {
        let ma = if rng.chance(2, 3) { 1 } else { rng.below(1 << 32) };
        let mi = if rng.chance(1, 2) { rng.below(64) } else { rng.below(1 << 32) };
        match rng.below(4) {
            0 => ops.push(format!("A1 {mi}")),
            1 | 2 => ops.push(format!("A2 {ma} {mi}")),
            _ => ops.push(format!("K2OK {mi}")),
        }
    }

    let mut impl_out = String::new();
    let mut mon = String::new();
    let mut classes: BTreeMap<String, u64> = BTreeMap::new();
    let mut distinct = std::collections::BTreeSet::new();
    for op in &ops {
        let r = catch(|| run_op(op)).unwrap_or_else(|e| format!("!PANIC {e}"));
        if let Some(v) = monitor(op, &r) {
            writeln!(mon, "{v}").unwrap();
        }
        if r.starts_with('!') {
            writeln!(mon, "handshake: op `{op}` gave `{r}`").unwrap();
        }
        let class = format!("{} -> {}", op.split_whitespace().next().unwrap(), r.split_whitespace().next().unwrap_or(""));
        *classes.entry(class).or_default() += 1;
        distinct.insert(op.clone());
        writeln!(impl_out, "{r}").unwrap();
    }
    std::fs::write(format!("{outdir}/cases.txt"), ops.join("\n") + "\n").unwrap();
    std::fs::write(format!("{outdir}/impl.txt"), impl_out).unwrap();
    std::fs::write(format!("{outdir}/monitor.txt"), mon).unwrap();
    let mut st = std::fs::File::create(format!("{outdir}/stats.json")).unwrap();
    let cls: Vec<String> = classes.iter().map(|(k, v)| format!("\"{k}\": {v}")).collect();
    let samples: Vec<String> = ops.iter().step_by((ops.len() / 6).max(1)).take(6).map(|s| format!("\"{s}\"")).collect();
    writeln!(
        st,
        "{{\"seed\": {seed}, \"ops\": {}, \"distinct_ops\": {}, \"grid_ops\": {}, \"classes\": {{{}}}, \"samples\": [{}]}}",
        ops.len(),
        distinct.len(),
        ops.len() as u64 - extra,
        cls.join(", "),
        samples.join(", ")
    )
    .unwrap();
}
