//! C19 harness: the real `Discoverer`, `Lifetime`, `Handle::find_object` and
//! `Handle::wait_for_object` over a real `Broker` and real `Client`s, on a deterministic
//! single-threaded executor with a seeded random scheduler (no-op waker, one randomly chosen task
//! is polled per step).
//!
//! `discover gen <outdir> <cases> <shard> [steps]`: run `cases` seeded worlds; write
//!   cases.txt   one line per model operation (read by extract/clientfold_driver.ml)
//!   impl.txt    what the implementation answered, line-aligned with cases.txt ("-" = nothing to compare)
//!   monitor.txt property violations seen on the implementation alone: what \t seed nact steps \t detail
//!   stats.json  measured distribution
//! `discover one <seed> <nactors> <steps>`: run one world, print its lines and monitor verdicts.
//!
//! A world: a broker; 1..3 actor clients that create/destroy objects and services over pools of
//! 3 object and 3 service UUIDs (re-creation under the same UUID gives a new cookie; objects are
//! destroyed explicitly or by dropping the handle); one observer client that
//!   * builds a `Discoverer` with 1..3 random entries (any/specific object x 0..3 services) at a
//!     random moment, polls it, restarts it once at random;
//!   * binds `Lifetime`s to object ids taken from the actors' log (alive, already dead) or to an id
//!     that never existed, and polls them;
//!   * calls `find_object` and `wait_for_object` with random specs.
//! Every actor logs, per entity, four instants of the executor clock: create request sent (t0),
//! create reply received (t1), destroy request sent / handle dropped (t2), destruction confirmed
//! by a later reply on the same connection (t3).  The entity is certainly alive in [t1, t2] and
//! possibly alive only within [t0, t3]; the monitors use these bounds.
//!
//! Correspondence: the listener inside `Discoverer`/`Lifetime` is private, so the observer runs
//! SHADOW listeners with the same filters on the same client: one with scope `Current` (the
//! snapshot) and one with scope `New` (the stream).  So that the shadow sees exactly what the
//! private listener sees, the observer starts both in a window during which the executor does not
//! schedule the actors' tasks (`freeze`): the bus does not change between the two start requests,
//! and new events are dispatched by the client to all of its listeners in the same order.  The
//! snapshot ORDER may differ between two listeners (HashSet iteration), which the driver accounts
//! for.  The raw bus events go into cases.txt; the extracted Coq folds run on them and their view,
//! emitted events, lifetime verdicts and find/wait answers are compared with the real ones.
use aldrin::core::channel::{self, Disconnected};
use aldrin::core::{
    BusEvent, BusListenerFilter, BusListenerScope, ObjectCookie, ObjectId, ObjectUuid, ServiceId, ServiceUuid,
};
use aldrin::low_level::{Service, ServiceInfo};
use aldrin::{BusListener, Client, Discoverer, Error, Handle, Lifetime, LifetimeId, Object};
use aldrin_broker::Broker;
use std::cell::RefCell;
use std::collections::{BTreeMap, BTreeSet, HashMap, HashSet};
use std::fmt::Write as _;
use std::future::Future;
use std::io::Write;
use std::panic::{catch_unwind, AssertUnwindSafe};
use std::pin::Pin;
use std::rc::Rc;
use std::sync::Arc;
use std::task::{Context, Poll, Wake, Waker};
use uuid::Uuid;
use verif_harness::{env_u64, quiet_panics, Rng};

// ---------------------------------------------------------------- executor plumbing
struct Noop;
impl Wake for Noop {
    fn wake(self: Arc<Self>) {}
}
fn waker() -> Waker {
    Arc::new(Noop).into()
}
type Task = Pin<Box<dyn Future<Output = ()>>>;
type R = Rc<RefCell<Rng>>;
fn rnd(r: &R, n: u64) -> u64 {
    r.borrow_mut().below(n)
}
struct Yield(bool);
impl Future for Yield {
    type Output = ();
    fn poll(mut self: Pin<&mut Self>, _: &mut Context) -> Poll<()> {
        if self.0 {
            Poll::Ready(())
        } else {
            self.0 = true;
            Poll::Pending
        }
    }
}
async fn yield_n(n: u64) {
    for _ in 0..n {
        Yield(false).await;
    }
}
fn poll_once<T>(f: &mut Pin<Box<dyn Future<Output = T>>>) -> Poll<T> {
    let w = waker();
    let mut cx = Context::from_waker(&w);
    f.as_mut().poll(&mut cx)
}

#[derive(Clone, Copy, PartialEq, Eq)]
enum Grp {
    Broker,
    Obs,
    Act,
}

const NEVER: u64 = u64::MAX;

#[derive(Clone, Copy, Debug)]
struct Life {
    t0: u64,
    t1: u64,
    t2: u64,
    t3: u64,
}

#[derive(Default)]
struct Board {
    tick: u64,
    objs: Vec<(ObjectId, Life)>,
    svcs: Vec<(ServiceId, Life)>,
    // creations whose reply the actor has not seen yet (the id is not known to the actor, but
    // the object may already be on the bus): (uuid, request sent at)
    pending_objs: Vec<(ObjectUuid, u64)>,
    pending_svcs: Vec<(ObjectId, ServiceUuid, u64)>,
    actors_done: usize,
    freeze: bool,
    done: bool,
    run_err: Vec<String>,
}
type B = Rc<RefCell<Board>>;
fn now(b: &B) -> u64 {
    b.borrow().tick
}

fn ou(k: u64) -> ObjectUuid {
    ObjectUuid(Uuid::from_u128(1 + k as u128))
}
fn su(k: u64) -> ServiceUuid {
    ServiceUuid(Uuid::from_u128(11 + k as u128))
}

// ---------------------------------------------------------------- numbering of UUIDs / cookies
#[derive(Default)]
struct Ids {
    map: HashMap<Uuid, u64>,
}
impl Ids {
    fn n(&mut self, u: Uuid) -> u64 {
        let v = u.as_u128();
        if v < 100 {
            return v as u64;
        }
        let next = 100 + self.map.len() as u64;
        *self.map.entry(u).or_insert(next)
    }
    fn oid(&mut self, id: ObjectId) -> String {
        format!("{}.{}", self.n(id.uuid.0), self.n(id.cookie.0))
    }
    fn bus(&mut self, ev: BusEvent) -> String {
        match ev {
            BusEvent::ObjectCreated(id) => format!("oc:{}:{}", self.n(id.uuid.0), self.n(id.cookie.0)),
            BusEvent::ObjectDestroyed(id) => format!("od:{}:{}", self.n(id.uuid.0), self.n(id.cookie.0)),
            BusEvent::ServiceCreated(id) => format!(
                "sc:{}:{}:{}:{}",
                self.n(id.object_id.uuid.0),
                self.n(id.object_id.cookie.0),
                self.n(id.uuid.0),
                self.n(id.cookie.0)
            ),
            BusEvent::ServiceDestroyed(id) => format!(
                "sd:{}:{}:{}:{}",
                self.n(id.object_id.uuid.0),
                self.n(id.object_id.cookie.0),
                self.n(id.uuid.0),
                self.n(id.cookie.0)
            ),
        }
    }
    fn buses(&mut self, evs: &[BusEvent]) -> String {
        if evs.is_empty() {
            "-".to_string()
        } else {
            evs.iter().map(|e| self.bus(*e)).collect::<Vec<_>>().join(" ")
        }
    }
    /// `u.c[s.sc,s.sc]` with the services in the given order
    fn found(&mut self, oid: ObjectId, sids: &[ServiceId]) -> String {
        let ss: Vec<String> = sids.iter().map(|s| format!("{}.{}", self.n(s.uuid.0), self.n(s.cookie.0))).collect();
        format!("{}[{}]", self.oid(oid), ss.join(","))
    }
}

// ---------------------------------------------------------------- per-case output
#[derive(Default)]
struct CaseOut {
    cases: Vec<String>,
    imp: Vec<String>,
    mon: Vec<(String, String)>,
    ids: Ids,
    // statistics
    entries: [u64; 4],
    expected_objects: u64,
    devents: u64,
    raw_events: u64,
    raw_destroys: u64,
    restarts: u64,
    uncorr_worlds: u64,
    bounded: u64,
    lifetimes: BTreeMap<String, u64>,
    finds: BTreeMap<String, u64>,
    waits: BTreeMap<String, u64>,
    sig: u64,
}
impl CaseOut {
    fn line(&mut self, case: String, imp: String) {
        self.cases.push(case);
        self.imp.push(imp);
    }
    fn fail(&mut self, what: &str, detail: String) {
        self.mon.push((what.to_string(), detail));
    }
    fn mix(&mut self, s: &str) {
        for b in s.bytes() {
            self.sig = (self.sig ^ b as u64).wrapping_mul(0x100000001b3);
        }
    }
}
type O = Rc<RefCell<CaseOut>>;

// ---------------------------------------------------------------- actors
struct ActObj {
    obj: Object,
    idx: usize,
    svcs: Vec<(Service, usize)>,
}

async fn actor(h: Handle, r: R, b: B, steps: u64) {
    let mut objs: Vec<ActObj> = vec![];
    // entities whose destruction was requested by a drop and is confirmed by the next reply
    let mut pending_o: Vec<usize> = vec![];
    let mut pending_s: Vec<usize> = vec![];
    macro_rules! confirm {
        () => {{
            let t = now(&b);
            let mut bb = b.borrow_mut();
            for i in pending_o.drain(..) {
                bb.objs[i].1.t3 = t;
            }
            for i in pending_s.drain(..) {
                bb.svcs[i].1.t3 = t;
            }
        }};
    }
    for _ in 0..steps {
        yield_n(rnd(&r, 4)).await;
        match rnd(&r, 7) {
            0 | 1 => {
                let t0 = now(&b);
                let uu = ou(rnd(&r, 3));
                b.borrow_mut().pending_objs.push((uu, t0));
                let res = h.create_object(uu).await;
                b.borrow_mut().pending_objs.retain(|p| *p != (uu, t0));
                match res {
                    Ok(o) => {
                        let t1 = now(&b);
                        let idx = {
                            let mut bb = b.borrow_mut();
                            bb.objs.push((o.id(), Life { t0, t1, t2: NEVER, t3: NEVER }));
                            bb.objs.len() - 1
                        };
                        objs.push(ActObj { obj: o, idx, svcs: vec![] });
                    }
                    Err(Error::DuplicateObject) => {}
                    Err(e) => panic!("create_object {e:?}"),
                }
                confirm!();
            }
            2 | 3 | 4 => {
                if !objs.is_empty() {
                    let i = rnd(&r, objs.len() as u64) as usize;
                    let t0 = now(&b);
                    let (oi, uu) = (objs[i].obj.id(), su(rnd(&r, 3)));
                    b.borrow_mut().pending_svcs.push((oi, uu, t0));
                    let res = objs[i].obj.create_service(uu, ServiceInfo::new(0)).await;
                    b.borrow_mut().pending_svcs.retain(|p| *p != (oi, uu, t0));
                    match res {
                        Ok(s) => {
                            let t1 = now(&b);
                            let idx = {
                                let mut bb = b.borrow_mut();
                                bb.svcs.push((s.id(), Life { t0, t1, t2: NEVER, t3: NEVER }));
                                bb.svcs.len() - 1
                            };
                            objs[i].svcs.push((s, idx));
                        }
                        Err(Error::DuplicateService) => {}
                        Err(e) => panic!("create_service {e:?}"),
                    }
                    confirm!();
                }
            }
            5 => {
                if !objs.is_empty() {
                    let i = rnd(&r, objs.len() as u64) as usize;
                    if !objs[i].svcs.is_empty() {
                        let j = rnd(&r, objs[i].svcs.len() as u64) as usize;
                        let (s, idx) = objs[i].svcs.swap_remove(j);
                        b.borrow_mut().svcs[idx].1.t2 = now(&b);
                        if rnd(&r, 3) == 0 {
                            drop(s);
                            pending_s.push(idx);
                        } else {
                            let _ = s.destroy().await;
                            b.borrow_mut().svcs[idx].1.t3 = now(&b);
                            confirm!();
                            drop(s);
                        }
                    }
                }
            }
            _ => {
                if !objs.is_empty() {
                    let i = rnd(&r, objs.len() as u64) as usize;
                    let a = objs.swap_remove(i);
                    let t2 = now(&b);
                    {
                        let mut bb = b.borrow_mut();
                        bb.objs[a.idx].1.t2 = t2;
                        for (_, si) in &a.svcs {
                            bb.svcs[*si].1.t2 = t2;
                        }
                    }
                    if rnd(&r, 2) == 0 {
                        let _ = a.obj.destroy().await;
                        let t3 = now(&b);
                        {
                            let mut bb = b.borrow_mut();
                            bb.objs[a.idx].1.t3 = t3;
                            for (_, si) in &a.svcs {
                                bb.svcs[*si].1.t3 = t3;
                            }
                        }
                        confirm!();
                    } else {
                        pending_o.push(a.idx);
                        for (_, si) in &a.svcs {
                            pending_s.push(*si);
                        }
                    }
                    drop(a);
                }
            }
        }
    }
    // everything this client did has been processed by the broker once this returns
    h.sync_broker().await.unwrap();
    confirm!();
    b.borrow_mut().actors_done += 1;
    // keep the survivors alive until the observer has compared
    loop {
        if b.borrow().done {
            break;
        }
        Yield(false).await;
    }
    drop(objs);
}

// ---------------------------------------------------------------- observer
#[derive(Clone)]
struct Spec {
    obj: Option<u64>,
    svcs: Vec<u64>,
}
impl Spec {
    fn random(r: &R) -> Spec {
        let obj = if rnd(r, 2) == 0 { Some(rnd(r, 3)) } else { None };
        let svcs: Vec<u64> = (0..3).filter(|_| rnd(r, 3) == 0).collect();
        Spec { obj, svcs }
    }
    fn kind(&self) -> usize {
        match (self.obj.is_some(), self.svcs.is_empty()) {
            (false, true) => 0,
            (false, false) => 1,
            (true, false) => 2,
            (true, true) => 3,
        }
    }
    fn filters(&self) -> Vec<BusListenerFilter> {
        match (self.obj, self.svcs.is_empty()) {
            (None, true) => vec![BusListenerFilter::any_object()],
            (None, false) => self.svcs.iter().map(|s| BusListenerFilter::any_object_specific_service(su(*s))).collect(),
            (Some(o), true) => vec![BusListenerFilter::object(ou(o))],
            (Some(o), false) => {
                self.svcs.iter().map(|s| BusListenerFilter::specific_object_and_service(ou(o), su(*s))).collect()
            }
        }
    }
    fn text(&self) -> String {
        let o = self.obj.map(|o| (1 + o).to_string()).unwrap_or("-".into());
        let s = if self.svcs.is_empty() {
            "-".to_string()
        } else {
            self.svcs.iter().map(|s| (11 + s).to_string()).collect::<Vec<_>>().join(",")
        };
        format!("{o} {s}")
    }
    fn obj_uuid(&self) -> Option<ObjectUuid> {
        self.obj.map(ou)
    }
    fn svc_uuids(&self) -> Vec<ServiceUuid> {
        self.svcs.iter().map(|s| su(*s)).collect()
    }
}

async fn shadow(h: &Handle, filters: &[BusListenerFilter], scope: BusListenerScope) -> BusListener {
    let mut l = h.create_bus_listener().await.unwrap();
    for f in filters {
        l.add_filter(*f).unwrap();
    }
    l.start(scope).await.unwrap();
    l
}
/// the whole snapshot of a `Current` listener
async fn snapshot(h: &Handle, filters: &[BusListenerFilter]) -> Vec<BusEvent> {
    let mut l = shadow(h, filters, BusListenerScope::Current).await;
    let mut v = vec![];
    while let Some(ev) = l.next_event().await {
        v.push(ev);
    }
    v
}
/// whatever is queued right now
fn drain(l: &mut BusListener, into: &mut Vec<BusEvent>) {
    let w = waker();
    let mut cx = Context::from_waker(&w);
    while let Poll::Ready(Some(ev)) = l.poll_next_event(&mut cx) {
        into.push(ev);
    }
}

struct Lt {
    lt: Lifetime,
    id: ObjectId,
    class: &'static str,
    new: Option<BusListener>,
    cur: Vec<BusEvent>,
    news: Vec<BusEvent>,
    bound_at: u64,
    ended_at: Option<u64>,
}

struct Wt {
    fut: Pin<Box<dyn Future<Output = Result<(ObjectId, Vec<ServiceId>), Error>>>>,
    spec: Spec,
    new: Option<BusListener>,
    cur: Vec<BusEvent>,
    news: Vec<BusEvent>,
    start: u64,
    result: Option<(ObjectId, Vec<ServiceId>, u64)>,
}

/// is there an instant in [ts, te] at which the object and all the services may have been alive?
fn possibly_alive(bd: &Board, oid: ObjectId, sids: &[ServiceId], ts: u64, te: u64) -> Result<(), String> {
    let mut lo = ts;
    let mut hi = te;
    match bd.objs.iter().find(|(i, _)| *i == oid) {
        Some((_, l)) => {
            lo = lo.max(l.t0);
            hi = hi.min(l.t3);
        }
        None => match bd.pending_objs.iter().filter(|p| p.0 == oid.uuid && p.1 <= te).map(|p| p.1).min() {
            Some(t0) => lo = lo.max(t0),
            None => return Err(format!("object {oid:?} was never created by an actor")),
        },
    }
    for s in sids {
        if s.object_id != oid {
            return Err(format!("service {s:?} does not belong to {oid:?}"));
        }
        match bd.svcs.iter().find(|(i, _)| i == s) {
            Some((_, l)) => {
                lo = lo.max(l.t0);
                hi = hi.min(l.t3);
            }
            None => match bd.pending_svcs.iter().filter(|p| p.0 == oid && p.1 == s.uuid && p.2 <= te).map(|p| p.2).min() {
                Some(t0) => lo = lo.max(t0),
                None => return Err(format!("service {s:?} was never created by an actor")),
            },
        }
    }
    if lo <= hi {
        Ok(())
    } else {
        Err(format!("no common instant within [{ts},{te}] (intersection [{lo},{hi}])"))
    }
}

/// an object matching `spec` that was certainly alive, with all required services, throughout [ts, te]
fn certainly_matching(bd: &Board, spec: &Spec, ts: u64, te: u64) -> Option<ObjectId> {
    for (oid, l) in &bd.objs {
        if let Some(o) = spec.obj {
            if oid.uuid != ou(o) {
                continue;
            }
        }
        if !(l.t1 <= ts && te <= l.t2) {
            continue;
        }
        let all = spec.svcs.iter().all(|s| {
            bd.svcs.iter().any(|(sid, sl)| sid.object_id == *oid && sid.uuid == su(*s) && sl.t1 <= ts && te <= sl.t2)
        });
        if all {
            return Some(*oid);
        }
    }
    None
}

fn sids_ok(spec: &Spec, oid: ObjectId, sids: &[ServiceId]) -> Result<(), String> {
    if let Some(o) = spec.obj {
        if oid.uuid != ou(o) {
            return Err(format!("object uuid {:?} does not match the request", oid.uuid));
        }
    }
    if sids.len() != spec.svcs.len() {
        return Err(format!("{} service ids for {} requested services", sids.len(), spec.svcs.len()));
    }
    for (s, sid) in spec.svcs.iter().zip(sids) {
        if sid.uuid != su(*s) || sid.object_id != oid {
            return Err(format!("service id {sid:?} is not service {:?} of {oid:?}", su(*s)));
        }
    }
    Ok(())
}

async fn observer(h: Handle, r: R, b: B, nactors: usize, out: O) {
    yield_n(rnd(&r, 30)).await; // start at a random point of the activity
    let nent = 1 + rnd(&r, 3) as usize;
    let specs: Vec<Spec> = (0..nent).map(|_| Spec::random(&r)).collect();
    let mut filters: Vec<BusListenerFilter> = vec![];
    for s in &specs {
        for f in s.filters() {
            if !filters.contains(&f) {
                filters.push(f);
            }
        }
    }
    {
        let mut o = out.borrow_mut();
        for (k, s) in specs.iter().enumerate() {
            o.entries[s.kind()] += 1;
            let t = format!("spec {k} {}", s.text());
            o.mix(&t);
            o.line(t, "-".into());
        }
        o.line("new".into(), "-".into());
    }
    // ---- build the discoverer; in three worlds of four with its shadows in one frozen window
    // (correspondence), in the fourth with the actors running (monitors only)
    let dcorr = rnd(&r, 4) != 0;
    if dcorr {
        b.borrow_mut().freeze = true;
    }
    let mut builder = Discoverer::<usize>::builder(&h);
    for (k, s) in specs.iter().enumerate() {
        builder = builder.add(k, s.obj_uuid(), s.svc_uuids());
    }
    let mut d = builder.build().await.unwrap();
    let mut s_new: Option<BusListener> = None;
    if dcorr {
        s_new = Some(shadow(&h, &filters, BusListenerScope::New).await);
        let cur = snapshot(&h, &filters).await;
        b.borrow_mut().freeze = false;
        let mut o = out.borrow_mut();
        o.raw_events += cur.len() as u64;
        let t = format!("cur {}", o.ids.buses(&cur));
        o.mix(&t);
        o.line(t, "-".into());
    } else {
        out.borrow_mut().uncorr_worlds += 1;
    }
    let mut devs: Vec<(usize, bool, ObjectId)> = vec![]; // since the last restart
    let mut restarted = rnd(&r, 3) == 0; // a third of the worlds never restart
    let mut lts: Vec<Lt> = vec![];
    let mut wt: Option<Wt> = None;
    let mut waits_started = 0;
    let mut finds = 0;
    let mut synced = false;
    let mut after_sync = 0u64;

    // flush the stream shadow into the case file
    macro_rules! flush_new {
        () => {{
            let mut v = vec![];
            if let Some(sn) = s_new.as_mut() {
                drain(sn, &mut v);
            }
            let mut o = out.borrow_mut();
            for ev in v {
                o.raw_events += 1;
                if matches!(ev, BusEvent::ObjectDestroyed(_) | BusEvent::ServiceDestroyed(_)) {
                    o.raw_destroys += 1;
                }
                let t = format!("ev {}", o.ids.bus(ev));
                o.mix(&t);
                o.line(t, "-".into());
            }
        }};
    }
    macro_rules! devs_text {
        ($k:expr) => {{
            let mut o = out.borrow_mut();
            let v: Vec<String> = devs
                .iter()
                .filter(|e| e.0 == $k)
                .map(|e| format!("{}{}", if e.1 { "+" } else { "-" }, o.ids.oid(e.2)))
                .collect();
            if v.is_empty() {
                "-".to_string()
            } else {
                v.join(" ")
            }
        }};
    }

    loop {
        // ---- the discoverer
        {
            let w = waker();
            let mut cx = Context::from_waker(&w);
            match d.poll_next_event(&mut cx) {
                Poll::Ready(Some(ev)) => devs.push((ev.key(), ev.is_created(), ev.object_id())),
                Poll::Ready(None) => {
                    out.borrow_mut().fail("discoverer-finished", "poll_next_event returned None with scope All".into());
                    break;
                }
                Poll::Pending => {
                    if synced {
                        after_sync += 1;
                        if after_sync > 3 {
                            break;
                        }
                    }
                    Yield(false).await;
                }
            }
        }
        // ---- restart once, at a random moment
        if !restarted && !synced && rnd(&r, 150) == 0 {
            restarted = true;
            if dcorr {
                b.borrow_mut().freeze = true;
            }
            d.restart().await.unwrap();
            out.borrow_mut().restarts += 1;
            if dcorr {
                // everything the broker emitted before it processed Stop is queued by now
                flush_new!();
                out.borrow_mut().line("deliv".into(), "ok".into());
                for k in 0..nent {
                    let t = devs_text!(k);
                    out.borrow_mut().line(format!("prefix {k} {t}"), "ok".into());
                }
                let cur = snapshot(&h, &filters).await;
                b.borrow_mut().freeze = false;
                let mut o = out.borrow_mut();
                o.raw_events += cur.len() as u64;
                o.line("restart".into(), "-".into());
                let t = format!("cur {}", o.ids.buses(&cur));
                o.mix(&t);
                o.line(t, "-".into());
            }
            devs.clear();
        }
        // ---- bind a lifetime
        if !synced && lts.len() < 3 && rnd(&r, 60) == 0 {
            let pick = {
                let bd = b.borrow();
                let c = rnd(&r, 4);
                if c == 0 || bd.objs.is_empty() {
                    // an id that never existed: pool UUID, random cookie
                    let ck = ObjectCookie(Uuid::from_u128(0x5000_0000_0000_0000_0000_0000_0000_0000u128 + r.borrow_mut().next() as u128));
                    (ObjectId::new(ou(rnd(&r, 3)), ck), "never")
                } else {
                    let i = rnd(&r, bd.objs.len() as u64) as usize;
                    let (id, l) = bd.objs[i];
                    (id, if l.t2 == NEVER { "alive-at-pick" } else { "dead-at-pick" })
                }
            };
            let (id, class) = pick;
            let f = [BusListenerFilter::object(id.uuid)];
            if rnd(&r, 3) != 0 {
                b.borrow_mut().freeze = true;
                let lt = h.create_lifetime(LifetimeId(id)).await.unwrap();
                let new = shadow(&h, &f, BusListenerScope::New).await;
                let cur = snapshot(&h, &f).await;
                b.borrow_mut().freeze = false;
                lts.push(Lt { lt, id, class, new: Some(new), cur, news: vec![], bound_at: now(&b), ended_at: None });
            } else {
                // bound while the actors run: monitors only
                let lt = h.create_lifetime(LifetimeId(id)).await.unwrap();
                lts.push(Lt { lt, id, class, new: None, cur: vec![], news: vec![], bound_at: now(&b), ended_at: None });
            }
        }
        // ---- poll the lifetimes
        for l in lts.iter_mut() {
            if l.ended_at.is_none() && rnd(&r, 3) == 0 {
                let w = waker();
                let mut cx = Context::from_waker(&w);
                if l.lt.poll_ended(&mut cx).is_ready() {
                    let t = now(&b);
                    l.ended_at = Some(t);
                    // never while certainly alive: the scope must have been asked to die before now
                    let bd = b.borrow();
                    if let Some((_, life)) = bd.objs.iter().find(|(i, _)| *i == l.id) {
                        if l.bound_at >= life.t1 && t < life.t2 {
                            out.borrow_mut().fail(
                                "lifetime-resolved-while-alive",
                                format!("{:?} resolved at {t}, scope certainly alive in [{}, {}]", l.id, life.t1, life.t2),
                            );
                        }
                    }
                }
            }
        }
        // ---- find_object
        if !synced && finds < 4 && rnd(&r, 50) == 0 {
            finds += 1;
            let spec = Spec::random(&r);
            let frozen = rnd(&r, 2) == 0;
            let mut cur = vec![];
            if frozen {
                b.borrow_mut().freeze = true;
                cur = snapshot(&h, &spec.filters()).await;
            }
            let ts = now(&b);
            let res = h.find_object(spec.obj_uuid(), spec.svc_uuids()).await.unwrap();
            let te = now(&b);
            if frozen {
                b.borrow_mut().freeze = false;
            }
            let mut o = out.borrow_mut();
            let bd = b.borrow();
            match &res {
                Some((oid, sids)) => {
                    *o.finds.entry(if frozen { "some-frozen" } else { "some" }.into()).or_default() += 1;
                    if let Err(e) = sids_ok(&spec, *oid, sids).and_then(|_| possibly_alive(&bd, *oid, sids, ts, te)) {
                        o.fail("find-object-not-existing", format!("find_object({}) = {oid:?} {sids:?}: {e}", spec.text()));
                    }
                }
                None => {
                    *o.finds.entry(if frozen { "none-frozen" } else { "none" }.into()).or_default() += 1;
                    if let Some(m) = certainly_matching(&bd, &spec, ts, te) {
                        o.fail("find-object-missed", format!("find_object({}) = None but {m:?} was alive with its services throughout [{ts},{te}]", spec.text()));
                    }
                }
            }
            if frozen {
                let rt = match &res {
                    Some((oid, sids)) => o.ids.found(*oid, sids),
                    None => "none".into(),
                };
                let t = format!("find {} | {} | {rt}", spec.text(), o.ids.buses(&cur));
                o.line(t, "ok".into());
            }
        }
        // ---- wait_for_object
        if !synced && wt.is_none() && waits_started < 2 && rnd(&r, 60) == 0 {
            waits_started += 1;
            let spec = Spec::random(&r);
            let f = spec.filters();
            let frozen = rnd(&r, 3) != 0;
            if frozen {
                b.borrow_mut().freeze = true;
            }
            let h2 = h.clone();
            let (o2, s2) = (spec.obj_uuid(), spec.svc_uuids());
            let mut fut: Pin<Box<dyn Future<Output = Result<(ObjectId, Vec<ServiceId>), Error>>>> =
                Box::pin(async move { h2.wait_for_object(o2, s2).await });
            let start = now(&b);
            // drive the call until its private listener is started: the build takes two round
            // trips (create listener, start); requests of one client are served in order, so
            // after each sync_broker the reply the call waits for has arrived
            let mut result = None;
            if frozen {
                for _ in 0..3 {
                    if let Poll::Ready(x) = poll_once(&mut fut) {
                        let (oid, sids) = x.unwrap();
                        result = Some((oid, sids, now(&b)));
                        break;
                    }
                    h.sync_broker().await.unwrap();
                }
                if result.is_none() {
                    if let Poll::Ready(x) = poll_once(&mut fut) {
                        let (oid, sids) = x.unwrap();
                        result = Some((oid, sids, now(&b)));
                    }
                }
                let new = shadow(&h, &f, BusListenerScope::New).await;
                let cur = snapshot(&h, &f).await;
                b.borrow_mut().freeze = false;
                wt = Some(Wt { fut, spec, new: Some(new), cur, news: vec![], start, result });
            } else {
                wt = Some(Wt { fut, spec, new: None, cur: vec![], news: vec![], start, result });
            }
        }
        let mut wt_done = false;
        if let Some(w) = wt.as_mut() {
            if w.result.is_none() {
                if let Poll::Ready(x) = poll_once(&mut w.fut) {
                    let (oid, sids) = x.unwrap();
                    w.result = Some((oid, sids, now(&b)));
                }
            }
            wt_done = w.result.is_some() && !synced;
        }
        if wt_done {
            let w = wt.take().unwrap();
            finish_wait(w, &b, &out, false);
        }
        // ---- the end: all actors have stopped and synced; sync ourselves, then drain
        if !synced && b.borrow().actors_done == nactors {
            h.sync_broker().await.unwrap();
            synced = true;
        }
    }
    // ---- everything delivered has been consumed; compare
    flush_new!();
    let bd_truth: Vec<(ObjectId, Vec<ServiceId>)> = {
        let bd = b.borrow();
        bd.objs
            .iter()
            .filter(|(_, l)| l.t2 == NEVER)
            .map(|(oid, _)| {
                (*oid, bd.svcs.iter().filter(|(s, l)| s.object_id == *oid && l.t2 == NEVER).map(|(s, _)| *s).collect())
            })
            .collect()
    };
    if dcorr {
        out.borrow_mut().line("deliv".into(), "ok".into());
    }
    for (k, spec) in specs.iter().enumerate() {
        // monitor: the view against the actors' truth
        let mut expect: BTreeSet<ObjectId> = BTreeSet::new();
        for (oid, ss) in &bd_truth {
            if let Some(o) = spec.obj {
                if oid.uuid != ou(o) {
                    continue;
                }
            }
            if spec.svcs.iter().all(|s| ss.iter().any(|x| x.uuid == su(*s))) {
                expect.insert(*oid);
            }
        }
        let got: BTreeSet<ObjectId> = d.entry_iter(k).map(|e| e.object_id()).collect();
        out.borrow_mut().expected_objects += expect.len() as u64;
        if got != expect {
            out.borrow_mut().fail("view-differs-from-bus", format!("entry {k} ({}): discoverer has {got:?}, bus has {expect:?}", spec.text()));
        }
        let mut view: Vec<(ObjectId, Vec<ServiceId>)> = vec![];
        for oid in &got {
            let mut sids = vec![];
            for s in &spec.svcs {
                let sid = d.service_id(k, oid.uuid, su(*s));
                let real = bd_truth.iter().find(|(o, _)| o == oid).and_then(|(_, ss)| ss.iter().find(|x| x.uuid == su(*s)).copied());
                if sid != real {
                    out.borrow_mut().fail("service-id-differs-from-bus", format!("entry {k}: service id {sid:?}, bus has {real:?}"));
                }
                if let Some(sid) = sid {
                    sids.push(sid);
                }
            }
            if d.object_id(k, oid.uuid) != Some(*oid) {
                out.borrow_mut().fail("object-id-differs", format!("entry {k}: object_id({:?}) = {:?}", oid.uuid, d.object_id(k, oid.uuid)));
            }
            view.push((*oid, sids));
        }
        // monitor: the events since the last restart alternate per object and fold to the view
        let mut live: BTreeMap<ObjectUuid, ObjectId> = BTreeMap::new();
        for (kk, created, oid) in &devs {
            if *kk != k {
                continue;
            }
            if *created {
                if live.insert(oid.uuid, *oid).is_some() {
                    out.borrow_mut().fail("event-created-twice", format!("entry {k}: created twice {oid:?}"));
                }
            } else if live.remove(&oid.uuid) != Some(*oid) {
                out.borrow_mut().fail("event-destroyed-without-created", format!("entry {k}: destroyed without created {oid:?}"));
            }
        }
        let lv: BTreeSet<ObjectId> = live.values().cloned().collect();
        if lv != got {
            out.borrow_mut().fail("event-fold-differs-from-view", format!("entry {k}: event fold {lv:?} != view {got:?}"));
        }
        // correspondence lines
        if !dcorr {
            continue;
        }
        let t = devs_text!(k);
        let mut o = out.borrow_mut();
        o.line(format!("events {k} {t}"), "ok".into());
        let mut vs: Vec<(u64, String)> = vec![];
        for (oid, sids) in &view {
            let key = o.ids.n(oid.uuid.0);
            let txt = o.ids.found(*oid, sids);
            vs.push((key, txt));
        }
        vs.sort();
        let vt = if vs.is_empty() { "-".to_string() } else { vs.into_iter().map(|x| x.1).collect::<Vec<_>>().join(" ") };
        o.line(format!("view {k}"), format!("view {vt}"));
    }
    {
        let mut o = out.borrow_mut();
        o.devents += devs.len() as u64;
    }
    // ---- lifetimes: final poll, iff with the truth, model on the shadow's events
    for mut l in lts {
        if let Some(n) = l.new.as_mut() {
            drain(n, &mut l.news);
        }
        if l.ended_at.is_none() {
            let w = waker();
            let mut cx = Context::from_waker(&w);
            if l.lt.poll_ended(&mut cx).is_ready() {
                l.ended_at = Some(now(&b));
            }
        }
        let alive = bd_truth.iter().any(|(o, _)| *o == l.id);
        let ended = l.lt.has_ended();
        let mut o = out.borrow_mut();
        *o.lifetimes.entry(format!("{}:{}", l.class, if ended { "ended" } else { "pending" })).or_default() += 1;
        if ended == alive {
            o.fail(
                "lifetime-verdict",
                format!("{:?} ({}): has_ended = {ended}, scope alive on the bus = {alive}", l.id, l.class),
            );
        }
        if l.new.is_some() {
            let (u, c) = (o.ids.n(l.id.uuid.0), o.ids.n(l.id.cookie.0));
            let t = format!("lt {u} {c} | {} | {}", o.ids.buses(&l.cur), o.ids.buses(&l.news));
            o.line(t, format!("ended={}", ended as u8));
        } else {
            *o.lifetimes.entry("bound-unfrozen".into()).or_default() += 1;
        }
    }
    // ---- a wait still pending: it must not have missed a match
    if let Some(mut w) = wt.take() {
        if w.result.is_none() {
            // the call may still be building its discoverer (two round trips): after each
            // sync_broker the reply it waits for has arrived, and once its listener is started the
            // snapshot is queued before the sync reply
            for _ in 0..4 {
                if let Poll::Ready(x) = poll_once(&mut w.fut) {
                    let (oid, sids) = x.unwrap();
                    w.result = Some((oid, sids, now(&b)));
                    break;
                }
                h.sync_broker().await.unwrap();
            }
        }
        finish_wait(w, &b, &out, true);
    }
    b.borrow_mut().done = true;
    drop(d);
    drop(s_new);
}

fn finish_wait(mut w: Wt, b: &B, out: &O, at_end: bool) {
    if let Some(n) = w.new.as_mut() {
        drain(n, &mut w.news);
    }
    let mut o = out.borrow_mut();
    let bd = b.borrow();
    match &w.result {
        Some((oid, sids, te)) => {
            *o.waits.entry("returned".into()).or_default() += 1;
            if let Err(e) = sids_ok(&w.spec, *oid, sids).and_then(|_| possibly_alive(&bd, *oid, sids, w.start, *te)) {
                o.fail("wait-for-object-not-existing", format!("wait_for_object({}) = {oid:?} {sids:?}: {e}", w.spec.text()));
            }
        }
        None => {
            *o.waits.entry("pending-at-end".into()).or_default() += 1;
            debug_assert!(at_end);
            let te = bd.tick;
            if let Some(m) = certainly_matching(&bd, &w.spec, te, te) {
                o.fail("wait-for-object-missed", format!("wait_for_object({}) still pending at quiescence but {m:?} is alive with its services", w.spec.text()));
            }
        }
    }
    let _ = at_end;
    let rt = match &w.result {
        Some((oid, sids, _)) => o.ids.found(*oid, sids),
        None => "none".into(),
    };
    if w.new.is_some() {
        let t = format!("wait {} | {} | {} | {rt}", w.spec.text(), o.ids.buses(&w.cur), o.ids.buses(&w.news));
        o.line(t, "ok".into());
    } else {
        *o.waits.entry("started-unfrozen".into()).or_default() += 1;
    }
}

// ---------------------------------------------------------------- one world
fn run_case(seed: u64, nactors: usize, steps: u64, out: O) -> Result<(), String> {
    // the transport between each client and the broker: unbounded, or bounded with a FIFO of 1..8
    // messages (back pressure changes which task can run when); decided by the world's seed
    match seed % 3 {
        0 => {
            let n = 1 + (seed / 3 % 8) as usize;
            out.borrow_mut().bounded += 1;
            run_case_t(seed, nactors, steps, out, move || channel::bounded(n))
        }
        _ => run_case_t(seed, nactors, steps, out, channel::unbounded),
    }
}

fn run_case_t<T>(seed: u64, nactors: usize, steps: u64, out: O, mk: impl Fn() -> (T, T)) -> Result<(), String>
where
    T: aldrin::core::transport::AsyncTransport<Error = Disconnected> + Unpin + 'static,
{
    let r: R = Rc::new(RefCell::new(Rng::new(seed)));
    let b: B = Rc::new(RefCell::new(Board::default()));
    let spawn: Rc<RefCell<Vec<(Grp, Task)>>> = Rc::new(RefCell::new(vec![]));
    let broker = Broker::new();
    let bh = broker.handle().clone();
    let mut tasks: Vec<Option<(Grp, Task)>> = vec![Some((Grp::Broker, Box::pin(broker.run())))];
    for i in 0..=nactors {
        let (bb, rr, sp, mut h2, oo) = (b.clone(), r.clone(), spawn.clone(), bh.clone(), out.clone());
        let (t1, t2) = mk();
        let grp = if i == nactors { Grp::Obs } else { Grp::Act };
        tasks.push(Some((
            grp,
            Box::pin(async move {
                let mut cf: Pin<Box<dyn Future<Output = Result<Client<T>, aldrin::error::ConnectError<Disconnected>>>>> =
                    Box::pin(Client::connect(t1));
                let mut bf = Box::pin(h2.connect(t2));
                let (mut cres, mut bres) = (None, None);
                while cres.is_none() || bres.is_none() {
                    let w = waker();
                    let mut cx = Context::from_waker(&w);
                    if cres.is_none() {
                        if let Poll::Ready(x) = cf.as_mut().poll(&mut cx) {
                            cres = Some(x);
                        }
                    }
                    if bres.is_none() {
                        if let Poll::Ready(x) = bf.as_mut().poll(&mut cx) {
                            bres = Some(x);
                        }
                    }
                    Yield(false).await;
                }
                let client = cres.unwrap().unwrap();
                let conn = bres.unwrap().unwrap();
                let h = client.handle().clone();
                let b2 = bb.clone();
                sp.borrow_mut().push((
                    grp,
                    Box::pin(async move {
                        if let Err(e) = client.run().await {
                            b2.borrow_mut().run_err.push(format!("client {i}: {e:?}"));
                        }
                    }),
                ));
                sp.borrow_mut().push((
                    grp,
                    Box::pin(async move {
                        let _ = conn.run().await;
                    }),
                ));
                if i == nactors {
                    sp.borrow_mut().push((grp, Box::pin(observer(h, rr, bb, nactors, oo))));
                } else {
                    sp.borrow_mut().push((grp, Box::pin(actor(h, rr, bb, steps))));
                }
            }),
        )));
    }
    let mut budget = 3_000_000usize;
    loop {
        for t in spawn.borrow_mut().drain(..) {
            tasks.push(Some(t));
        }
        let frozen = b.borrow().freeze;
        let live: Vec<usize> =
            (0..tasks.len()).filter(|i| matches!(&tasks[*i], Some((g, _)) if !(frozen && *g == Grp::Act))).collect();
        if live.is_empty() {
            break;
        }
        let i = live[rnd(&r, live.len() as u64) as usize];
        let w = waker();
        let mut cx = Context::from_waker(&w);
        b.borrow_mut().tick += 1;
        if tasks[i].as_mut().unwrap().1.as_mut().poll(&mut cx).is_ready() {
            tasks[i] = None;
        }
        budget -= 1;
        if budget == 0 {
            let bd = b.borrow();
            return Err(format!("HANG (actors_done={} freeze={} tick={})", bd.actors_done, bd.freeze, bd.tick));
        }
        if b.borrow().done {
            break;
        }
    }
    if !b.borrow().run_err.is_empty() {
        return Err(format!("client run error: {:?}", b.borrow().run_err));
    }
    if !b.borrow().done {
        return Err("observer did not finish".into());
    }
    Ok(())
}

struct Totals {
    cases: u64,
    lines: u64,
    entries: [u64; 4],
    expected_objects: u64,
    devents: u64,
    raw_events: u64,
    raw_destroys: u64,
    restarts: u64,
    uncorr_worlds: u64,
    bounded: u64,
    lifetimes: BTreeMap<String, u64>,
    finds: BTreeMap<String, u64>,
    waits: BTreeMap<String, u64>,
    monitor: BTreeMap<String, u64>,
    sigs: HashSet<u64>,
    nontrivial: u64,
    samples: Vec<String>,
}

fn case_params(seed: u64, k: u64, steps: u64) -> (u64, usize, u64) {
    let cs = seed.wrapping_mul(1_000_003).wrapping_add(k).wrapping_mul(0x9E37_79B9_7F4A_7C15) | 1;
    (cs, 1 + (k % 3) as usize, steps)
}

fn one(cs: u64, nact: usize, steps: u64) -> (CaseOut, Option<String>) {
    let out: O = Rc::new(RefCell::new(CaseOut::default()));
    out.borrow_mut().line(format!("case {cs} {nact} {steps}"), "-".into());
    let o2 = out.clone();
    let res = catch_unwind(AssertUnwindSafe(move || run_case(cs, nact, steps, o2)));
    let err = match res {
        Ok(Ok(())) => None,
        Ok(Err(e)) => Some(e),
        Err(p) => Some(format!(
            "PANIC {}",
            p.downcast_ref::<String>().cloned().or_else(|| p.downcast_ref::<&str>().map(|s| s.to_string())).unwrap_or_default().replace('\n', " ")
        )),
    };
    let co = std::mem::take(&mut *out.borrow_mut());
    (co, err)
}

fn jmap(m: &BTreeMap<String, u64>) -> String {
    format!("{{{}}}", m.iter().map(|(k, v)| format!("\"{k}\":{v}")).collect::<Vec<_>>().join(","))
}

fn main() {
    quiet_panics();
    let args: Vec<String> = std::env::args().collect();
    if args.len() >= 5 && args[1] == "one" {
        let (cs, nact, steps): (u64, usize, u64) = (args[2].parse().unwrap(), args[3].parse().unwrap(), args[4].parse().unwrap());
        let (co, err) = one(cs, nact, steps);
        for (c, i) in co.cases.iter().zip(&co.imp) {
            println!("{c}\t=> {i}");
        }
        for (w, d) in &co.mon {
            println!("MONITOR {w}: {d}");
        }
        if let Some(e) = &err {
            println!("MONITOR run: {e}");
        }
        if args.len() >= 6 {
            // also leave the case file for the model driver
            std::fs::write(format!("{}/cases.txt", args[5]), co.cases.join("\n") + "\n").unwrap();
            std::fs::write(format!("{}/impl.txt", args[5]), co.imp.join("\n") + "\n").unwrap();
        }
        std::process::exit(if co.mon.is_empty() && err.is_none() { 0 } else { 1 });
    }
    if args.len() < 5 || args[1] != "gen" {
        eprintln!("usage: discover gen <outdir> <cases> <shard> [steps] | discover one <seed> <nactors> <steps> [outdir]");
        std::process::exit(2);
    }
    let outdir = &args[2];
    let n: u64 = args[3].parse().unwrap();
    let shard: u64 = args[4].parse().unwrap();
    let steps: u64 = args.get(5).map(|s| s.parse().unwrap()).unwrap_or(30);
    let seed = env_u64("VERIF_SEED", 1);
    let mut fc = std::io::BufWriter::new(std::fs::File::create(format!("{outdir}/cases.txt")).unwrap());
    let mut fi = std::io::BufWriter::new(std::fs::File::create(format!("{outdir}/impl.txt")).unwrap());
    let mut fm = std::io::BufWriter::new(std::fs::File::create(format!("{outdir}/monitor.txt")).unwrap());
    let mut t = Totals {
        cases: 0,
        lines: 0,
        entries: [0; 4],
        expected_objects: 0,
        devents: 0,
        raw_events: 0,
        raw_destroys: 0,
        restarts: 0,
        uncorr_worlds: 0,
        bounded: 0,
        lifetimes: BTreeMap::new(),
        finds: BTreeMap::new(),
        waits: BTreeMap::new(),
        monitor: BTreeMap::new(),
        sigs: HashSet::new(),
        nontrivial: 0,
        samples: vec![],
    };
    for k in 0..n {
        let (cs, nact, st) = case_params(seed, shard * 1_000_000 + k, steps);
        let (co, err) = one(cs, nact, st);
        for c in &co.cases {
            writeln!(fc, "{c}").unwrap();
        }
        for i in &co.imp {
            writeln!(fi, "{i}").unwrap();
        }
        let params = format!("{cs} {nact} {st}");
        for (w, d) in &co.mon {
            writeln!(fm, "{w}\t{params}\t{}", d.replace(['\n', '\t'], " ")).unwrap();
            *t.monitor.entry(w.clone()).or_default() += 1;
        }
        if let Some(e) = err {
            let w = if e.starts_with("PANIC") { "panic" } else if e.starts_with("HANG") { "hang" } else { "run-error" };
            writeln!(fm, "{w}\t{params}\t{}", e.replace(['\n', '\t'], " ")).unwrap();
            *t.monitor.entry(w.into()).or_default() += 1;
        }
        t.cases += 1;
        t.lines += co.cases.len() as u64;
        for i in 0..4 {
            t.entries[i] += co.entries[i];
        }
        t.expected_objects += co.expected_objects;
        t.devents += co.devents;
        t.raw_events += co.raw_events;
        t.raw_destroys += co.raw_destroys;
        t.restarts += co.restarts;
        t.uncorr_worlds += co.uncorr_worlds;
        t.bounded += co.bounded;
        for (k, v) in &co.lifetimes {
            *t.lifetimes.entry(k.clone()).or_default() += v;
        }
        for (k, v) in &co.finds {
            *t.finds.entry(k.clone()).or_default() += v;
        }
        for (k, v) in &co.waits {
            *t.waits.entry(k.clone()).or_default() += v;
        }
        // non-trivial: the listener saw a destruction and the discoverer emitted something
        if co.raw_destroys > 0 && co.devents > 0 && t.sigs.insert(co.sig) {
            t.nontrivial += 1;
            if t.samples.len() < 4 && t.nontrivial % 37 == 1 {
                let s = co.cases.iter().take(14).cloned().collect::<Vec<_>>().join(" ; ");
                t.samples.push(if s.len() > 400 { format!("{}…", &s[..400]) } else { s });
            }
        }
    }
    let mut s = String::new();
    write!(
        s,
        "{{\"seed\":{seed},\"cases\":{},\"lines\":{},\"entry_kinds\":{{\"any\":{},\"any_with_services\":{},\"specific_with_services\":{},\"specific\":{}}},\
         \"expected_objects\":{},\"discoverer_events\":{},\"raw_bus_events\":{},\"raw_destroy_events\":{},\"restarts\":{},\"worlds_without_discoverer_correspondence\":{},\"worlds_with_bounded_transport\":{},\
         \"lifetimes\":{},\"finds\":{},\"waits\":{},\"monitor_failures\":{},\"distinct_nontrivial\":{},\"samples\":[{}]}}",
        t.cases,
        t.lines,
        t.entries[0],
        t.entries[1],
        t.entries[2],
        t.entries[3],
        t.expected_objects,
        t.devents,
        t.raw_events,
        t.raw_destroys,
        t.restarts,
        t.uncorr_worlds,
        t.bounded,
        jmap(&t.lifetimes),
        jmap(&t.finds),
        jmap(&t.waits),
        jmap(&t.monitor),
        t.nontrivial,
        t.samples.iter().map(|x| format!("\"{}\"", x.replace('"', "'").replace('\\', "/"))).collect::<Vec<_>>().join(",")
    )
    .unwrap();
    std::fs::write(format!("{outdir}/stats.json"), s).unwrap();
}
