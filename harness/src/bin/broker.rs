//! `broker gen <outdir> <histories> <max-steps> [mix]`: drive the REAL `Broker::run` +
//! `Connection::run` tasks over in-memory transports on a deterministic single-threaded executor
//! (no-op waker, poll to quiescence after every injected operation) and write a trace
//! (`trace.txt`) of every injected event with everything each client received, which connections
//! the broker closed, and the published gauges.  `extract/broker_driver` replays the events
//! through the Coq model and compares step by step.
//!
//! One injected operation = one broker step (DESIGN §4 C02).  Operations: connect (versions
//! 1.14..1.20), message from a live connection (state-aware choice of cookies/serials from a
//! tracker), disconnect by dropping the transport / by a Shutdown message / forced by the broker
//! handle / by dropping the connection task (also with its last request still queued), idle
//! shutdown, broker shutdown.
use aldrin_broker::{Broker, BrokerHandle, ConnectionHandle};
use aldrin_core::channel::{self, Unbounded};
use aldrin_core::message::*;
use aldrin_core::transport::AsyncTransport;
use aldrin_core::*;
use std::cell::RefCell;
use std::collections::BTreeMap;
use std::fmt::Write as _;
use std::future::Future;
use std::io::Write;
use std::panic::{catch_unwind, AssertUnwindSafe};
use std::pin::Pin;
use std::rc::Rc;
use std::sync::Arc;
use std::task::{Context, Poll, Wake, Waker};
use uuid::Uuid;
use verif_harness::brokertrack::Model;
use verif_harness::msgfmt::{fmt_msg, parse_msg, Ids};
use verif_harness::{env_u64, quiet_panics, Rng};

struct Noop;
impl Wake for Noop {
    fn wake(self: Arc<Self>) {}
}
fn waker() -> Waker {
    Arc::new(Noop).into()
}
type Task = Pin<Box<dyn Future<Output = ()>>>;

fn poll(t: &mut Option<Task>) {
    if let Some(f) = t {
        let w = waker();
        let mut cx = Context::from_waker(&w);
        if f.as_mut().poll(&mut cx).is_ready() {
            *t = None;
        }
    }
}

fn send(t: &mut Unbounded, m: impl Into<Message>) -> bool {
    let w = waker();
    let mut cx = Context::from_waker(&w);
    if !matches!(Pin::new(&mut *t).send_poll_ready(&mut cx), Poll::Ready(Ok(()))) {
        return false;
    }
    if Pin::new(&mut *t).send_start(m.into()).is_err() {
        return false;
    }
    let _ = Pin::new(&mut *t).send_poll_flush(&mut cx);
    true
}

fn recv(t: &mut Unbounded) -> Option<Result<Message, ()>> {
    let w = waker();
    let mut cx = Context::from_waker(&w);
    match Pin::new(&mut *t).receive_poll(&mut cx) {
        Poll::Ready(Ok(m)) => Some(Ok(m)),
        Poll::Ready(Err(_)) => Some(Err(())),
        Poll::Pending => None,
    }
}

struct World {
    btask: Option<Task>,
    handle: BrokerHandle,
    clients: Vec<Option<Unbounded>>,
    tasks: Vec<Option<Task>>,
    chandles: Vec<Rc<RefCell<Option<ConnectionHandle>>>>,
}

impl World {
    fn new() -> Self {
        let b = Broker::new();
        let h = b.handle().clone();
        World { btask: Some(Box::pin(b.run())), handle: h, clients: vec![], tasks: vec![], chandles: vec![] }
    }
    fn settle(&mut self) {
        for _ in 0..10 {
            for t in self.tasks.iter_mut() {
                poll(t);
            }
            poll(&mut self.btask);
        }
    }
    fn connect(&mut self, minor: u32) -> usize {
        let (mut c, b) = channel::unbounded();
        send(
            &mut c,
            Connect2 { major_version: 1, minor_version: minor, value: SerializedValue::serialize(ConnectData::new()).unwrap() },
        );
        let mut h = self.handle.clone();
        let slot: Rc<RefCell<Option<ConnectionHandle>>> = Rc::new(RefCell::new(None));
        let slot2 = slot.clone();
        let t: Task = Box::pin(async move {
            if let Ok(conn) = h.connect(b).await {
                *slot2.borrow_mut() = Some(conn.handle().clone());
                let _ = conn.run().await;
            }
        });
        self.clients.push(Some(c));
        self.tasks.push(Some(t));
        self.chandles.push(slot);
        self.settle();
        let i = self.clients.len() - 1;
        let r = recv(self.clients[i].as_mut().unwrap());
        assert!(matches!(r, Some(Ok(Message::ConnectReply2(_)))), "{r:?}");
        i
    }
    fn drain(&mut self, i: usize) -> (Vec<Message>, bool) {
        let mut out = vec![];
        let mut closed = false;
        if let Some(c) = self.clients[i].as_mut() {
            loop {
                match recv(c) {
                    Some(Ok(m)) => out.push(m),
                    Some(Err(())) => {
                        closed = true;
                        break;
                    }
                    None => break,
                }
            }
        }
        if closed {
            self.clients[i] = None;
        }
        (out, closed)
    }
    /// run a BrokerHandle future to completion while polling the broker
    fn with_handle<T: 'static>(&mut self, f: impl FnOnce(BrokerHandle) -> Pin<Box<dyn Future<Output = T>>>) -> Option<T> {
        let mut fut = f(self.handle.clone());
        let wk = waker();
        let mut cx = Context::from_waker(&wk);
        for _ in 0..200 {
            if let Poll::Ready(x) = fut.as_mut().poll(&mut cx) {
                return Some(x);
            }
            poll(&mut self.btask);
        }
        None
    }
    fn stats(&mut self) -> Option<[usize; 5]> {
        if self.btask.is_none() {
            return None;
        }
        self.with_handle(|mut h| Box::pin(async move { h.take_statistics().await.ok() }))
            .flatten()
            .map(|st| [st.num_connections(), st.num_objects(), st.num_services(), st.num_channels(), st.num_bus_listeners()])
    }
}

struct Pools {
    obj_uuids: Vec<Uuid>,
    svc_uuids: Vec<Uuid>,
    obj_cookies: Vec<Uuid>,
    svc_cookies: Vec<Uuid>,
    chan_cookies: Vec<Uuid>,
    lis_cookies: Vec<Uuid>,
    bserials: Vec<u32>,
}
fn u(n: u128) -> Uuid {
    Uuid::from_u128(n)
}

/// op mixes: the same generator with different weights per property family
#[derive(Clone, Copy, PartialEq)]
enum Mix {
    All,
    Calls,
    Registry,
    Events,
    Channels,
    Listeners,
    Abuse,
}

fn pick_kind(r: &mut Rng, mix: Mix) -> u64 {
    // kinds are the match arms of gen_msg (0..=43)
    let focus: &[u64] = match mix {
        Mix::All | Mix::Abuse => &[],
        Mix::Calls => &[0, 4, 6, 8, 9, 10, 11, 12, 13, 14, 15, 16, 17, 3],
        Mix::Registry => &[0, 1, 2, 3, 4, 5, 6, 7, 8, 23, 24, 25, 9],
        Mix::Events => &[0, 4, 6, 18, 19, 20, 21, 22, 25, 26, 27, 28, 29, 8, 3],
        Mix::Channels => &[30, 31, 32, 33, 34, 35, 36, 37, 35, 36, 32],
        Mix::Listeners => &[0, 1, 3, 4, 6, 8, 38, 39, 39, 40, 41, 41, 42],
    };
    if !focus.is_empty() && r.chance(4, 5) {
        *r.pick(focus)
    } else {
        r.below(44)
    }
}

/// A short-lived focus: for a dozen steps most operations concern the same service / channel /
/// listener and the same two or three connections, so that state-dependent sequences (subscribe,
/// unsubscribe, emit; call, abort, reply; claim, send, grant, close; filters, start, stop) actually
/// happen on ONE entity instead of being spread thinly over the pools.
#[derive(Clone, Default)]
struct Focus {
    conns: Vec<usize>,
    svc: Option<Uuid>,
    chan: Option<Uuid>,
    lis: Option<Uuid>,
    ttl: u32,
}

/// minimal negotiated minor version a connection needs to send this kind (else the broker closes it)
fn gated_min(m: &Message) -> u32 {
    match m {
        Message::CallFunction2(_) => 19,
        Message::AbortFunctionCall(_) => 16,
        Message::RegisterIntrospection(_) | Message::QueryIntrospection(_) | Message::CreateService2(_) | Message::QueryServiceInfo(_) => 17,
        Message::SubscribeService(_) | Message::UnsubscribeService(_) | Message::SubscribeAllEvents(_) | Message::UnsubscribeAllEvents(_) => 18,
        _ => 14,
    }
}

/// state-aware wrapper: most of the time a connection does not send what would get it closed for
/// its version (10% of such messages are kept: they test the gates)
fn gen_msg(r: &mut Rng, p: &Pools, m: &Model, c: usize, mix: Mix, focus: &Focus) -> Message {
    let ver = m.conns.get(&c).map(|x| x.ver).unwrap_or(20);
    for _ in 0..6 {
        let msg = gen_msg_raw(r, p, m, c, mix, focus);
        if gated_min(&msg) <= ver || r.chance(1, 10) {
            return msg;
        }
    }
    gen_msg_raw(r, p, m, c, mix, focus)
}

fn gen_msg_raw(r: &mut Rng, p: &Pools, m: &Model, c: usize, mix: Mix, focus: &Focus) -> Message {
    let serial = r.below(3) as u32;
    let live_o: Vec<Uuid> = m.objs.values().map(|o| o.cookie).collect();
    let own_o: Vec<Uuid> = m.objs.values().filter(|o| o.owner == c).map(|o| o.cookie).collect();
    let live_s: Vec<Uuid> = m.svcs.values().map(|s| s.cookie).collect();
    let own_s: Vec<Uuid> = m
        .svcs
        .iter()
        .filter(|(k, _)| m.objs.get(&k.0).map(|o| o.owner == c).unwrap_or(false))
        .map(|(_, s)| s.cookie)
        .collect();
    let live_c: Vec<Uuid> = m.chans.keys().cloned().collect();
    let live_l: Vec<Uuid> = m.lis.keys().cloned().collect();
    let own_l: Vec<Uuid> = m.lis.iter().filter(|(_, l)| l.owner == c).map(|(k, _)| *k).collect();
    let abuse = mix == Mix::Abuse;
    let choose = |r: &mut Rng, own: &Vec<Uuid>, live: &Vec<Uuid>, hist: &Vec<Uuid>, bogus: u128| -> Uuid {
        let k = if abuse { 6 + r.below(14) } else { r.below(20) };
        if k < 9 && !own.is_empty() {
            *r.pick(own)
        } else if k < 16 && !live.is_empty() {
            *r.pick(live)
        } else if k < 19 && !hist.is_empty() {
            *r.pick(hist)
        } else {
            u(r.below(5) as u128 + bogus)
        }
    };
    let oc = |r: &mut Rng| ObjectCookie(choose(r, &own_o, &live_o, &p.obj_cookies, 900));
    let sc = |r: &mut Rng| match focus.svc {
        Some(k) if r.chance(3, 4) => ServiceCookie(k),
        _ => ServiceCookie(choose(r, &own_s, &live_s, &p.svc_cookies, 800)),
    };
    let cc = |r: &mut Rng| match focus.chan {
        Some(k) if r.chance(3, 4) => ChannelCookie(k),
        _ => ChannelCookie(choose(r, &live_c, &live_c, &p.chan_cookies, 700)),
    };
    let lc = |r: &mut Rng| match focus.lis {
        Some(k) if r.chance(3, 4) => BusListenerCookie(k),
        _ => BusListenerCookie(choose(r, &own_l, &live_l, &p.lis_cookies, 600)),
    };
    let my_bserials: Vec<u32> = m
        .calls
        .iter()
        .filter(|(_, call)| m.objs.get(&call.svc.0).map(|o| o.owner == c).unwrap_or(false))
        .map(|(b, _)| *b)
        .collect();
    let val = |r: &mut Rng| SerializedValue::serialize(r.below(200) as u8).unwrap();
    let ev = |r: &mut Rng| r.below(3) as u32;
    let cap = |r: &mut Rng| [0u32, 1, 3, 4, 5, 6, 20, u32::MAX - 1, u32::MAX][r.below(9) as usize];
    let end = |r: &mut Rng| if r.below(2) == 0 { ChannelEnd::Sender } else { ChannelEnd::Receiver };
    let endc = |r: &mut Rng| if r.below(2) == 0 { ChannelEndWithCapacity::Sender } else { ChannelEndWithCapacity::Receiver(cap(r)) };
    let filt = |r: &mut Rng| {
        let o = ObjectUuid(*r.pick(&p.obj_uuids));
        let s = ServiceUuid(*r.pick(&p.svc_uuids));
        match r.below(6) {
            0 => BusListenerFilter::any_object(),
            1 => BusListenerFilter::object(o),
            2 => BusListenerFilter::any_object_any_service(),
            3 => BusListenerFilter::specific_object_any_service(o),
            4 => BusListenerFilter::any_object_specific_service(s),
            _ => BusListenerFilter::specific_object_and_service(o, s),
        }
    };
    let scope = |r: &mut Rng| [BusListenerScope::Current, BusListenerScope::New, BusListenerScope::All][r.below(3) as usize];
    match pick_kind(r, mix) {
        0 | 1 | 2 => CreateObject { serial, uuid: ObjectUuid(*r.pick(&p.obj_uuids)) }.into(),
        3 => DestroyObject { serial, cookie: oc(r) }.into(),
        4 | 5 => CreateService { serial, object_cookie: oc(r), uuid: ServiceUuid(*r.pick(&p.svc_uuids)), version: r.below(3) as u32 }.into(),
        6 | 7 => {
            let mut info = ServiceInfo::new(r.below(3) as u32);
            if r.below(3) != 0 {
                info = info.set_subscribe_all(r.below(4) != 0);
            }
            let value = if r.below(10) == 0 { val(r) } else { SerializedValue::serialize(info).unwrap() };
            CreateService2 { serial, object_cookie: oc(r), uuid: ServiceUuid(*r.pick(&p.svc_uuids)), value }.into()
        }
        8 => DestroyService { serial, cookie: sc(r) }.into(),
        9 | 10 | 11 => CallFunction { serial, service_cookie: sc(r), function: 1, value: val(r) }.into(),
        12 | 13 => CallFunction2 {
            serial,
            service_cookie: sc(r),
            function: 2,
            version: if r.below(2) == 0 { None } else { Some(1) },
            value: val(r),
        }
        .into(),
        14 | 15 | 16 => {
            let s = if !my_bserials.is_empty() && r.below(4) != 0 {
                *r.pick(&my_bserials)
            } else if p.bserials.is_empty() || r.below(6) == 0 {
                r.below(8) as u32
            } else {
                *r.pick(&p.bserials)
            };
            let result = match r.below(4) {
                0 => CallFunctionResult::Ok(val(r)),
                1 => CallFunctionResult::Err(val(r)),
                2 => CallFunctionResult::Aborted,
                _ => CallFunctionResult::InvalidFunction,
            };
            CallFunctionReply { serial: s, result }.into()
        }
        17 => AbortFunctionCall { serial }.into(),
        18 | 19 => SubscribeEvent { serial: if r.below(40) == 0 { None } else { Some(serial) }, service_cookie: sc(r), event: ev(r) }.into(),
        20 => UnsubscribeEvent { service_cookie: sc(r), event: ev(r) }.into(),
        21 | 22 => EmitEvent { service_cookie: sc(r), event: ev(r), value: val(r) }.into(),
        23 => QueryServiceVersion { serial, cookie: sc(r) }.into(),
        24 => QueryServiceInfo { serial, cookie: sc(r) }.into(),
        25 => SubscribeService { serial, service_cookie: sc(r) }.into(),
        26 => UnsubscribeService { service_cookie: sc(r) }.into(),
        27 | 28 => SubscribeAllEvents { serial: if r.below(40) == 0 { None } else { Some(serial) }, service_cookie: sc(r) }.into(),
        29 => UnsubscribeAllEvents { serial: if r.below(3) == 0 { None } else { Some(serial) }, service_cookie: sc(r) }.into(),
        30 | 31 => CreateChannel { serial, end: endc(r) }.into(),
        32 | 33 => ClaimChannelEnd { serial, cookie: cc(r), end: endc(r) }.into(),
        34 => CloseChannelEnd { serial, cookie: cc(r), end: end(r) }.into(),
        35 | 36 => SendItem { cookie: cc(r), value: val(r) }.into(),
        37 => AddChannelCapacity { cookie: cc(r), capacity: cap(r) }.into(),
        38 => CreateBusListener { serial }.into(),
        39 => AddBusListenerFilter { cookie: lc(r), filter: filt(r) }.into(),
        40 => match r.below(3) {
            0 => RemoveBusListenerFilter { cookie: lc(r), filter: filt(r) }.into(),
            1 => ClearBusListenerFilters { cookie: lc(r) }.into(),
            _ => DestroyBusListener { serial, cookie: lc(r) }.into(),
        },
        41 => StartBusListener { serial, cookie: lc(r), scope: scope(r) }.into(),
        42 => StopBusListener { serial, cookie: lc(r) }.into(),
        _ => match r.below(8) {
            0 => Sync { serial }.into(),
            1 => SyncReply { serial }.into(),
            2 => ServiceDestroyed { service_cookie: sc(r) }.into(),
            3 => QueryIntrospection { serial, type_id: TypeId(u(1)) }.into(),
            4 => RegisterIntrospection { value: val(r) }.into(),
            5 => ChannelEndClosed { cookie: cc(r), end: end(r) }.into(),
            6 => CreateObjectReply { serial, result: CreateObjectResult::DuplicateObject }.into(),
            _ => ItemReceived { cookie: cc(r), value: val(r) }.into(),
        },
    }
}

struct Hist {
    /// the operation being injected (written to the trace if the implementation panics in it)
    pending: String,
    out: String,
    kinds: BTreeMap<String, u64>,
    steps: u64,
}

fn kind_of(text: &str) -> &str {
    text.split(' ').next().unwrap_or("")
}

/// everything one history runs on: the real broker world, the generator's tracker, the uuid <-> id
/// table of the trace and the pools of values seen so far
struct Sys {
    w: World,
    m: Model,
    ids: Ids,
    p: Pools,
    tracker_ok: bool,
    /// re-executing a stored history (`broker replay`): operations that cannot be executed are
    /// harness errors, fresh cookies are bound to the recorded ids
    replay: bool,
}

impl Sys {
    fn new(replay: bool) -> Self {
        let p = Pools {
            obj_uuids: vec![u(1), u(2), u(3)],
            svc_uuids: vec![u(11), u(12), u(13)],
            obj_cookies: vec![],
            svc_cookies: vec![],
            chan_cookies: vec![],
            lis_cookies: vec![],
            bserials: vec![],
        };
        let ids = pool_ids(&p);
        Sys { w: World::new(), m: Model::default(), ids, p, tracker_ok: true, replay }
    }
    fn drain_all(&mut self) -> (Vec<Vec<Message>>, Vec<usize>) {
        let mut outs = vec![];
        let mut closed = vec![];
        for j in 0..self.w.clients.len() {
            let (o, cl) = self.w.drain(j);
            if cl {
                closed.push(j);
            }
            outs.push(o);
        }
        (outs, closed)
    }
    fn alive(&self, c: usize) -> bool {
        c < self.w.clients.len() && self.w.clients[c].is_some()
    }
}

/// the uuids of the pools have the first ids of every history
fn pool_ids(p: &Pools) -> Ids {
    let mut ids = Ids::default();
    for x in p.obj_uuids.iter().chain(p.svc_uuids.iter()) {
        ids.id(*x);
    }
    ids
}

/// one injected operation = one step of the broker (the queued-then-dropped request is two)
enum Op {
    /// connect with this minor version
    New(u32),
    /// disconnect: the client drops its transport, or (clean) sends Shutdown first
    Shut { c: usize, clean: bool },
    /// the connection task is dropped, the broker is not told
    Drop(usize),
    /// the request is forwarded into the broker queue, then the connection task is dropped
    DropQueued(usize, Message),
    /// forced through the broker handle
    ShutC(usize),
    ShutB,
    ShutI,
    Msg(usize, Message),
}

/// emit one step: event line, outputs, closed set, stats, broker exited?
fn emit(h: &mut Hist, s: &mut Sys, ev: String, real_out: &[Vec<Message>], closed: &[usize]) {
    writeln!(h.out, "EV {}", ev).unwrap();
    for (j, o) in real_out.iter().enumerate() {
        for x in o {
            let t = fmt_msg(x, &mut s.ids);
            *h.kinds.entry(format!("out:{}", kind_of(&t))).or_default() += 1;
            writeln!(h.out, "OUT {} {}", j, t).unwrap();
        }
    }
    for c in closed {
        writeln!(h.out, "CLOSED {}", c).unwrap();
    }
    match s.w.stats() {
        Some(st) => writeln!(h.out, "STATS {} {} {} {} {}", st[0], st[1], st[2], st[3], st[4]).unwrap(),
        None => writeln!(h.out, "STATS -").unwrap(),
    }
    writeln!(h.out, "EXIT {}", if s.w.btask.is_none() { 1 } else { 0 }).unwrap();
    writeln!(h.out, "END").unwrap();
    h.steps += 1;
}

/// the id printed in the fresh-id field of a `MSG` event.  Generator (`want` = None): the next id
/// in order of first appearance, or 900000+step when the implementation created no cookie.
/// Replay (`want` = the recorded field): a created cookie is bound to the recorded id (so that
/// later events that mention the id resolve to the new cookie); if the recording has no usable id
/// for it (behaviour changed) it gets a new id, which lies above every id of the events file.
fn fresh_id(ids: &mut Ids, fresh: Option<Uuid>, want: Option<u64>, step: usize) -> u64 {
    match (fresh, want) {
        (Some(f), Some(wid)) => {
            if wid >= 1 && wid < 900_000 && ids.uuid_of(wid).is_none() && !ids.map.contains_key(&f) {
                ids.bind(f, wid);
            }
            ids.id(f)
        }
        (Some(f), None) => ids.id(f),
        (None, Some(wid)) if wid >= 900_000 => wid,
        (None, _) => 900_000 + step as u64,
    }
}

/// Execute one operation on the real broker, run to quiescence and record what every client
/// received, which connections the broker closed, the gauges and the exit flag.  Used by the
/// generator (`want_fresh` = None) and by the replayer (`want_fresh` = recorded fresh-id field).
fn exec_op(h: &mut Hist, s: &mut Sys, op: Op, step: usize, want_fresh: Option<u64>) -> Result<(), String> {
    let label = if s.replay { format!("event {}", (step + 1).saturating_sub(REPLAY_STEP0)) } else { format!("step {step}") };
    exec_op_inner(h, s, op, step, want_fresh).map_err(|e| format!("{label}: {e}"))
}

/// replayed events are numbered from here (only visible in the 900000+step placeholder of the
/// fresh-id field when a replayed step unexpectedly creates no cookie)
const REPLAY_STEP0: usize = 50_000;

fn exec_op_inner(h: &mut Hist, s: &mut Sys, op: Op, step: usize, want_fresh: Option<u64>) -> Result<(), String> {
    match op {
        Op::New(v) => {
            h.pending = format!("NEW {} {}", s.w.clients.len(), v.min(20));
            if s.replay && s.w.btask.is_none() {
                return Err(format!("NEW: the broker has exited"));
            }
            let i = s.w.connect(v);
            s.m.new_conn(i, v.min(20));
            let (o, c) = s.drain_all();
            emit(h, s, format!("NEW {} {}", i, v.min(20)), &o, &c);
        }
        Op::Shut { c, clean: false } => {
            // disconnect by dropping the client's transport
            h.pending = format!("SHUT {}", c);
            if !s.alive(c) {
                return Err(format!("SHUT {c}: not a live connection"));
            }
            s.w.clients[c] = None;
            s.w.settle();
            let (o, cl) = s.drain_all();
            let _ = catch_unwind(AssertUnwindSafe(|| s.m.conn_shutdown(c)));
            emit(h, s, format!("SHUT {}", c), &o, &cl);
        }
        Op::Shut { c, clean: true } => {
            // clean disconnect: the client sends Shutdown; the connection answers Shutdown
            h.pending = format!("SHUT {} clean", c);
            if !s.alive(c) {
                return Err(format!("SHUT {c} clean: not a live connection"));
            }
            send(s.w.clients[c].as_mut().unwrap(), Shutdown);
            s.w.settle();
            let (mut o, mut cl) = s.drain_all();
            o[c].retain(|x| !matches!(x, Message::Shutdown(_)));
            s.w.clients[c] = None;
            cl.retain(|x| *x != c);
            let _ = catch_unwind(AssertUnwindSafe(|| s.m.conn_shutdown(c)));
            emit(h, s, format!("SHUT {} clean", c), &o, &cl);
        }
        Op::Drop(c) => {
            // drop the connection task: the broker is not told
            h.pending = format!("DROP {}", c);
            if !s.alive(c) {
                return Err(format!("DROP {c}: not a live connection"));
            }
            s.w.tasks[c] = None;
            s.w.clients[c] = None;
            s.w.settle();
            let (o, cl) = s.drain_all();
            s.m.drop_task(c);
            emit(h, s, format!("DROP {}", c), &o, &cl);
        }
        Op::DropQueued(c, msg) => {
            // the request is forwarded into the broker queue, then the task is dropped
            let text = fmt_msg(&msg, &mut s.ids);
            *h.kinds.entry(format!("in:{}", kind_of(&text))).or_default() += 1;
            h.pending = format!("MSG {} 0 - {}", c, text);
            if !s.alive(c) {
                return Err(format!("DROP {c} + MSG {c}: not a live connection"));
            }
            send(s.w.clients[c].as_mut().unwrap(), msg.clone());
            for _ in 0..4 {
                poll(&mut s.w.tasks[c]);
            }
            s.w.tasks[c] = None;
            s.w.clients[c] = None;
            // the drop happens before the broker dequeues the request
            s.m.drop_task(c);
            // (no gauge query here: polling the broker would let it dequeue the request)
            writeln!(h.out, "EV DROP {}\nSTATS -\nEXIT 0\nEND", c).unwrap();
            h.steps += 1;
            s.w.settle();
            let (o, cl) = s.drain_all();
            let bser = o.iter().flatten().find_map(|x| match x {
                Message::CallFunction(cf) => Some(cf.serial),
                Message::CallFunction2(cf) => Some(cf.serial),
                _ => None,
            });
            if s.tracker_ok && catch_unwind(AssertUnwindSafe(|| s.m.message(c, msg, None))).is_err() {
                s.tracker_ok = false;
            }
            let bs = bser.map(|b| b.to_string()).unwrap_or_else(|| "-".into());
            let fid = fresh_id(&mut s.ids, None, want_fresh, step);
            emit(h, s, format!("MSG {} {} {} {}", c, fid, bs, text), &o, &cl);
        }
        Op::ShutC(c) => {
            // forced by the broker handle
            h.pending = format!("SHUTC {}", c);
            if s.replay && c >= s.w.chandles.len() {
                return Err(format!("SHUTC {c}: not a connection"));
            }
            let hd = s.w.chandles[c].borrow().clone();
            if let Some(hd) = hd {
                let _ = s.w.with_handle(|mut bh| Box::pin(async move { bh.shutdown_connection(&hd).await.ok() }));
                s.w.settle();
                let (mut o, mut cl) = s.drain_all();
                // the client sees Shutdown and closes its side
                let got = o[c].iter().any(|x| matches!(x, Message::Shutdown(_)));
                if got {
                    s.w.clients[c] = None;
                    s.w.settle();
                    let (o2, cl2) = s.drain_all();
                    for (a, b) in o.iter_mut().zip(o2) {
                        a.extend(b);
                    }
                    cl.extend(cl2);
                }
                cl.retain(|x| *x != c);
                let _ = catch_unwind(AssertUnwindSafe(|| s.m.shutdown_conn_forced(c)));
                emit(h, s, format!("SHUTC {}", c), &o, &cl);
            } else if s.replay {
                return Err(format!("SHUTC {c}: the connection has no handle"));
            }
        }
        Op::ShutI => {
            h.pending = "SHUTI".to_string();
            s.w.with_handle(|mut bh| Box::pin(async move { bh.shutdown_idle().await }));
            s.w.settle();
            let (o, cl) = s.drain_all();
            emit(h, s, "SHUTI".to_string(), &o, &cl);
        }
        Op::ShutB => {
            h.pending = "SHUTB".to_string();
            s.w.with_handle(|mut bh| Box::pin(async move { bh.shutdown().await }));
            s.w.settle();
            let (mut o, mut cl) = s.drain_all();
            // clients that received Shutdown close their side
            for j in 0..s.w.clients.len() {
                if s.w.clients[j].is_some() && o[j].iter().any(|x| matches!(x, Message::Shutdown(_))) {
                    s.w.clients[j] = None;
                    cl.retain(|x| *x != j);
                }
            }
            s.w.settle();
            let (o2, cl2) = s.drain_all();
            for (a, b) in o.iter_mut().zip(o2) {
                a.extend(b);
            }
            cl.extend(cl2);
            emit(h, s, "SHUTB".to_string(), &o, &cl);
        }
        Op::Msg(c, msg) => {
            // one ordinary step: connection `c` sends `msg`, the system runs to quiescence, everything
            // every client received is recorded together with the fresh cookie / broker serial the
            // implementation chose
            let text = fmt_msg(&msg, &mut s.ids);
            *h.kinds.entry(format!("in:{}", kind_of(&text))).or_default() += 1;
            h.pending = format!("MSG {} 0 - {}", c, text);
            if !s.alive(c) {
                return Err(format!("MSG {c}: not a live connection"));
            }
            if !send(s.w.clients[c].as_mut().unwrap(), msg.clone()) {
                return Err(format!("could not send on live client {c}"));
            }
            s.w.settle();
            let (o, cl) = s.drain_all();
            let mut fresh = None;
            for x in &o[c] {
                match x {
                    Message::CreateObjectReply(CreateObjectReply { result: CreateObjectResult::Ok(k), .. }) => {
                        fresh = Some(k.0);
                        s.p.obj_cookies.push(k.0);
                    }
                    Message::CreateServiceReply(CreateServiceReply { result: CreateServiceResult::Ok(k), .. }) => {
                        fresh = Some(k.0);
                        s.p.svc_cookies.push(k.0);
                    }
                    Message::CreateChannelReply(CreateChannelReply { cookie, .. }) => {
                        fresh = Some(cookie.0);
                        s.p.chan_cookies.push(cookie.0);
                    }
                    Message::CreateBusListenerReply(CreateBusListenerReply { cookie, .. }) => {
                        fresh = Some(cookie.0);
                        s.p.lis_cookies.push(cookie.0);
                    }
                    _ => {}
                }
            }
            let mut bser = None;
            for x in o.iter().flatten() {
                match x {
                    Message::CallFunction(cf) => {
                        s.p.bserials.push(cf.serial);
                        bser = Some(cf.serial);
                    }
                    Message::CallFunction2(cf) => {
                        s.p.bserials.push(cf.serial);
                        bser = Some(cf.serial);
                    }
                    _ => {}
                }
            }
            if s.tracker_ok && catch_unwind(AssertUnwindSafe(|| s.m.message(c, msg, fresh))).is_err() {
                s.tracker_ok = false;
            }
            // C03 "a cookie never used before", on the implementation alone: a cookie handed out now must
            // not have occurred anywhere in this history
            if let Some(f) = fresh {
                if let Some(old) = s.ids.map.get(&f) {
                    writeln!(h.out, "MONITOR C03+C05+C10 implementation-handed-out-a-cookie-that-occurred-before(id-{})", old).unwrap();
                }
            }
            // (replay: the cookie is bound to its recorded id before any output is formatted)
            let fid = fresh_id(&mut s.ids, fresh, want_fresh, step);
            let bs = bser.map(|b| b.to_string()).unwrap_or_else(|| "-".into());
            emit(h, s, format!("MSG {} {} {} {}", c, fid, bs, text), &o, &cl);
        }
    }
    Ok(())
}

fn run_history(seed: u64, len: usize, mix: Mix, h: &mut Hist) -> Result<(), String> {
    let mut r = Rng::new(seed);
    let mut s = Sys::new(false);
    writeln!(h.out, "HIST {}", seed).unwrap();

    let nconn = 2 + r.below(3) as usize;
    for _ in 0..nconn {
        let v = [14u32, 15, 16, 17, 18, 19, 20, 20, 20][r.below(9) as usize];
        exec_op(h, &mut s, Op::New(v), 0, None)?;
    }
    // bootstrap: a few objects and services (with subscribe-all support), a channel and a listener
    // exist from the start, so that the focused phases have something to work on
    let mut boot = 100_000usize;
    if mix != Mix::Abuse || r.chance(1, 2) {
        let nboot = r.range(1, 2) as usize;
        for i in 0..nboot.min(s.w.clients.len()) {
            let ou = s.p.obj_uuids[i % 3];
            boot += 1;
            exec_op(h, &mut s, Op::Msg(i, CreateObject { serial: 0, uuid: ObjectUuid(ou) }.into()), boot, None)?;
            if let Some(oc) = s.p.obj_cookies.last().cloned() {
                for j in 0..r.range(1, 2) as usize {
                    let ver = s.m.conns.get(&i).map(|x| x.ver).unwrap_or(14);
                    let su = ServiceUuid(s.p.svc_uuids[(i + j) % 3]);
                    boot += 1;
                    let msg: Message = if ver >= 17 {
                        let info = ServiceInfo::new(1).set_subscribe_all(true);
                        CreateService2 { serial: 1, object_cookie: ObjectCookie(oc), uuid: su, value: SerializedValue::serialize(info).unwrap() }.into()
                    } else {
                        CreateService { serial: 1, object_cookie: ObjectCookie(oc), uuid: su, version: 1 }.into()
                    };
                    exec_op(h, &mut s, Op::Msg(i, msg), boot, None)?;
                }
            }
        }
        if matches!(mix, Mix::Channels | Mix::All) {
            boot += 1;
            let e = if r.chance(1, 2) { ChannelEndWithCapacity::Sender } else { ChannelEndWithCapacity::Receiver([1u32, 4, 5, 6, 20][r.below(5) as usize]) };
            exec_op(h, &mut s, Op::Msg(0, CreateChannel { serial: 2, end: e }.into()), boot, None)?;
        }
        if matches!(mix, Mix::Listeners | Mix::All) {
            boot += 1;
            let lc = 1.min(s.w.clients.len() - 1);
            exec_op(h, &mut s, Op::Msg(lc, CreateBusListener { serial: 3 }.into()), boot, None)?;
        }
    }
    let mut focus = Focus::default();
    let mut step = 0usize;
    let mut shutdown_idle_sent = false;
    while step < len {
        step += 1;
        let alive: Vec<usize> = (0..s.w.clients.len()).filter(|i| s.w.clients[*i].is_some()).collect();
        if alive.is_empty() || s.w.btask.is_none() {
            break;
        }
        // (re)focus every dozen steps on one live service / channel / listener and a few connections
        if focus.ttl == 0 {
            focus = Focus::default();
            focus.ttl = r.range(6, 16) as u32;
            if r.chance(4, 5) {
                let k = r.range(2, 3) as usize;
                for _ in 0..k {
                    focus.conns.push(*r.pick(&alive));
                }
                let m = &s.m;
                let svcs: Vec<Uuid> = m.svcs.values().map(|s| s.cookie).collect();
                let chans: Vec<Uuid> = m.chans.keys().cloned().collect();
                let liss: Vec<Uuid> = m.lis.keys().cloned().collect();
                if !svcs.is_empty() {
                    let k = *r.pick(&svcs);
                    focus.svc = Some(k);
                    // the owner takes part
                    if let Some((key, _)) = m.svcs.iter().find(|(_, s)| s.cookie == k) {
                        if let Some(o) = m.objs.get(&key.0) {
                            focus.conns.push(o.owner);
                        }
                    }
                }
                if !chans.is_empty() {
                    focus.chan = Some(*r.pick(&chans));
                }
                if !liss.is_empty() {
                    let k = *r.pick(&liss);
                    focus.lis = Some(k);
                    if let Some(l) = m.lis.get(&k) {
                        focus.conns.push(l.owner);
                    }
                }
            }
        }
        focus.ttl -= 1;
        let fc: Vec<usize> = focus.conns.iter().cloned().filter(|x| alive.contains(x)).collect();
        let c = if !fc.is_empty() && r.chance(3, 4) { *r.pick(&fc) } else { *r.pick(&alive) };
        let roll = r.below(400);
        if roll < 2 {
            exec_op(h, &mut s, Op::Shut { c, clean: false }, step, None)?;
        } else if roll < 4 {
            exec_op(h, &mut s, Op::Shut { c, clean: true }, step, None)?;
        } else if roll < 6 {
            exec_op(h, &mut s, Op::Drop(c), step, None)?;
        } else if roll < 10 {
            let msg = gen_msg(&mut r, &s.p, &s.m, c, mix, &focus);
            exec_op(h, &mut s, Op::DropQueued(c, msg), step, None)?;
        } else if roll < 13 {
            // forced shutdown through the broker handle; one time in three of a connection whose task
            // was dropped earlier and which the broker has not noticed yet (it still has to clean up)
            let zombies: Vec<usize> = s.m.conns.iter().filter(|(_, x)| !x.alive).map(|(k, _)| *k).collect();
            let t = if !zombies.is_empty() && r.chance(1, 3) { *r.pick(&zombies) } else { c };
            exec_op(h, &mut s, Op::ShutC(t), step, None)?;
        } else if roll < 25 && alive.len() < 5 {
            let v = [14u32, 16, 17, 18, 19, 20][r.below(6) as usize];
            exec_op(h, &mut s, Op::New(v), step, None)?;
        } else {
            let msg = gen_msg(&mut r, &s.p, &s.m, c, mix, &focus);
            // an emitted event is only forwarded when it comes from the owner: mostly send it from there
            let mut c = c;
            if let Message::EmitEvent(e) = &msg {
                let m = &s.m;
                let owner = m.svcs.iter().find(|(_, s)| s.cookie == e.service_cookie.0).and_then(|(k, _)| m.objs.get(&k.0)).map(|o| o.owner);
                if let Some(ow) = owner {
                    if alive.contains(&ow) && r.chance(4, 5) {
                        c = ow;
                    }
                }
            }
            exec_op(h, &mut s, Op::Msg(c, msg), step, None)?;
        }
        if !s.tracker_ok {
            // the tracker lost sync (it is only a generator aid): stop this history
            break;
        }
        if !shutdown_idle_sent && r.chance(1, 300) {
            shutdown_idle_sent = true;
            exec_op(h, &mut s, Op::ShutI, step, None)?;
        }
    }
    // wind down: either a broker shutdown, or every client leaves and the broker is asked to stop
    // when idle; the run future must finish (its debug_asserts check that nothing is left)
    if s.w.btask.is_some() {
        if r.chance(1, 3) {
            exec_op(h, &mut s, Op::ShutB, step, None)?;
        } else {
            for c in 0..s.w.clients.len() {
                if s.w.clients[c].is_some() {
                    exec_op(h, &mut s, Op::Shut { c, clean: false }, step, None)?;
                }
            }
            if !shutdown_idle_sent {
                exec_op(h, &mut s, Op::ShutI, step, None)?;
            }
        }
    }
    Ok(())
}

/// event text (what follows `EV ` in a trace) -> operation and the recorded fresh-id field
fn parse_op(text: &str, ids: &mut Ids) -> Result<(Op, Option<u64>), String> {
    let toks: Vec<&str> = text.split(' ').filter(|x| !x.is_empty()).collect();
    let num = |x: &str| x.parse::<usize>().map_err(|_| format!("not a number {:?} in event {:?}", x, text));
    match toks.as_slice() {
        ["NEW", _i, v] => Ok((Op::New(num(v)? as u32), None)),
        ["SHUT", c] => Ok((Op::Shut { c: num(c)?, clean: false }, None)),
        ["SHUT", c, "clean"] => Ok((Op::Shut { c: num(c)?, clean: true }, None)),
        ["SHUTC", c] => Ok((Op::ShutC(num(c)?), None)),
        ["DROP", c] => Ok((Op::Drop(num(c)?), None)),
        ["SHUTB"] => Ok((Op::ShutB, None)),
        ["SHUTI"] => Ok((Op::ShutI, None)),
        ["MSG", c, f, _bserial, _kind, ..] => {
            let mut it = text.trim_start().splitn(5, ' ');
            let rest = it.nth(4).ok_or_else(|| format!("event {:?}", text))?;
            let fid = f.parse::<u64>().map_err(|_| format!("fresh id {:?} in event {:?}", f, text))?;
            Ok((Op::Msg(num(c)?, parse_msg(rest, ids)?), Some(fid)))
        }
        _ => Err(format!("event {:?} not understood", text)),
    }
}

/// re-execute the events of a stored history, in order, on a fresh world
fn replay_history(events: &[String], h: &mut Hist) -> Result<(), String> {
    let mut s = Sys::new(true);
    // new ids (uuids the recording did not see at that point: behaviour changed) go above every id
    // occurring in the file, so that they cannot collide with an id a later event mentions
    let mut scratch = pool_ids(&s.p);
    for e in events {
        if let Ok((_, Some(f))) = parse_op(e, &mut scratch) {
            if f < 900_000 && scratch.next < f {
                scratch.next = f;
            }
        }
    }
    s.ids.next = s.ids.next.max(scratch.next);
    writeln!(h.out, "HIST replay").unwrap();
    let mut i = 0;
    while i < events.len() {
        let step = REPLAY_STEP0 + i;
        h.pending = events[i].clone();
        let (mut op, mut want) = parse_op(&events[i], &mut s.ids).map_err(|e| format!("event {}: {}", i + 1, e))?;
        i += 1;
        if let Op::New(_) = op {
            let idx: usize = events[i - 1].split(' ').nth(1).and_then(|x| x.parse().ok()).unwrap_or(usize::MAX);
            if idx != s.w.clients.len() {
                return Err(format!("event {}: {:?}: the next connection has index {}", i, events[i - 1], s.w.clients.len()));
            }
        }
        // `DROP c` immediately followed by `MSG c ...`: the request was queued, then the task dropped
        if let Op::Drop(c) = op {
            if i < events.len() && events[i].starts_with(&format!("MSG {} ", c)) {
                if let (Op::Msg(_, msg), w2) = parse_op(&events[i], &mut s.ids).map_err(|e| format!("event {}: {}", i + 1, e))? {
                    op = Op::DropQueued(c, msg);
                    want = w2;
                    i += 1;
                }
            }
        }
        exec_op(h, &mut s, op, step, want.or(Some(0)))?;
    }
    Ok(())
}

/// write one history's trace, with what ended it early (harness error / implementation panic)
fn finish_history(f: &mut impl Write, h: &Hist, res: std::thread::Result<Result<(), String>>) -> bool {
    f.write_all(h.out.as_bytes()).unwrap();
    let mut panicked = false;
    match res {
        Ok(Ok(())) => {}
        Ok(Err(e)) => writeln!(f, "HARNESS-ERROR {}", e).unwrap(),
        Err(p) => {
            panicked = true;
            writeln!(f, "EVP {}", h.pending).unwrap();
            let msg = p.downcast_ref::<String>().cloned().or_else(|| p.downcast_ref::<&str>().map(|s| s.to_string())).unwrap_or_default();
            writeln!(f, "PANIC {}", msg.replace('\n', " ")).unwrap();
        }
    }
    writeln!(f, "HISTEND").unwrap();
    panicked
}

fn write_stats(outdir: &str, seed: u64, n: u64, steps: u64, panics: u64, kinds: &BTreeMap<String, u64>) {
    let mut stats = String::new();
    write!(stats, "{{\"seed\":{},\"histories\":{},\"steps\":{},\"panics\":{},\"kinds\":{{{}}}}}", seed, n, steps, panics,
        kinds.iter().map(|(k, v)| format!("\"{}\":{}", k, v)).collect::<Vec<_>>().join(",")).unwrap();
    std::fs::write(format!("{outdir}/stats.json"), stats).unwrap();
}

fn usage() -> ! {
    eprintln!("usage: broker gen <outdir> <histories> <max-steps> [all|calls|registry|events|channels|listeners|abuse]");
    eprintln!("       broker replay <outdir> <events-file>");
    std::process::exit(2);
}

fn main() {
    quiet_panics();
    let args: Vec<String> = std::env::args().collect();
    if args.len() >= 4 && args[1] == "replay" {
        let outdir = &args[2];
        let events: Vec<String> = std::fs::read_to_string(&args[3])
            .unwrap_or_else(|e| {
                eprintln!("cannot read {}: {}", args[3], e);
                std::process::exit(2)
            })
            .lines()
            .map(|l| l.trim().strip_prefix("EV ").unwrap_or(l.trim()).to_string())
            .filter(|l| !l.is_empty())
            .collect();
        let mut f = std::io::BufWriter::new(std::fs::File::create(format!("{outdir}/trace.txt")).unwrap());
        let mut h = Hist { pending: String::new(), out: String::new(), kinds: BTreeMap::new(), steps: 0 };
        let res = catch_unwind(AssertUnwindSafe(|| replay_history(&events, &mut h)));
        let panicked = finish_history(&mut f, &h, res);
        write_stats(outdir, 0, 1, h.steps, panicked as u64, &h.kinds);
        return;
    }
    if args.len() < 5 || args[1] != "gen" {
        usage();
    }
    let outdir = &args[2];
    let n: u64 = args[3].parse().unwrap();
    let len: usize = args[4].parse().unwrap();
    let mix = match args.get(5).map(String::as_str) {
        Some("calls") => Mix::Calls,
        Some("registry") => Mix::Registry,
        Some("events") => Mix::Events,
        Some("channels") => Mix::Channels,
        Some("listeners") => Mix::Listeners,
        Some("abuse") => Mix::Abuse,
        _ => Mix::All,
    };
    let seed = env_u64("VERIF_SEED", 1);
    let mut f = std::io::BufWriter::new(std::fs::File::create(format!("{outdir}/trace.txt")).unwrap());
    let mut kinds: BTreeMap<String, u64> = BTreeMap::new();
    let mut steps = 0u64;
    let mut panics = 0u64;
    for i in 0..n {
        let hs = seed.wrapping_mul(1_000_003).wrapping_add(i);
        let mut h = Hist { pending: String::new(), out: String::new(), kinds: BTreeMap::new(), steps: 0 };
        let res = catch_unwind(AssertUnwindSafe(|| run_history(hs, len, mix, &mut h)));
        if finish_history(&mut f, &h, res) {
            panics += 1;
        }
        steps += h.steps;
        for (k, v) in h.kinds {
            *kinds.entry(k).or_default() += v;
        }
    }
    write_stats(outdir, seed, n, steps, panics, &kinds);
}
