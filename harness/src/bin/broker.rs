//! `broker gen <outdir> <histories> <max-steps> [mix]`: drive the REAL `Broker::run` +
//! `Connection::run` tasks over in-memory transports on a deterministic single-threaded executor
//! (no-op waker, poll to quiescence after every injected operation) and write a trace
//! (`trace.txt`) of every injected event with everything each client received, which connections
//! the broker closed, and the published gauges.  `extract/broker_driver` replays the events
//! through the Coq model and compares step by step.
//!
//! One injected operation = one broker step (DESIGN §4 C02).  Operations: connect (versions
//! 1.14..1.20), message from a live connection (state-aware choice of cookies/serials from a
//! tracker), disconnect by dropping the transport / by a Shutdown message / forced by the broker
//! handle / by dropping the connection task (also with its last request still queued), idle
//! shutdown, broker shutdown.
use aldrin_broker::{Broker, BrokerHandle, ConnectionHandle};
use aldrin_core::channel::{self, Unbounded};
use aldrin_core::message::*;
use aldrin_core::transport::AsyncTransport;
use aldrin_core::*;
use std::cell::RefCell;
use std::collections::BTreeMap;
use std::fmt::Write as _;
use std::future::Future;
use std::io::Write;
use std::panic::{catch_unwind, AssertUnwindSafe};
use std::pin::Pin;
use std::rc::Rc;
use std::sync::Arc;
use std::task::{Context, Poll, Wake, Waker};
use uuid::Uuid;
use verif_harness::brokertrack::Model;
use verif_harness::msgfmt::{fmt_msg, Ids};
use verif_harness::{env_u64, quiet_panics, Rng};

struct Noop;
impl Wake for Noop {
    fn wake(self: Arc<Self>) {}
}
fn waker() -> Waker {
    Arc::new(Noop).into()
}
type Task = Pin<Box<dyn Future<Output = ()>>>;

fn poll(t: &mut Option<Task>) {
    if let Some(f) = t {
        let w = waker();
        let mut cx = Context::from_waker(&w);
        if f.as_mut().poll(&mut cx).is_ready() {
            *t = None;
        }
    }
}

fn send(t: &mut Unbounded, m: impl Into<Message>) -> bool {
    let w = waker();
    let mut cx = Context::from_waker(&w);
    if !matches!(Pin::new(&mut *t).send_poll_ready(&mut cx), Poll::Ready(Ok(()))) {
        return false;
    }
    if Pin::new(&mut *t).send_start(m.into()).is_err() {
        return false;
    }
    let _ = Pin::new(&mut *t).send_poll_flush(&mut cx);
    true
}

fn recv(t: &mut Unbounded) -> Option<Result<Message, ()>> {
    let w = waker();
    let mut cx = Context::from_waker(&w);
    match Pin::new(&mut *t).receive_poll(&mut cx) {
        Poll::Ready(Ok(m)) => Some(Ok(m)),
        Poll::Ready(Err(_)) => Some(Err(())),
        Poll::Pending => None,
    }
}

struct World {
    btask: Option<Task>,
    handle: BrokerHandle,
    clients: Vec<Option<Unbounded>>,
    tasks: Vec<Option<Task>>,
    chandles: Vec<Rc<RefCell<Option<ConnectionHandle>>>>,
}

impl World {
    fn new() -> Self {
        let b = Broker::new();
        let h = b.handle().clone();
        World { btask: Some(Box::pin(b.run())), handle: h, clients: vec![], tasks: vec![], chandles: vec![] }
    }
    fn settle(&mut self) {
        for _ in 0..10 {
            for t in self.tasks.iter_mut() {
                poll(t);
            }
            poll(&mut self.btask);
        }
    }
    fn connect(&mut self, minor: u32) -> usize {
        let (mut c, b) = channel::unbounded();
        send(
            &mut c,
            Connect2 { major_version: 1, minor_version: minor, value: SerializedValue::serialize(ConnectData::new()).unwrap() },
        );
        let mut h = self.handle.clone();
        let slot: Rc<RefCell<Option<ConnectionHandle>>> = Rc::new(RefCell::new(None));
        let slot2 = slot.clone();
        let t: Task = Box::pin(async move {
            if let Ok(conn) = h.connect(b).await {
                *slot2.borrow_mut() = Some(conn.handle().clone());
                let _ = conn.run().await;
            }
        });
        self.clients.push(Some(c));
        self.tasks.push(Some(t));
        self.chandles.push(slot);
        self.settle();
        let i = self.clients.len() - 1;
        let r = recv(self.clients[i].as_mut().unwrap());
        assert!(matches!(r, Some(Ok(Message::ConnectReply2(_)))), "{r:?}");
        i
    }
    fn drain(&mut self, i: usize) -> (Vec<Message>, bool) {
        let mut out = vec![];
        let mut closed = false;
        if let Some(c) = self.clients[i].as_mut() {
            loop {
                match recv(c) {
                    Some(Ok(m)) => out.push(m),
                    Some(Err(())) => {
                        closed = true;
                        break;
                    }
                    None => break,
                }
            }
        }
        if closed {
            self.clients[i] = None;
        }
        (out, closed)
    }
    /// run a BrokerHandle future to completion while polling the broker
    fn with_handle<T: 'static>(&mut self, f: impl FnOnce(BrokerHandle) -> Pin<Box<dyn Future<Output = T>>>) -> Option<T> {
        let mut fut = f(self.handle.clone());
        let wk = waker();
        let mut cx = Context::from_waker(&wk);
        for _ in 0..200 {
            if let Poll::Ready(x) = fut.as_mut().poll(&mut cx) {
                return Some(x);
            }
            poll(&mut self.btask);
        }
        None
    }
    fn stats(&mut self) -> Option<[usize; 5]> {
        if self.btask.is_none() {
            return None;
        }
        self.with_handle(|mut h| Box::pin(async move { h.take_statistics().await.ok() }))
            .flatten()
            .map(|st| [st.num_connections(), st.num_objects(), st.num_services(), st.num_channels(), st.num_bus_listeners()])
    }
}

struct Pools {
    obj_uuids: Vec<Uuid>,
    svc_uuids: Vec<Uuid>,
    obj_cookies: Vec<Uuid>,
    svc_cookies: Vec<Uuid>,
    chan_cookies: Vec<Uuid>,
    lis_cookies: Vec<Uuid>,
    bserials: Vec<u32>,
}
fn u(n: u128) -> Uuid {
    Uuid::from_u128(n)
}

/// op mixes: the same generator with different weights per property family
#[derive(Clone, Copy, PartialEq)]
enum Mix {
    All,
    Calls,
    Registry,
    Events,
    Channels,
    Listeners,
    Abuse,
}

fn pick_kind(r: &mut Rng, mix: Mix) -> u64 {
    // kinds are the match arms of gen_msg (0..=43)
    let focus: &[u64] = match mix {
        Mix::All | Mix::Abuse => &[],
        Mix::Calls => &[0, 4, 6, 8, 9, 10, 11, 12, 13, 14, 15, 16, 17, 3],
        Mix::Registry => &[0, 1, 2, 3, 4, 5, 6, 7, 8, 23, 24, 25, 9],
        Mix::Events => &[0, 4, 6, 18, 19, 20, 21, 22, 25, 26, 27, 28, 29, 8, 3],
        Mix::Channels => &[30, 31, 32, 33, 34, 35, 36, 37, 35, 36, 32],
        Mix::Listeners => &[0, 1, 3, 4, 6, 8, 38, 39, 39, 40, 41, 41, 42],
    };
    if !focus.is_empty() && r.chance(4, 5) {
        *r.pick(focus)
    } else {
        r.below(44)
    }
}

/// A short-lived focus: for a dozen steps most operations concern the same service / channel /
/// listener and the same two or three connections, so that state-dependent sequences (subscribe,
/// unsubscribe, emit; call, abort, reply; claim, send, grant, close; filters, start, stop) actually
/// happen on ONE entity instead of being spread thinly over the pools.
#[derive(Clone, Default)]
struct Focus {
    conns: Vec<usize>,
    svc: Option<Uuid>,
    chan: Option<Uuid>,
    lis: Option<Uuid>,
    ttl: u32,
}

/// minimal negotiated minor version a connection needs to send this kind (else the broker closes it)
fn gated_min(m: &Message) -> u32 {
    match m {
        Message::CallFunction2(_) => 19,
        Message::AbortFunctionCall(_) => 16,
        Message::RegisterIntrospection(_) | Message::QueryIntrospection(_) | Message::CreateService2(_) | Message::QueryServiceInfo(_) => 17,
        Message::SubscribeService(_) | Message::UnsubscribeService(_) | Message::SubscribeAllEvents(_) | Message::UnsubscribeAllEvents(_) => 18,
        _ => 14,
    }
}

/// state-aware wrapper: most of the time a connection does not send what would get it closed for
/// its version (10% of such messages are kept: they test the gates)
fn gen_msg(r: &mut Rng, p: &Pools, m: &Model, c: usize, mix: Mix, focus: &Focus) -> Message {
    let ver = m.conns.get(&c).map(|x| x.ver).unwrap_or(20);
    for _ in 0..6 {
        let msg = gen_msg_raw(r, p, m, c, mix, focus);
        if gated_min(&msg) <= ver || r.chance(1, 10) {
            return msg;
        }
    }
    gen_msg_raw(r, p, m, c, mix, focus)
}

fn gen_msg_raw(r: &mut Rng, p: &Pools, m: &Model, c: usize, mix: Mix, focus: &Focus) -> Message {
    let serial = r.below(3) as u32;
    let live_o: Vec<Uuid> = m.objs.values().map(|o| o.cookie).collect();
    let own_o: Vec<Uuid> = m.objs.values().filter(|o| o.owner == c).map(|o| o.cookie).collect();
    let live_s: Vec<Uuid> = m.svcs.values().map(|s| s.cookie).collect();
    let own_s: Vec<Uuid> = m
        .svcs
        .iter()
        .filter(|(k, _)| m.objs.get(&k.0).map(|o| o.owner == c).unwrap_or(false))
        .map(|(_, s)| s.cookie)
        .collect();
    let live_c: Vec<Uuid> = m.chans.keys().cloned().collect();
    let live_l: Vec<Uuid> = m.lis.keys().cloned().collect();
    let own_l: Vec<Uuid> = m.lis.iter().filter(|(_, l)| l.owner == c).map(|(k, _)| *k).collect();
    let abuse = mix == Mix::Abuse;
    let choose = |r: &mut Rng, own: &Vec<Uuid>, live: &Vec<Uuid>, hist: &Vec<Uuid>, bogus: u128| -> Uuid {
        let k = if abuse { 6 + r.below(14) } else { r.below(20) };
        if k < 9 && !own.is_empty() {
            *r.pick(own)
        } else if k < 16 && !live.is_empty() {
            *r.pick(live)
        } else if k < 19 && !hist.is_empty() {
            *r.pick(hist)
        } else {
            u(r.below(5) as u128 + bogus)
        }
    };
    let oc = |r: &mut Rng| ObjectCookie(choose(r, &own_o, &live_o, &p.obj_cookies, 900));
    let sc = |r: &mut Rng| match focus.svc {
        Some(k) if r.chance(3, 4) => ServiceCookie(k),
        _ => ServiceCookie(choose(r, &own_s, &live_s, &p.svc_cookies, 800)),
    };
    let cc = |r: &mut Rng| match focus.chan {
        Some(k) if r.chance(3, 4) => ChannelCookie(k),
        _ => ChannelCookie(choose(r, &live_c, &live_c, &p.chan_cookies, 700)),
    };
    let lc = |r: &mut Rng| match focus.lis {
        Some(k) if r.chance(3, 4) => BusListenerCookie(k),
        _ => BusListenerCookie(choose(r, &own_l, &live_l, &p.lis_cookies, 600)),
    };
    let my_bserials: Vec<u32> = m
        .calls
        .iter()
        .filter(|(_, call)| m.objs.get(&call.svc.0).map(|o| o.owner == c).unwrap_or(false))
        .map(|(b, _)| *b)
        .collect();
    let val = |r: &mut Rng| SerializedValue::serialize(r.below(200) as u8).unwrap();
    let ev = |r: &mut Rng| r.below(3) as u32;
    let cap = |r: &mut Rng| [0u32, 1, 3, 4, 5, 6, 20, u32::MAX - 1, u32::MAX][r.below(9) as usize];
    let end = |r: &mut Rng| if r.below(2) == 0 { ChannelEnd::Sender } else { ChannelEnd::Receiver };
    let endc = |r: &mut Rng| if r.below(2) == 0 { ChannelEndWithCapacity::Sender } else { ChannelEndWithCapacity::Receiver(cap(r)) };
    let filt = |r: &mut Rng| {
        let o = ObjectUuid(*r.pick(&p.obj_uuids));
        let s = ServiceUuid(*r.pick(&p.svc_uuids));
        match r.below(6) {
            0 => BusListenerFilter::any_object(),
            1 => BusListenerFilter::object(o),
            2 => BusListenerFilter::any_object_any_service(),
            3 => BusListenerFilter::specific_object_any_service(o),
            4 => BusListenerFilter::any_object_specific_service(s),
            _ => BusListenerFilter::specific_object_and_service(o, s),
        }
    };
    let scope = |r: &mut Rng| [BusListenerScope::Current, BusListenerScope::New, BusListenerScope::All][r.below(3) as usize];
    match pick_kind(r, mix) {
        0 | 1 | 2 => CreateObject { serial, uuid: ObjectUuid(*r.pick(&p.obj_uuids)) }.into(),
        3 => DestroyObject { serial, cookie: oc(r) }.into(),
        4 | 5 => CreateService { serial, object_cookie: oc(r), uuid: ServiceUuid(*r.pick(&p.svc_uuids)), version: r.below(3) as u32 }.into(),
        6 | 7 => {
            let mut info = ServiceInfo::new(r.below(3) as u32);
            if r.below(3) != 0 {
                info = info.set_subscribe_all(r.below(4) != 0);
            }
            let value = if r.below(10) == 0 { val(r) } else { SerializedValue::serialize(info).unwrap() };
            CreateService2 { serial, object_cookie: oc(r), uuid: ServiceUuid(*r.pick(&p.svc_uuids)), value }.into()
        }
        8 => DestroyService { serial, cookie: sc(r) }.into(),
        9 | 10 | 11 => CallFunction { serial, service_cookie: sc(r), function: 1, value: val(r) }.into(),
        12 | 13 => CallFunction2 {
            serial,
            service_cookie: sc(r),
            function: 2,
            version: if r.below(2) == 0 { None } else { Some(1) },
            value: val(r),
        }
        .into(),
        14 | 15 | 16 => {
            let s = if !my_bserials.is_empty() && r.below(4) != 0 {
                *r.pick(&my_bserials)
            } else if p.bserials.is_empty() || r.below(6) == 0 {
                r.below(8) as u32
            } else {
                *r.pick(&p.bserials)
            };
            let result = match r.below(4) {
                0 => CallFunctionResult::Ok(val(r)),
                1 => CallFunctionResult::Err(val(r)),
                2 => CallFunctionResult::Aborted,
                _ => CallFunctionResult::InvalidFunction,
            };
            CallFunctionReply { serial: s, result }.into()
        }
        17 => AbortFunctionCall { serial }.into(),
        18 | 19 => SubscribeEvent { serial: if r.below(40) == 0 { None } else { Some(serial) }, service_cookie: sc(r), event: ev(r) }.into(),
        20 => UnsubscribeEvent { service_cookie: sc(r), event: ev(r) }.into(),
        21 | 22 => EmitEvent { service_cookie: sc(r), event: ev(r), value: val(r) }.into(),
        23 => QueryServiceVersion { serial, cookie: sc(r) }.into(),
        24 => QueryServiceInfo { serial, cookie: sc(r) }.into(),
        25 => SubscribeService { serial, service_cookie: sc(r) }.into(),
        26 => UnsubscribeService { service_cookie: sc(r) }.into(),
        27 | 28 => SubscribeAllEvents { serial: if r.below(40) == 0 { None } else { Some(serial) }, service_cookie: sc(r) }.into(),
        29 => UnsubscribeAllEvents { serial: if r.below(3) == 0 { None } else { Some(serial) }, service_cookie: sc(r) }.into(),
        30 | 31 => CreateChannel { serial, end: endc(r) }.into(),
        32 | 33 => ClaimChannelEnd { serial, cookie: cc(r), end: endc(r) }.into(),
        34 => CloseChannelEnd { serial, cookie: cc(r), end: end(r) }.into(),
        35 | 36 => SendItem { cookie: cc(r), value: val(r) }.into(),
        37 => AddChannelCapacity { cookie: cc(r), capacity: cap(r) }.into(),
        38 => CreateBusListener { serial }.into(),
        39 => AddBusListenerFilter { cookie: lc(r), filter: filt(r) }.into(),
        40 => match r.below(3) {
            0 => RemoveBusListenerFilter { cookie: lc(r), filter: filt(r) }.into(),
            1 => ClearBusListenerFilters { cookie: lc(r) }.into(),
            _ => DestroyBusListener { serial, cookie: lc(r) }.into(),
        },
        41 => StartBusListener { serial, cookie: lc(r), scope: scope(r) }.into(),
        42 => StopBusListener { serial, cookie: lc(r) }.into(),
        _ => match r.below(8) {
            0 => Sync { serial }.into(),
            1 => SyncReply { serial }.into(),
            2 => ServiceDestroyed { service_cookie: sc(r) }.into(),
            3 => QueryIntrospection { serial, type_id: TypeId(u(1)) }.into(),
            4 => RegisterIntrospection { value: val(r) }.into(),
            5 => ChannelEndClosed { cookie: cc(r), end: end(r) }.into(),
            6 => CreateObjectReply { serial, result: CreateObjectResult::DuplicateObject }.into(),
            _ => ItemReceived { cookie: cc(r), value: val(r) }.into(),
        },
    }
}

struct Hist {
    /// the operation being injected (written to the trace if the implementation panics in it)
    pending: String,
    out: String,
    kinds: BTreeMap<String, u64>,
    steps: u64,
}

fn kind_of(text: &str) -> &str {
    text.split(' ').next().unwrap_or("")
}

/// one ordinary step: connection `c` sends `msg`, the system runs to quiescence, everything every
/// client received is recorded together with the fresh cookie / broker serial the implementation chose
#[allow(clippy::too_many_arguments)]
fn step_message(h: &mut Hist, w: &mut World, m: &mut Model, ids: &mut Ids, p: &mut Pools, tracker_ok: &mut bool,
                c: usize, msg: Message, step: usize) -> Result<(), String> {
    let text = fmt_msg(&msg, ids);
    *h.kinds.entry(format!("in:{}", kind_of(&text))).or_default() += 1;
    h.pending = format!("MSG {} 0 - {}", c, text);
    if !send(w.clients[c].as_mut().unwrap(), msg.clone()) {
        return Err(format!("step {step}: could not send on live client {c}"));
    }
    w.settle();
    let mut o = vec![];
    let mut cl = vec![];
    for j in 0..w.clients.len() {
        let (x, closed) = w.drain(j);
        if closed {
            cl.push(j);
        }
        o.push(x);
    }
    let mut fresh = None;
    for x in &o[c] {
        match x {
            Message::CreateObjectReply(CreateObjectReply { result: CreateObjectResult::Ok(k), .. }) => {
                fresh = Some(k.0);
                p.obj_cookies.push(k.0);
            }
            Message::CreateServiceReply(CreateServiceReply { result: CreateServiceResult::Ok(k), .. }) => {
                fresh = Some(k.0);
                p.svc_cookies.push(k.0);
            }
            Message::CreateChannelReply(CreateChannelReply { cookie, .. }) => {
                fresh = Some(cookie.0);
                p.chan_cookies.push(cookie.0);
            }
            Message::CreateBusListenerReply(CreateBusListenerReply { cookie, .. }) => {
                fresh = Some(cookie.0);
                p.lis_cookies.push(cookie.0);
            }
            _ => {}
        }
    }
    let mut bser = None;
    for x in o.iter().flatten() {
        match x {
            Message::CallFunction(cf) => {
                p.bserials.push(cf.serial);
                bser = Some(cf.serial);
            }
            Message::CallFunction2(cf) => {
                p.bserials.push(cf.serial);
                bser = Some(cf.serial);
            }
            _ => {}
        }
    }
    if *tracker_ok && catch_unwind(AssertUnwindSafe(|| m.message(c, msg, fresh))).is_err() {
        *tracker_ok = false;
    }
    let fid = fresh.map(|f| ids.id(f)).unwrap_or(900_000 + step as u64);
    let bs = bser.map(|b| b.to_string()).unwrap_or_else(|| "-".into());
    // emit
    writeln!(h.out, "EV MSG {} {} {} {}", c, fid, bs, text).unwrap();
    for (j, oj) in o.iter().enumerate() {
        for x in oj {
            let t = fmt_msg(x, ids);
            *h.kinds.entry(format!("out:{}", kind_of(&t))).or_default() += 1;
            writeln!(h.out, "OUT {} {}", j, t).unwrap();
        }
    }
    for c in &cl {
        writeln!(h.out, "CLOSED {}", c).unwrap();
    }
    match w.stats() {
        Some(s) => writeln!(h.out, "STATS {} {} {} {} {}", s[0], s[1], s[2], s[3], s[4]).unwrap(),
        None => writeln!(h.out, "STATS -").unwrap(),
    }
    writeln!(h.out, "EXIT {}", if w.btask.is_none() { 1 } else { 0 }).unwrap();
    writeln!(h.out, "END").unwrap();
    h.steps += 1;
    Ok(())
}

fn run_history(seed: u64, len: usize, mix: Mix, h: &mut Hist) -> Result<(), String> {
    let mut r = Rng::new(seed);
    let mut w = World::new();
    let mut m = Model::default();
    let mut ids = Ids::default();
    let mut p = Pools {
        obj_uuids: vec![u(1), u(2), u(3)],
        svc_uuids: vec![u(11), u(12), u(13)],
        obj_cookies: vec![],
        svc_cookies: vec![],
        chan_cookies: vec![],
        lis_cookies: vec![],
        bserials: vec![],
    };
    for x in p.obj_uuids.iter().chain(p.svc_uuids.iter()) {
        ids.id(*x);
    }
    let mut tracker_ok = true;
    writeln!(h.out, "HIST {}", seed).unwrap();

    // emit one step: event line, outputs, closed set, stats, broker exited?
    fn emit(h: &mut Hist, w: &mut World, ids: &mut Ids, ev: String, real_out: &[Vec<Message>], closed: &[usize]) {
        writeln!(h.out, "EV {}", ev).unwrap();
        for (j, o) in real_out.iter().enumerate() {
            for x in o {
                let t = fmt_msg(x, ids);
                *h.kinds.entry(format!("out:{}", kind_of(&t))).or_default() += 1;
                writeln!(h.out, "OUT {} {}", j, t).unwrap();
            }
        }
        for c in closed {
            writeln!(h.out, "CLOSED {}", c).unwrap();
        }
        match w.stats() {
            Some(s) => writeln!(h.out, "STATS {} {} {} {} {}", s[0], s[1], s[2], s[3], s[4]).unwrap(),
            None => writeln!(h.out, "STATS -").unwrap(),
        }
        writeln!(h.out, "EXIT {}", if w.btask.is_none() { 1 } else { 0 }).unwrap();
        writeln!(h.out, "END").unwrap();
        h.steps += 1;
    }

    let drain_all = |w: &mut World| -> (Vec<Vec<Message>>, Vec<usize>) {
        let mut outs = vec![];
        let mut closed = vec![];
        for j in 0..w.clients.len() {
            let (o, cl) = w.drain(j);
            if cl {
                closed.push(j);
            }
            outs.push(o);
        }
        (outs, closed)
    };

    let nconn = 2 + r.below(3) as usize;
    for _ in 0..nconn {
        let v = [14u32, 15, 16, 17, 18, 19, 20, 20, 20][r.below(9) as usize];
        let i = w.connect(v);
        m.new_conn(i, v.min(20));
        let (o, c) = drain_all(&mut w);
        emit(h, &mut w, &mut ids, format!("NEW {} {}", i, v.min(20)), &o, &c);
    }
    // bootstrap: a few objects and services (with subscribe-all support), a channel and a listener
    // exist from the start, so that the focused phases have something to work on
    let mut boot = 100_000usize;
    if mix != Mix::Abuse || r.chance(1, 2) {
        let nboot = r.range(1, 2) as usize;
        for i in 0..nboot.min(w.clients.len()) {
            let ou = p.obj_uuids[i % 3];
            boot += 1;
            step_message(h, &mut w, &mut m, &mut ids, &mut p, &mut tracker_ok, i, CreateObject { serial: 0, uuid: ObjectUuid(ou) }.into(), boot)?;
            if let Some(oc) = p.obj_cookies.last().cloned() {
                for j in 0..r.range(1, 2) as usize {
                    let ver = m.conns.get(&i).map(|x| x.ver).unwrap_or(14);
                    let su = ServiceUuid(p.svc_uuids[(i + j) % 3]);
                    boot += 1;
                    let msg: Message = if ver >= 17 {
                        let info = ServiceInfo::new(1).set_subscribe_all(true);
                        CreateService2 { serial: 1, object_cookie: ObjectCookie(oc), uuid: su, value: SerializedValue::serialize(info).unwrap() }.into()
                    } else {
                        CreateService { serial: 1, object_cookie: ObjectCookie(oc), uuid: su, version: 1 }.into()
                    };
                    step_message(h, &mut w, &mut m, &mut ids, &mut p, &mut tracker_ok, i, msg, boot)?;
                }
            }
        }
        if matches!(mix, Mix::Channels | Mix::All) {
            boot += 1;
            let e = if r.chance(1, 2) { ChannelEndWithCapacity::Sender } else { ChannelEndWithCapacity::Receiver([1u32, 4, 5, 6, 20][r.below(5) as usize]) };
            step_message(h, &mut w, &mut m, &mut ids, &mut p, &mut tracker_ok, 0, CreateChannel { serial: 2, end: e }.into(), boot)?;
        }
        if matches!(mix, Mix::Listeners | Mix::All) {
            boot += 1;
            let lc = 1.min(w.clients.len() - 1);
            step_message(h, &mut w, &mut m, &mut ids, &mut p, &mut tracker_ok, lc, CreateBusListener { serial: 3 }.into(), boot)?;
        }
    }
    let mut dropped: Vec<usize> = vec![];
    let mut focus = Focus::default();
    let mut step = 0usize;
    let mut shutdown_idle_sent = false;
    while step < len {
        step += 1;
        let alive: Vec<usize> = (0..w.clients.len()).filter(|i| w.clients[*i].is_some()).collect();
        if alive.is_empty() || w.btask.is_none() {
            break;
        }
        // (re)focus every dozen steps on one live service / channel / listener and a few connections
        if focus.ttl == 0 {
            focus = Focus::default();
            focus.ttl = r.range(6, 16) as u32;
            if r.chance(4, 5) {
                let k = r.range(2, 3) as usize;
                for _ in 0..k {
                    focus.conns.push(*r.pick(&alive));
                }
                let svcs: Vec<Uuid> = m.svcs.values().map(|s| s.cookie).collect();
                let chans: Vec<Uuid> = m.chans.keys().cloned().collect();
                let liss: Vec<Uuid> = m.lis.keys().cloned().collect();
                if !svcs.is_empty() {
                    let k = *r.pick(&svcs);
                    focus.svc = Some(k);
                    // the owner takes part
                    if let Some((key, _)) = m.svcs.iter().find(|(_, s)| s.cookie == k) {
                        if let Some(o) = m.objs.get(&key.0) {
                            focus.conns.push(o.owner);
                        }
                    }
                }
                if !chans.is_empty() {
                    focus.chan = Some(*r.pick(&chans));
                }
                if !liss.is_empty() {
                    let k = *r.pick(&liss);
                    focus.lis = Some(k);
                    if let Some(l) = m.lis.get(&k) {
                        focus.conns.push(l.owner);
                    }
                }
            }
        }
        focus.ttl -= 1;
        let fc: Vec<usize> = focus.conns.iter().cloned().filter(|x| alive.contains(x)).collect();
        let c = if !fc.is_empty() && r.chance(3, 4) { *r.pick(&fc) } else { *r.pick(&alive) };
        let roll = r.below(400);
        h.pending = format!("SHUT {}", c);
        if roll < 2 {
            // disconnect by dropping the client's transport
            w.clients[c] = None;
            w.settle();
            let (o, cl) = drain_all(&mut w);
            let _ = catch_unwind(AssertUnwindSafe(|| m.conn_shutdown(c)));
            emit(h, &mut w, &mut ids, format!("SHUT {}", c), &o, &cl);
        } else if roll < 4 {
            // clean disconnect: the client sends Shutdown; the connection answers Shutdown
            send(w.clients[c].as_mut().unwrap(), Shutdown);
            w.settle();
            let (mut o, mut cl) = drain_all(&mut w);
            o[c].retain(|x| !matches!(x, Message::Shutdown(_)));
            w.clients[c] = None;
            cl.retain(|x| *x != c);
            let _ = catch_unwind(AssertUnwindSafe(|| m.conn_shutdown(c)));
            emit(h, &mut w, &mut ids, format!("SHUT {}", c), &o, &cl);
        } else if roll < 6 {
            // drop the connection task: the broker is not told
            w.tasks[c] = None;
            w.clients[c] = None;
            dropped.push(c);
            w.settle();
            let (o, cl) = drain_all(&mut w);
            m.drop_task(c);
            emit(h, &mut w, &mut ids, format!("DROP {}", c), &o, &cl);
        } else if roll < 10 {
            // the request is forwarded into the broker queue, then the task is dropped
            let msg = gen_msg(&mut r, &p, &m, c, mix, &focus);
            let text = fmt_msg(&msg, &mut ids);
            *h.kinds.entry(format!("in:{}", kind_of(&text))).or_default() += 1;
            h.pending = format!("MSG {} 0 - {}", c, text);
            send(w.clients[c].as_mut().unwrap(), msg.clone());
            for _ in 0..4 {
                poll(&mut w.tasks[c]);
            }
            w.tasks[c] = None;
            w.clients[c] = None;
            dropped.push(c);
            // the drop happens before the broker dequeues the request
            m.drop_task(c);
            // (no gauge query here: polling the broker would let it dequeue the request)
            writeln!(h.out, "EV DROP {}\nSTATS -\nEXIT 0\nEND", c).unwrap();
            h.steps += 1;
            w.settle();
            let (o, cl) = drain_all(&mut w);
            let bser = o.iter().flatten().find_map(|x| match x {
                Message::CallFunction(cf) => Some(cf.serial),
                Message::CallFunction2(cf) => Some(cf.serial),
                _ => None,
            });
            if tracker_ok && catch_unwind(AssertUnwindSafe(|| m.message(c, msg, None))).is_err() {
                tracker_ok = false;
            }
            let bs = bser.map(|b| b.to_string()).unwrap_or_else(|| "-".into());
            emit(h, &mut w, &mut ids, format!("MSG {} {} {} {}", c, 900_000 + step, bs, text), &o, &cl);
        } else if roll < 13 {
            // forced by the broker handle
            let hd = w.chandles[c].borrow().clone();
            if let Some(hd) = hd {
                let _ = w.with_handle(|mut bh| Box::pin(async move { bh.shutdown_connection(&hd).await.ok() }));
                w.settle();
                let (mut o, mut cl) = drain_all(&mut w);
                // the client sees Shutdown and closes its side
                let got = o[c].iter().any(|x| matches!(x, Message::Shutdown(_)));
                if got {
                    w.clients[c] = None;
                    w.settle();
                    let (o2, cl2) = drain_all(&mut w);
                    for (a, b) in o.iter_mut().zip(o2) {
                        a.extend(b);
                    }
                    cl.extend(cl2);
                }
                cl.retain(|x| *x != c);
                let _ = catch_unwind(AssertUnwindSafe(|| m.shutdown_conn_forced(c)));
                emit(h, &mut w, &mut ids, format!("SHUTC {}", c), &o, &cl);
            }
        } else if roll < 25 && alive.len() < 5 {
            let v = [14u32, 16, 17, 18, 19, 20][r.below(6) as usize];
            let i = w.connect(v);
            m.new_conn(i, v);
            let (o, cl) = drain_all(&mut w);
            emit(h, &mut w, &mut ids, format!("NEW {} {}", i, v), &o, &cl);
        } else {
            let msg = gen_msg(&mut r, &p, &m, c, mix, &focus);
            // an emitted event is only forwarded when it comes from the owner: mostly send it from there
            let mut c = c;
            if let Message::EmitEvent(e) = &msg {
                let owner = m.svcs.iter().find(|(_, s)| s.cookie == e.service_cookie.0).and_then(|(k, _)| m.objs.get(&k.0)).map(|o| o.owner);
                if let Some(ow) = owner {
                    if alive.contains(&ow) && r.chance(4, 5) {
                        c = ow;
                    }
                }
            }
            step_message(h, &mut w, &mut m, &mut ids, &mut p, &mut tracker_ok, c, msg, step)?;
        }
        if !tracker_ok {
            // the tracker lost sync (it is only a generator aid): stop this history
            break;
        }
        if !shutdown_idle_sent && r.chance(1, 300) {
            shutdown_idle_sent = true;
            w.with_handle(|mut bh| Box::pin(async move { bh.shutdown_idle().await }));
            w.settle();
            let (o, cl) = drain_all(&mut w);
            emit(h, &mut w, &mut ids, "SHUTI".to_string(), &o, &cl);
        }
    }
    // wind down: either a broker shutdown, or every client leaves and the broker is asked to stop
    // when idle; the run future must finish (its debug_asserts check that nothing is left)
    if w.btask.is_some() {
        if r.chance(1, 3) {
            w.with_handle(|mut bh| Box::pin(async move { bh.shutdown().await }));
            w.settle();
            let (mut o, mut cl) = drain_all(&mut w);
            // clients that received Shutdown close their side
            for j in 0..w.clients.len() {
                if w.clients[j].is_some() && o[j].iter().any(|x| matches!(x, Message::Shutdown(_))) {
                    w.clients[j] = None;
                    cl.retain(|x| *x != j);
                }
            }
            w.settle();
            let (o2, cl2) = drain_all(&mut w);
            for (a, b) in o.iter_mut().zip(o2) {
                a.extend(b);
            }
            cl.extend(cl2);
            emit(h, &mut w, &mut ids, "SHUTB".to_string(), &o, &cl);
        } else {
            for c in 0..w.clients.len() {
                if w.clients[c].is_some() {
                    w.clients[c] = None;
                    w.settle();
                    let (o, cl) = drain_all(&mut w);
                    emit(h, &mut w, &mut ids, format!("SHUT {}", c), &o, &cl);
                }
            }
            if !shutdown_idle_sent {
                w.with_handle(|mut bh| Box::pin(async move { bh.shutdown_idle().await }));
                w.settle();
                let (o, cl) = drain_all(&mut w);
                emit(h, &mut w, &mut ids, "SHUTI".to_string(), &o, &cl);
            }
        }
    }
    let _ = dropped;
    Ok(())
}

fn main() {
    quiet_panics();
    let args: Vec<String> = std::env::args().collect();
    if args.len() < 5 || args[1] != "gen" {
        eprintln!("usage: broker gen <outdir> <histories> <max-steps> [all|calls|registry|events|channels|listeners|abuse]");
        std::process::exit(2);
    }
    let outdir = &args[2];
    let n: u64 = args[3].parse().unwrap();
    let len: usize = args[4].parse().unwrap();
    let mix = match args.get(5).map(String::as_str) {
        Some("calls") => Mix::Calls,
        Some("registry") => Mix::Registry,
        Some("events") => Mix::Events,
        Some("channels") => Mix::Channels,
        Some("listeners") => Mix::Listeners,
        Some("abuse") => Mix::Abuse,
        _ => Mix::All,
    };
    let seed = env_u64("VERIF_SEED", 1);
    let mut f = std::io::BufWriter::new(std::fs::File::create(format!("{outdir}/trace.txt")).unwrap());
    let mut kinds: BTreeMap<String, u64> = BTreeMap::new();
    let mut steps = 0u64;
    let mut panics = 0u64;
    for i in 0..n {
        let hs = seed.wrapping_mul(1_000_003).wrapping_add(i);
        let mut h = Hist { pending: String::new(), out: String::new(), kinds: BTreeMap::new(), steps: 0 };
        let res = catch_unwind(AssertUnwindSafe(|| run_history(hs, len, mix, &mut h)));
        f.write_all(h.out.as_bytes()).unwrap();
        match res {
            Ok(Ok(())) => {}
            Ok(Err(e)) => writeln!(f, "HARNESS-ERROR {}", e).unwrap(),
            Err(p) => {
                panics += 1;
                writeln!(f, "EVP {}", h.pending).unwrap();
                let msg = p.downcast_ref::<String>().cloned().or_else(|| p.downcast_ref::<&str>().map(|s| s.to_string())).unwrap_or_default();
                writeln!(f, "PANIC {}", msg.replace('\n', " ")).unwrap();
            }
        }
        writeln!(f, "HISTEND").unwrap();
        steps += h.steps;
        for (k, v) in h.kinds {
            *kinds.entry(k).or_default() += v;
        }
    }
    let mut stats = String::new();
    write!(stats, "{{\"seed\":{},\"histories\":{},\"steps\":{},\"panics\":{},\"kinds\":{{{}}}}}", seed, n, steps, panics,
        kinds.iter().map(|(k, v)| format!("\"{}\":{}", k, v)).collect::<Vec<_>>().join(",")).unwrap();
    std::fs::write(format!("{outdir}/stats.json"), stats).unwrap();
}
