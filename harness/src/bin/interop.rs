//! `interop <outdir> <payloads-per-pair>`: cross-version payload interop through the REAL broker
//! and connection tasks (C12, last clause).  For every pair of negotiated versions
//! (1.14..1.20)² a caller/subscriber/receiver B and a service owner/emitter/sender A exchange
//! generated payloads in calls, replies, events and channel items.  Each delivered payload is
//! written as a `conv <from> <to> <hex-of-what-was-sent>` case (same syntax as `codec run`) with
//! the delivered bytes as the implementation's answer, so the Coq model of the converter
//! (`convert_api`, extract/codec_driver) predicts the exact bytes; the monitor checks the property
//! itself on the Rust alone: the delivered payload decodes to the same value, and contains no 1.20
//! container encoding when the receiver negotiated < 1.20.
use aldrin_broker::{Broker, BrokerHandle};
use aldrin_core::channel::{self, Unbounded};
use aldrin_core::message::*;
use aldrin_core::tags;
use aldrin_core::transport::AsyncTransport;
use aldrin_core::*;
use std::collections::BTreeMap;
use std::future::Future;
use std::io::Write;
use std::pin::Pin;
use std::sync::Arc;
use std::task::{Context, Poll, Wake, Waker};
use uuid::Uuid;
use verif_harness::valuefmt::{fmt_value, Legacy};
use verif_harness::valuegen::{gen_chain, gen_tree, set_budget};
use verif_harness::{catch, env_u64, hex, quiet_panics, Rng};

struct Noop;
impl Wake for Noop {
    fn wake(self: Arc<Self>) {}
}
fn waker() -> Waker {
    Arc::new(Noop).into()
}
type Task = Pin<Box<dyn Future<Output = ()>>>;
fn poll(t: &mut Option<Task>) {
    if let Some(f) = t {
        let w = waker();
        let mut cx = Context::from_waker(&w);
        if f.as_mut().poll(&mut cx).is_ready() {
            *t = None;
        }
    }
}
fn send(t: &mut Unbounded, m: impl Into<Message>) -> bool {
    let w = waker();
    let mut cx = Context::from_waker(&w);
    if !matches!(Pin::new(&mut *t).send_poll_ready(&mut cx), Poll::Ready(Ok(()))) {
        return false;
    }
    if Pin::new(&mut *t).send_start(m.into()).is_err() {
        return false;
    }
    let _ = Pin::new(&mut *t).send_poll_flush(&mut cx);
    true
}
fn recv(t: &mut Unbounded) -> Option<Result<Message, ()>> {
    let w = waker();
    let mut cx = Context::from_waker(&w);
    match Pin::new(&mut *t).receive_poll(&mut cx) {
        Poll::Ready(Ok(m)) => Some(Ok(m)),
        Poll::Ready(Err(_)) => Some(Err(())),
        Poll::Pending => None,
    }
}

struct World {
    btask: Option<Task>,
    handle: BrokerHandle,
    clients: Vec<Unbounded>,
    tasks: Vec<Option<Task>>,
}
impl World {
    fn new() -> Self {
        let b = Broker::new();
        let h = b.handle().clone();
        World { btask: Some(Box::pin(b.run())), handle: h, clients: vec![], tasks: vec![] }
    }
    fn settle(&mut self) {
        for _ in 0..10 {
            for t in self.tasks.iter_mut() {
                poll(t);
            }
            poll(&mut self.btask);
        }
    }
    fn connect(&mut self, minor: u32) -> usize {
        let (mut c, b) = channel::unbounded();
        send(&mut c, Connect2 { major_version: 1, minor_version: minor, value: SerializedValue::serialize(ConnectData::new()).unwrap() });
        let mut h = self.handle.clone();
        let t: Task = Box::pin(async move {
            if let Ok(conn) = h.connect(b).await {
                let _ = conn.run().await;
            }
        });
        self.clients.push(c);
        self.tasks.push(Some(t));
        self.settle();
        let i = self.clients.len() - 1;
        let r = recv(&mut self.clients[i]);
        assert!(matches!(r, Some(Ok(Message::ConnectReply2(_)))), "{r:?}");
        i
    }
    fn drain(&mut self, i: usize) -> Vec<Message> {
        let mut out = vec![];
        while let Some(Ok(m)) = recv(&mut self.clients[i]) {
            out.push(m);
        }
        out
    }
    fn rt(&mut self, from: usize, m: impl Into<Message>, to: usize) -> Vec<Message> {
        send(&mut self.clients[from], m);
        self.settle();
        self.drain(to)
    }
}

/// the pre-1.20 grammar: no kind byte 43..=65 in kind position at any level (value known to decode)
fn has_v2_kind(v: &SerializedValueSlice) -> bool {
    // convert to 1.19 is the identity exactly on v1-only encodings (C13_idempotent)
    match v.convert(Some(ProtocolVersion::V1_20), ProtocolVersion::V1_19) {
        Ok(c) => {
            let s: &[u8] = &**c;
            let orig: &[u8] = &**v;
            s != orig
        }
        Err(_) => true,
    }
}

struct Out {
    cases: std::io::BufWriter<std::fs::File>,
    imp: std::io::BufWriter<std::fs::File>,
    mon: std::io::BufWriter<std::fs::File>,
    n: u64,
    converted: u64,
    paths: BTreeMap<&'static str, u64>,
}

impl Out {
    /// one delivery: `sent` by a peer of version `from` arrived as `got` at a peer of version `to`
    fn delivery(&mut self, path: &'static str, from: u32, to: u32, sent: &SerializedValue, got: Option<&SerializedValueSlice>) {
        self.n += 1;
        *self.paths.entry(path).or_default() += 1;
        let s: &[u8] = &***sent;
        writeln!(self.cases, "conv 1.{} 1.{} {}", from, to, hex(s)).unwrap();
        match got {
            None => {
                writeln!(self.imp, "!NotDelivered").unwrap();
                writeln!(self.mon, "C12 payload not delivered path={} from=1.{} to=1.{} bytes={}", path, from, to, hex(s)).unwrap();
            }
            Some(g) => {
                let gb: &[u8] = &**g;
                writeln!(self.imp, "{}", hex(gb)).unwrap();
                if gb != s {
                    self.converted += 1;
                }
                let a = catch(|| sent.deserialize_as_value().map(|v| fmt_value(&v, true)));
                let b = catch(|| g.deserialize_as_value().map(|v| fmt_value(&v, true)));
                let same = matches!((&a, &b), (Ok(Ok(x)), Ok(Ok(y))) if x == y);
                if !same {
                    writeln!(self.mon, "C12 payload meaning changed path={} from=1.{} to=1.{} bytes={} got={}", path, from, to, hex(s), hex(gb)).unwrap();
                }
                if to < 20 && has_v2_kind(g) {
                    writeln!(self.mon, "C12 1.20 encoding delivered to older peer path={} from=1.{} to=1.{} bytes={} got={}", path, from, to, hex(s), hex(gb)).unwrap();
                }
            }
        }
    }
}

fn payload(r: &mut Rng, sender_ver: u32) -> SerializedValue {
    loop {
        set_budget(if r.chance(1, 40) { 5000 } else { 120 });
        let v = if r.chance(2, 3) {
            let d = r.range(1, 5) as u32;
            gen_tree(r, d)
        } else {
            // nesting up to and, often, exactly at the limit (MAX_VALUE_DEPTH = 32): the converter has
            // its own depth counter
            let d = if r.chance(1, 3) { 32 } else { r.range(1, 32) as u32 };
            gen_chain(r, d)
        };
        // a peer that negotiated < 1.20 only produces the legacy encodings
        let sv = if sender_ver >= 20 && r.chance(3, 4) {
            SerializedValue::serialize(&v)
        } else {
            SerializedValue::serialize_as::<tags::Value>(Legacy(&v))
        };
        if let Ok(sv) = sv {
            return sv;
        }
    }
}

fn u(n: u128) -> Uuid {
    Uuid::from_u128(n)
}

fn run_pair(r: &mut Rng, va: u32, vb: u32, n: u64, out: &mut Out) -> Result<(), String> {
    let mut w = World::new();
    let a = w.connect(va);
    let b = w.connect(vb);
    // A: object + service
    let rep = w.rt(a, CreateObject { serial: 0, uuid: ObjectUuid(u(1)) }, a);
    let oc = rep.iter().find_map(|m| match m { Message::CreateObjectReply(CreateObjectReply { result: CreateObjectResult::Ok(c), .. }) => Some(*c), _ => None }).ok_or("no object")?;
    let rep = w.rt(a, CreateService { serial: 1, object_cookie: oc, uuid: ServiceUuid(u(2)), version: 1 }, a);
    let sc = rep.iter().find_map(|m| match m { Message::CreateServiceReply(CreateServiceReply { result: CreateServiceResult::Ok(c), .. }) => Some(*c), _ => None }).ok_or("no service")?;
    // B subscribes to event 7
    w.rt(b, SubscribeEvent { serial: Some(0), service_cookie: sc, event: 7 }, b);
    w.drain(a);
    // channel: A creates the sender end, B claims the receiver with a large capacity
    let rep = w.rt(a, CreateChannel { serial: 2, end: ChannelEndWithCapacity::Sender }, a);
    let cc = rep.iter().find_map(|m| match m { Message::CreateChannelReply(x) => Some(x.cookie), _ => None }).ok_or("no channel")?;
    w.rt(b, ClaimChannelEnd { serial: 1, cookie: cc, end: ChannelEndWithCapacity::Receiver(1_000_000) }, b);
    w.drain(a);

    for i in 0..n {
        let serial = 10 + i as u32;
        // call B -> A
        let p = payload(r, vb);
        let got = w.rt(b, CallFunction { serial, service_cookie: sc, function: 3, value: p.clone() }, a);
        let mut bserial = None;
        let mut delivered = false;
        for m in &got {
            match m {
                Message::CallFunction(c) => {
                    if va >= 19 {
                        writeln!(out.mon, "C12 CallFunction sent to a 1.{} callee (expects CallFunction2)", va).unwrap();
                    }
                    bserial = Some(c.serial);
                    out.delivery("call", vb, va, &p, Some(&c.value));
                    delivered = true;
                }
                Message::CallFunction2(c) => {
                    if va < 19 {
                        writeln!(out.mon, "C12 CallFunction2 sent to a 1.{} callee", va).unwrap();
                    }
                    bserial = Some(c.serial);
                    out.delivery("call", vb, va, &p, Some(&c.value));
                    delivered = true;
                }
                _ => {}
            }
        }
        if !delivered {
            out.delivery("call", vb, va, &p, None);
        }
        // reply A -> B
        if let Some(bs) = bserial {
            let q = payload(r, va);
            let result = if r.chance(1, 2) { CallFunctionResult::Ok(q.clone()) } else { CallFunctionResult::Err(q.clone()) };
            let got = w.rt(a, CallFunctionReply { serial: bs, result }, b);
            let v = got.iter().find_map(|m| match m {
                Message::CallFunctionReply(CallFunctionReply { serial: s, result: CallFunctionResult::Ok(v) | CallFunctionResult::Err(v) }) if *s == serial => Some(v.clone()),
                _ => None,
            });
            out.delivery("reply", va, vb, &q, v.as_deref());
        }
        // event A -> B
        let e = payload(r, va);
        let got = w.rt(a, EmitEvent { service_cookie: sc, event: 7, value: e.clone() }, b);
        let v = got.iter().find_map(|m| match m { Message::EmitEvent(x) => Some(x.value.clone()), _ => None });
        out.delivery("event", va, vb, &e, v.as_deref());
        // item A -> B
        let it = payload(r, va);
        let got = w.rt(a, SendItem { cookie: cc, value: it.clone() }, b);
        let v = got.iter().find_map(|m| match m { Message::ItemReceived(x) => Some(x.value.clone()), _ => None });
        out.delivery("item", va, vb, &it, v.as_deref());
        w.drain(a);
    }
    Ok(())
}

fn main() {
    quiet_panics();
    let args: Vec<String> = std::env::args().collect();
    if args.len() < 3 {
        eprintln!("usage: interop <outdir> <payloads-per-pair>");
        std::process::exit(2);
    }
    let outdir = &args[1];
    let n: u64 = args[2].parse().unwrap();
    let seed = env_u64("VERIF_SEED", 1);
    let mut r = Rng::new(seed);
    let mk = |name: &str| std::io::BufWriter::new(std::fs::File::create(format!("{outdir}/{name}")).unwrap());
    let mut out = Out { cases: mk("cases.txt"), imp: mk("impl.txt"), mon: mk("monitor.txt"), n: 0, converted: 0, paths: BTreeMap::new() };
    for va in 14..=20u32 {
        for vb in 14..=20u32 {
            let res = catch(|| run_pair(&mut r, va, vb, n, &mut out));
            match res {
                Ok(Ok(())) => {}
                Ok(Err(e)) => writeln!(out.mon, "C12 interop scenario failed va=1.{} vb=1.{}: {}", va, vb, e).unwrap(),
                Err(p) => writeln!(out.mon, "C12 panic in interop scenario va=1.{} vb=1.{}: {}", va, vb, p.replace('\n', " ")).unwrap(),
            }
        }
    }
    let stats = format!(
        "{{\"seed\":{},\"deliveries\":{},\"converted\":{},\"version_pairs\":49,\"paths\":{{{}}}}}",
        seed, out.n, out.converted,
        out.paths.iter().map(|(k, v)| format!("\"{}\":{}", k, v)).collect::<Vec<_>>().join(",")
    );
    std::fs::write(format!("{outdir}/stats.json"), stats).unwrap();
}
