//! C20 harness: type ids are structural.
//! `intro gen <outdir> <families>`: generate families of introspectable types (a universe =
//!   a table of layouts with lexical ids and reference lists), install each in a thread-local
//!   table read by the hand-implemented `Introspectable` types `Dyn<K>`, run the real code
//!   (`LexicalId` constructors, `SerializedValue::serialize(&LayoutIr)`, `TypeId::compute_from_dyn`,
//!   `Introspection::from_dyn` + serialize/deserialize) and write cases.txt (ops for the model
//!   driver `extract/intro_driver.ml`), impl.txt (one answer per op), monitor.txt (violations of
//!   the property statement seen on the implementation alone) and stats.json.
//! `intro run <cases> <impl-out>`: interpret a cases file with the real code (replay).
//! `intro derive <outdir>`: only the derive-consistency stream (hand-written types of `intro_types.rs`:
//!   ids/flags/fallback said by the `Introspectable` derive vs. what the `Serialize`/`Deserialize`
//!   derives do on the wire; feature `c20-macros`).
use aldrin_core::introspection::{
    ir, BuiltInType, DynIntrospectable, Introspectable, Introspection, Layout, LexicalId,
    References,
};
use aldrin_core::{SerializedValue, ServiceUuid, TypeId};
use std::cell::RefCell;
use std::collections::{BTreeMap, BTreeSet, HashSet};
use std::fmt::Write as _;
use std::io::{BufRead, Write};
use uuid::Uuid;
use verif_harness::valuefmt::fmt_value;
use verif_harness::{catch, env_u64, hex, quiet_panics, unhex, Rng};

const MAXN: usize = 40;

// ------------------------------------------------------------------ spec types

#[derive(Clone, Debug, PartialEq, Eq, Hash, PartialOrd, Ord)]
enum Lex {
    Prim(&'static str),
    Wrap(&'static str, Box<Lex>),
    Map(Box<Lex>, Box<Lex>),
    Result(Box<Lex>, Box<Lex>),
    Array(Box<Lex>, u32),
    Custom(String, String, Vec<Lex>),
    Service(String, String),
    Raw(Uuid),
}

#[derive(Clone, Debug, PartialEq)]
struct FieldS { id: u32, name: String, doc: Option<String>, req: bool, ty: Lex }
#[derive(Clone, Debug, PartialEq)]
struct VariantS { id: u32, name: String, doc: Option<String>, ty: Option<Lex> }
#[derive(Clone, Debug, PartialEq)]
struct FuncS { id: u32, name: String, doc: Option<String>, args: Option<Lex>, ok: Option<Lex>, err: Option<Lex> }
#[derive(Clone, Debug, PartialEq)]
struct EventS { id: u32, name: String, doc: Option<String>, ty: Option<Lex> }
type Fb = Option<(String, Option<String>)>;

#[derive(Clone, Debug, PartialEq)]
enum LayoutS {
    BuiltIn(Lex), // Prim / Wrap / Map / Result / Array only
    Struct { schema: String, name: String, doc: Option<String>, fields: Vec<FieldS>, fb: Fb },
    Enum { schema: String, name: String, doc: Option<String>, variants: Vec<VariantS>, fb: Fb },
    Newtype { schema: String, name: String, doc: Option<String>, target: Lex },
    Service { schema: String, name: String, doc: Option<String>, uuid: Uuid, version: u32,
              funcs: Vec<FuncS>, events: Vec<EventS>, ffb: Fb, efb: Fb },
}

#[derive(Clone, Debug, PartialEq)]
struct Node { lex: Lex, layout: LayoutS, refs: Vec<usize> }

static PRIMS: [&str; 19] = ["Bool", "U8", "I8", "U16", "I16", "U32", "I32", "U64", "I64", "F32", "F64",
    "String", "Uuid", "ObjectId", "ServiceId", "Value", "Bytes", "Lifetime", "Unit"];
static WRAPS: [&str; 6] = ["Option", "Box", "Vec", "Set", "Sender", "Receiver"];

fn static_name(s: &str, tab: &'static [&'static str]) -> &'static str {
    tab.iter().copied().find(|x| *x == s).unwrap_or_else(|| panic!("unknown name {s}"))
}

// ------------------------------------------------------------------ text format

fn xs(s: &str) -> String { format!("x{}", hex(s.as_bytes())) }
fn xdoc(d: &Option<String>) -> String { match d { None => "-".into(), Some(s) => xs(s) } }
fn lex_text(t: &Lex, o: &mut String) {
    match t {
        Lex::Prim(p) => { write!(o, "p {p}").unwrap() }
        Lex::Wrap(w, x) => { write!(o, "w {w} ").unwrap(); lex_text(x, o) }
        Lex::Map(k, v) => { o.push_str("m "); lex_text(k, o); o.push(' '); lex_text(v, o) }
        Lex::Result(a, e) => { o.push_str("r "); lex_text(a, o); o.push(' '); lex_text(e, o) }
        Lex::Array(x, n) => { o.push_str("a "); lex_text(x, o); write!(o, " {n}").unwrap() }
        Lex::Custom(s, n, args) => {
            write!(o, "c {} {} {}", xs(s), xs(n), args.len()).unwrap();
            for a in args { o.push(' '); lex_text(a, o) }
        }
        Lex::Service(s, n) => { write!(o, "s {} {}", xs(s), xs(n)).unwrap() }
        Lex::Raw(u) => { write!(o, "u {}", hex(u.as_bytes())).unwrap() }
    }
}
fn olex_text(t: &Option<Lex>, o: &mut String) { match t { None => o.push('-'), Some(t) => lex_text(t, o) } }
fn fb_text(f: &Fb, o: &mut String) {
    match f { None => o.push('-'), Some((n, d)) => { write!(o, "f {} {}", xs(n), xdoc(d)).unwrap() } }
}
fn layout_text(l: &LayoutS, o: &mut String) {
    match l {
        LayoutS::BuiltIn(t) => { o.push_str("B "); lex_text(t, o) }
        LayoutS::Struct { schema, name, doc, fields, fb } => {
            write!(o, "S {} {} {} {}", xs(schema), xs(name), xdoc(doc), fields.len()).unwrap();
            for f in fields {
                write!(o, " {} {} {} {} ", f.id, xs(&f.name), xdoc(&f.doc), f.req as u8).unwrap();
                lex_text(&f.ty, o);
            }
            o.push(' '); fb_text(fb, o);
        }
        LayoutS::Enum { schema, name, doc, variants, fb } => {
            write!(o, "E {} {} {} {}", xs(schema), xs(name), xdoc(doc), variants.len()).unwrap();
            for v in variants {
                write!(o, " {} {} {} ", v.id, xs(&v.name), xdoc(&v.doc)).unwrap();
                olex_text(&v.ty, o);
            }
            o.push(' '); fb_text(fb, o);
        }
        LayoutS::Newtype { schema, name, doc, target } => {
            write!(o, "T {} {} {} ", xs(schema), xs(name), xdoc(doc)).unwrap();
            lex_text(target, o);
        }
        LayoutS::Service { schema, name, doc, uuid, version, funcs, events, ffb, efb } => {
            write!(o, "V {} {} {} {} {} {}", xs(schema), xs(name), xdoc(doc), hex(uuid.as_bytes()), version, funcs.len()).unwrap();
            for f in funcs {
                write!(o, " {} {} {} ", f.id, xs(&f.name), xdoc(&f.doc)).unwrap();
                olex_text(&f.args, o); o.push(' '); olex_text(&f.ok, o); o.push(' '); olex_text(&f.err, o);
            }
            write!(o, " {}", events.len()).unwrap();
            for e in events {
                write!(o, " {} {} {} ", e.id, xs(&e.name), xdoc(&e.doc)).unwrap();
                olex_text(&e.ty, o);
            }
            o.push(' '); fb_text(ffb, o); o.push(' '); fb_text(efb, o);
        }
    }
}
fn universe_text(u: &[Node]) -> String {
    let mut o = format!("U {}", u.len());
    for n in u {
        o.push_str(" N ");
        lex_text(&n.lex, &mut o);
        o.push(' ');
        layout_text(&n.layout, &mut o);
        write!(o, " {}", n.refs.len()).unwrap();
        for r in &n.refs { write!(o, " {r}").unwrap(); }
    }
    o
}

struct Toks<'a> { t: Vec<&'a str>, i: usize }
impl<'a> Toks<'a> {
    fn next(&mut self) -> &'a str { let x = self.t[self.i]; self.i += 1; x }
    fn int(&mut self) -> u64 { self.next().parse().unwrap() }
    fn str_tok(t: &str) -> String { assert!(t.starts_with('x')); String::from_utf8(unhex(&t[1..])).unwrap() }
    fn str(&mut self) -> String { Self::str_tok(self.next()) }
    fn doc(&mut self) -> Option<String> { let t = self.next(); if t == "-" { None } else { Some(Self::str_tok(t)) } }
    fn lex_tok(&mut self, t: &str) -> Lex {
        match t {
            "p" => Lex::Prim(static_name(self.next(), &PRIMS)),
            "w" => { let w = static_name(self.next(), &WRAPS); Lex::Wrap(w, Box::new(self.lex())) }
            "m" => { let k = self.lex(); let v = self.lex(); Lex::Map(Box::new(k), Box::new(v)) }
            "r" => { let a = self.lex(); let e = self.lex(); Lex::Result(Box::new(a), Box::new(e)) }
            "a" => { let x = self.lex(); let n = self.int() as u32; Lex::Array(Box::new(x), n) }
            "c" => { let s = self.str(); let n = self.str(); let k = self.int(); let args = (0..k).map(|_| self.lex()).collect(); Lex::Custom(s, n, args) }
            "s" => { let s = self.str(); let n = self.str(); Lex::Service(s, n) }
            "u" => Lex::Raw(Uuid::from_slice(&unhex(self.next())).unwrap()),
            t => panic!("lex {t}"),
        }
    }
    fn lex(&mut self) -> Lex { let t = self.next(); self.lex_tok(t) }
    fn olex(&mut self) -> Option<Lex> { let t = self.next(); if t == "-" { None } else { Some(self.lex_tok(t)) } }
    fn fb(&mut self) -> Fb { let t = self.next(); if t == "-" { None } else { let n = self.str(); let d = self.doc(); Some((n, d)) } }
    fn layout(&mut self) -> LayoutS {
        match self.next() {
            "B" => LayoutS::BuiltIn(self.lex()),
            "S" => { let schema = self.str(); let name = self.str(); let doc = self.doc(); let k = self.int();
                let fields = (0..k).map(|_| { let id = self.int() as u32; let name = self.str(); let doc = self.doc(); let req = self.next() == "1"; let ty = self.lex(); FieldS { id, name, doc, req, ty } }).collect();
                let fb = self.fb(); LayoutS::Struct { schema, name, doc, fields, fb } }
            "E" => { let schema = self.str(); let name = self.str(); let doc = self.doc(); let k = self.int();
                let variants = (0..k).map(|_| { let id = self.int() as u32; let name = self.str(); let doc = self.doc(); let ty = self.olex(); VariantS { id, name, doc, ty } }).collect();
                let fb = self.fb(); LayoutS::Enum { schema, name, doc, variants, fb } }
            "T" => { let schema = self.str(); let name = self.str(); let doc = self.doc(); let target = self.lex(); LayoutS::Newtype { schema, name, doc, target } }
            "V" => { let schema = self.str(); let name = self.str(); let doc = self.doc();
                let uuid = Uuid::from_slice(&unhex(self.next())).unwrap(); let version = self.int() as u32; let k = self.int();
                let funcs = (0..k).map(|_| { let id = self.int() as u32; let name = self.str(); let doc = self.doc(); let args = self.olex(); let ok = self.olex(); let err = self.olex(); FuncS { id, name, doc, args, ok, err } }).collect();
                let k = self.int();
                let events = (0..k).map(|_| { let id = self.int() as u32; let name = self.str(); let doc = self.doc(); let ty = self.olex(); EventS { id, name, doc, ty } }).collect();
                let ffb = self.fb(); let efb = self.fb();
                LayoutS::Service { schema, name, doc, uuid, version, funcs, events, ffb, efb } }
            t => panic!("layout {t}"),
        }
    }
}
fn parse_universe(line: &str) -> Vec<Node> {
    let mut t = Toks { t: line.split(' ').collect(), i: 0 };
    assert_eq!(t.next(), "U");
    let n = t.int();
    (0..n).map(|_| { assert_eq!(t.next(), "N"); let lex = t.lex(); let layout = t.layout(); let k = t.int(); let refs = (0..k).map(|_| t.int() as usize).collect(); Node { lex, layout, refs } }).collect()
}

// ------------------------------------------------------------------ the real code, driven by a table

thread_local! { static UNIV: RefCell<Vec<Node>> = RefCell::new(vec![]); }
fn install(u: &[Node]) { assert!(u.len() <= MAXN); UNIV.with(|x| *x.borrow_mut() = u.to_vec()); }

fn lex_id(t: &Lex) -> LexicalId {
    match t {
        Lex::Prim(p) => match *p {
            "Bool" => LexicalId::BOOL, "U8" => LexicalId::U8, "I8" => LexicalId::I8, "U16" => LexicalId::U16,
            "I16" => LexicalId::I16, "U32" => LexicalId::U32, "I32" => LexicalId::I32, "U64" => LexicalId::U64,
            "I64" => LexicalId::I64, "F32" => LexicalId::F32, "F64" => LexicalId::F64, "String" => LexicalId::STRING,
            "Uuid" => LexicalId::UUID, "ObjectId" => LexicalId::OBJECT_ID, "ServiceId" => LexicalId::SERVICE_ID,
            "Value" => LexicalId::VALUE, "Bytes" => LexicalId::BYTES, "Lifetime" => LexicalId::LIFETIME,
            "Unit" => LexicalId::UNIT, p => panic!("prim {p}"),
        },
        Lex::Wrap(w, x) => { let x = lex_id(x); match *w {
            "Option" => LexicalId::option(x), "Box" => LexicalId::box_ty(x), "Vec" => LexicalId::vec(x),
            "Set" => LexicalId::set(x), "Sender" => LexicalId::sender(x), "Receiver" => LexicalId::receiver(x),
            w => panic!("wrap {w}") } }
        Lex::Map(k, v) => LexicalId::map(lex_id(k), lex_id(v)),
        Lex::Result(a, e) => LexicalId::result(lex_id(a), lex_id(e)),
        Lex::Array(x, n) => LexicalId::array(lex_id(x), *n),
        Lex::Custom(s, n, args) => { let a: Vec<LexicalId> = args.iter().map(lex_id).collect(); match a.len() {
            0 => LexicalId::custom(s, n),
            1 => LexicalId::custom_generic(s, n, &[a[0]]),
            2 => LexicalId::custom_generic(s, n, &[a[0], a[1]]),
            3 => LexicalId::custom_generic(s, n, &[a[0], a[1], a[2]]),
            k => panic!("{k} type arguments") } }
        Lex::Service(s, n) => LexicalId::service(s, n),
        Lex::Raw(u) => LexicalId(*u),
    }
}

fn builtin_ir(t: &Lex) -> ir::BuiltInTypeIr {
    use ir::BuiltInTypeIr as B;
    match t {
        Lex::Prim(p) => match *p {
            "Bool" => B::Bool, "U8" => B::U8, "I8" => B::I8, "U16" => B::U16, "I16" => B::I16, "U32" => B::U32,
            "I32" => B::I32, "U64" => B::U64, "I64" => B::I64, "F32" => B::F32, "F64" => B::F64, "String" => B::String,
            "Uuid" => B::Uuid, "ObjectId" => B::ObjectId, "ServiceId" => B::ServiceId, "Value" => B::Value,
            "Bytes" => B::Bytes, "Lifetime" => B::Lifetime, "Unit" => B::Unit, p => panic!("prim {p}"),
        },
        Lex::Wrap(w, x) => { let x = lex_id(x); match *w {
            "Option" => B::Option(x), "Box" => B::Box(x), "Vec" => B::Vec(x), "Set" => B::Set(x),
            "Sender" => B::Sender(x), "Receiver" => B::Receiver(x), w => panic!("wrap {w}") } }
        Lex::Map(k, v) => B::Map(ir::MapTypeIr::new(lex_id(k), lex_id(v))),
        Lex::Result(a, e) => B::Result(ir::ResultTypeIr::new(lex_id(a), lex_id(e))),
        Lex::Array(x, n) => B::Array(ir::ArrayTypeIr::new(lex_id(x), *n)),
        other => panic!("not a built-in: {other:?}"),
    }
}

/// the layout through the PUBLIC builders, entries added in the order of the spec
fn layout_ir(l: &LayoutS) -> ir::LayoutIr {
    match l {
        LayoutS::BuiltIn(t) => builtin_ir(t).into(),
        LayoutS::Struct { schema, name, doc, fields, fb } => {
            let mut b = ir::StructIr::builder(schema, name);
            if let Some(d) = doc { b = b.doc(d); }
            for f in fields {
                let mut fb = ir::FieldIr::builder(f.id, &f.name, f.req, lex_id(&f.ty));
                if let Some(d) = &f.doc { fb = fb.doc(d); }
                b = b.field(fb.finish());
            }
            if let Some((n, d)) = fb { let mut x = ir::StructFallbackIr::builder(n); if let Some(d) = d { x = x.doc(d); } b = b.fallback(x.finish()); }
            b.finish().into()
        }
        LayoutS::Enum { schema, name, doc, variants, fb } => {
            let mut b = ir::EnumIr::builder(schema, name);
            if let Some(d) = doc { b = b.doc(d); }
            for v in variants {
                let mut vb = ir::VariantIr::builder(v.id, &v.name);
                if let Some(t) = &v.ty { vb = vb.variant_type(lex_id(t)); }
                if let Some(d) = &v.doc { vb = vb.doc(d); }
                b = b.variant(vb.finish());
            }
            if let Some((n, d)) = fb { let mut x = ir::EnumFallbackIr::builder(n); if let Some(d) = d { x = x.doc(d); } b = b.fallback(x.finish()); }
            b.finish().into()
        }
        LayoutS::Newtype { schema, name, doc, target } => {
            let mut b = ir::NewtypeIr::builder(schema, name, lex_id(target));
            if let Some(d) = doc { b = b.doc(d); }
            b.finish().into()
        }
        LayoutS::Service { schema, name, doc, uuid, version, funcs, events, ffb, efb } => {
            let mut b = ir::ServiceIr::builder(schema, name, ServiceUuid(*uuid), *version);
            if let Some(d) = doc { b = b.doc(d); }
            for f in funcs {
                let mut fb = ir::FunctionIr::builder(f.id, &f.name);
                if let Some(d) = &f.doc { fb = fb.doc(d); }
                if let Some(t) = &f.args { fb = fb.args(lex_id(t)); }
                if let Some(t) = &f.ok { fb = fb.ok(lex_id(t)); }
                if let Some(t) = &f.err { fb = fb.err(lex_id(t)); }
                b = b.function(fb.finish());
            }
            for e in events {
                let mut eb = ir::EventIr::builder(e.id, &e.name);
                if let Some(d) = &e.doc { eb = eb.doc(d); }
                if let Some(t) = &e.ty { eb = eb.event_type(lex_id(t)); }
                b = b.event(eb.finish());
            }
            if let Some((n, d)) = ffb { let mut x = ir::FunctionFallbackIr::builder(n); if let Some(d) = d { x = x.doc(d); } b = b.function_fallback(x.finish()); }
            if let Some((n, d)) = efb { let mut x = ir::EventFallbackIr::builder(n); if let Some(d) = d { x = x.doc(d); } b = b.event_fallback(x.finish()); }
            b.finish().into()
        }
    }
}

struct Dyn<const K: usize>;
impl<const K: usize> Introspectable for Dyn<K> {
    fn layout() -> ir::LayoutIr { let l = UNIV.with(|u| u.borrow()[K].layout.clone()); layout_ir(&l) }
    fn lexical_id() -> LexicalId { let t = UNIV.with(|u| u.borrow()[K].lex.clone()); lex_id(&t) }
    fn add_references(references: &mut References) {
        let rs = UNIV.with(|u| u.borrow()[K].refs.clone());
        for r in rs { references.add_dyn(dyn_of(r)); }
    }
}
macro_rules! dyn_table { ($($k:literal)*) => { fn dyn_of(k: usize) -> DynIntrospectable { match k { $($k => DynIntrospectable::new::<Dyn<$k>>(),)* _ => panic!("node index {k} out of range") } } } }
dyn_table!(0 1 2 3 4 5 6 7 8 9 10 11 12 13 14 15 16 17 18 19 20 21 22 23 24 25 26 27 28 29 30 31 32 33 34 35 36 37 38 39);

fn layout_type_ids(l: &Layout) -> Vec<TypeId> {
    let mut v = vec![];
    match l {
        Layout::BuiltIn(b) => match b {
            BuiltInType::Option(t) | BuiltInType::Box(t) | BuiltInType::Vec(t) | BuiltInType::Set(t)
            | BuiltInType::Sender(t) | BuiltInType::Receiver(t) => v.push(*t),
            BuiltInType::Map(m) => { v.push(m.key()); v.push(m.value()) }
            BuiltInType::Result(r) => { v.push(r.ok()); v.push(r.err()) }
            BuiltInType::Array(a) => v.push(a.elem_type()),
            _ => {}
        },
        Layout::Struct(s) => v.extend(s.fields().values().map(|f| f.field_type())),
        Layout::Enum(e) => v.extend(e.variants().values().filter_map(|x| x.variant_type())),
        Layout::Newtype(n) => v.push(n.target_type()),
        Layout::Service(s) => {
            for f in s.functions().values() { v.extend(f.args()); v.extend(f.ok()); v.extend(f.err()); }
            v.extend(s.events().values().filter_map(|e| e.event_type()));
        }
    }
    v
}

fn tid_hex(k: usize) -> String {
    match catch(|| TypeId::compute_from_dyn(dyn_of(k))) { Ok(t) => hex(t.0.as_bytes()), Err(m) => format!("!PANIC {m}") }
}

/// one op on the installed universe
fn run_op(op: &str, k: usize) -> String {
    match op {
        "lexid" => catch(|| hex(dyn_of(k).lexical_id().0.as_bytes())).unwrap_or_else(|m| format!("!PANIC {m}")),
        "canon" => catch(|| match SerializedValue::serialize(&dyn_of(k).layout()) { Ok(s) => hex(&s), Err(e) => format!("!{e:?}") })
            .unwrap_or_else(|m| format!("!PANIC {m}")),
        "cbytes" => "-".to_string(), // private to the implementation; the check recomputes uuid5 of the model's bytes
        "tid" => tid_hex(k),
        "intro" => match catch(|| Introspection::from_dyn(dyn_of(k))) {
            Err(_) => "!PANIC".to_string(),
            Ok(i) => match SerializedValue::serialize(&i) {
                Err(e) => format!("!{e:?}"),
                Ok(s) => match s.deserialize_as_value() { Ok(v) => fmt_value(&v, true), Err(e) => format!("!de {e:?}") },
            },
        },
        "rt" => match catch(|| Introspection::from_dyn(dyn_of(k))) {
            Err(_) => "!PANIC".to_string(),
            Ok(i) => match SerializedValue::serialize(&i) {
                Err(e) => format!("!{e:?}"),
                Ok(s) => match s.deserialize::<Introspection>() {
                    Err(e) => format!("decode !{e:?}"),
                    Ok(back) => if back == i { format!("ok {}", i.references().len()) } else { "differs".to_string() },
                },
            },
        },
        _ => format!("!UnknownOp {op}"),
    }
}

// ------------------------------------------------------------------ wire descriptor (independent of the code under test)

fn fb_desc(f: &Fb) -> String { match f { None => "-".into(), Some((n, _)) => format!("fb({n:?})") } }
/// everything the property calls wire-relevant, nothing else: no docs, entries keyed by id with the
/// last builder call winning, references as lexical-id terms
fn descriptor(n: &Node) -> String {
    match &n.layout {
        LayoutS::BuiltIn(t) => format!("B {t:?}"),
        LayoutS::Struct { schema, name, fields, fb, .. } => {
            let m: BTreeMap<u32, String> = fields.iter().map(|f| (f.id, format!("{:?} {} {:?}", f.name, f.req, f.ty))).collect();
            format!("S {schema:?} {name:?} {m:?} {}", fb_desc(fb))
        }
        LayoutS::Enum { schema, name, variants, fb, .. } => {
            let m: BTreeMap<u32, String> = variants.iter().map(|v| (v.id, format!("{:?} {:?}", v.name, v.ty))).collect();
            format!("E {schema:?} {name:?} {m:?} {}", fb_desc(fb))
        }
        LayoutS::Newtype { schema, name, target, .. } => format!("T {schema:?} {name:?} {target:?}"),
        LayoutS::Service { schema, name, uuid, version, funcs, events, ffb, efb, .. } => {
            let f: BTreeMap<u32, String> = funcs.iter().map(|f| (f.id, format!("{:?} {:?} {:?} {:?}", f.name, f.args, f.ok, f.err))).collect();
            let e: BTreeMap<u32, String> = events.iter().map(|e| (e.id, format!("{:?} {:?}", e.name, e.ty))).collect();
            format!("V {schema:?} {name:?} {uuid} {version} {f:?} {e:?} {} {}", fb_desc(ffb), fb_desc(efb))
        }
    }
}
fn reachable(u: &[Node], root: usize) -> BTreeSet<usize> {
    // everything the references of `root` lead to (root itself only if referenced)
    let mut seen = BTreeSet::new();
    let mut todo: Vec<usize> = u[root].refs.clone();
    while let Some(k) = todo.pop() { if seen.insert(k) { todo.extend(u[k].refs.iter().copied()); } }
    seen
}
/// same descriptor => same set of referenced descriptors, among the root and everything reachable
/// (what a program has whose types are identified by their schema and name); the expectations of
/// the monitor are stated for such universes only
fn coherent(u: &[Node], root: usize) -> bool {
    let mut seen: BTreeMap<String, BTreeSet<String>> = BTreeMap::new();
    let mut all = reachable(u, root);
    all.insert(root);
    for k in all {
        let rs: BTreeSet<String> = u[k].refs.iter().map(|r| descriptor(&u[*r])).collect();
        if let Some(prev) = seen.get(&descriptor(&u[k])) { if *prev != rs { return false; } }
        seen.insert(descriptor(&u[k]), rs);
    }
    true
}
/// (namespace kind + descriptor of the root, set of descriptors of everything reachable)
fn wire_description(u: &[Node], root: usize) -> (String, BTreeSet<String>) {
    (descriptor(&u[root]), reachable(u, root).into_iter().map(|k| descriptor(&u[k])).collect())
}

// ------------------------------------------------------------------ generator

struct Gen<'a> { r: &'a mut Rng, nodes: Vec<Node>, by_lex: BTreeMap<Lex, usize>, customs: Vec<Lex> }

const NAMES: [&str; 10] = ["Foo", "bar", "Baz9", "x", "Größe", "型", "a_b", "T", "Reply", ""];
const SCHEMAS: [&str; 5] = ["sch", "a.b", "test_schema", "s", ""];

fn gen_doc(r: &mut Rng) -> Option<String> {
    match r.below(4) { 0 | 1 => None, 2 => Some(format!("doc {}", r.below(50))), _ => Some(["", "multi\nline", "ünï", "\"q\""][r.below(4) as usize].to_string()) }
}
fn gen_fb(r: &mut Rng) -> Fb { if r.chance(1, 3) { Some((["Unknown", "fallback", "other"][r.below(3) as usize].to_string(), gen_doc(r))) } else { None } }
fn gen_id(r: &mut Rng) -> u32 {
    match r.below(12) { 0 => 0, 1 => 250 + r.below(10) as u32, 2 => 65535 + r.below(3) as u32, 3 => u32::MAX - r.below(2) as u32, _ => 1 + r.below(9) as u32 }
}

impl<'a> Gen<'a> {
    fn leaf(&mut self) -> Lex {
        if !self.customs.is_empty() && self.r.chance(1, 2) { self.customs[self.r.below(self.customs.len() as u64) as usize].clone() }
        else { Lex::Prim(PRIMS[self.r.below(19) as usize]) }
    }
    fn ty(&mut self, depth: u32) -> Lex {
        if depth == 0 || self.r.chance(1, 2) { return self.leaf(); }
        match self.r.below(9) {
            0..=5 => Lex::Wrap(WRAPS[self.r.below(6) as usize], Box::new(self.ty(depth - 1))),
            6 => { let k = Lex::Prim(["U32", "String", "Uuid", "I8", "U64"][self.r.below(5) as usize]); Lex::Map(Box::new(k), Box::new(self.ty(depth - 1))) }
            7 => { let a = self.ty(depth - 1); let e = self.ty(depth - 1); Lex::Result(Box::new(a), Box::new(e)) }
            _ => { let n = [0u32, 1, 3, 255, 256, 70000, u32::MAX][self.r.below(7) as usize]; Lex::Array(Box::new(self.ty(depth - 1)), n) }
        }
    }
    /// the node for a referenced type (created on demand for built-ins); None when the table is full
    fn node_of(&mut self, t: &Lex) -> Option<usize> {
        if let Some(k) = self.by_lex.get(t) { return Some(*k); }
        if self.nodes.len() >= MAXN - 1 { return None; }
        let k = self.nodes.len();
        self.by_lex.insert(t.clone(), k);
        self.nodes.push(Node { lex: t.clone(), layout: LayoutS::BuiltIn(t.clone()), refs: vec![] });
        let parts: Vec<Lex> = match t {
            Lex::Prim(_) => vec![],
            Lex::Wrap(_, x) | Lex::Array(x, _) => vec![(**x).clone()],
            Lex::Map(a, b) | Lex::Result(a, b) => vec![(**a).clone(), (**b).clone()],
            _ => unreachable!("custom types are registered up front"),
        };
        let refs: Vec<usize> = parts.iter().filter_map(|p| self.node_of(p)).collect();
        self.nodes[k].refs = refs;
        Some(k)
    }
    fn custom_layout(&mut self, schema: &str, name: &str, service: bool) -> (LayoutS, Vec<Lex>) {
        let doc = gen_doc(self.r);
        let mut used = vec![];
        let layout = if service {
            let nf = self.r.below(4); let ne = self.r.below(3);
            let funcs = (0..nf).map(|i| { let mut o = || if self.r.chance(1, 2) { let t = self.ty(2); used.push(t.clone()); Some(t) } else { None };
                let (args, ok, err) = (o(), o(), o()); FuncS { id: gen_id(self.r), name: format!("fn{i}"), doc: gen_doc(self.r), args, ok, err } }).collect();
            let events = (0..ne).map(|i| { let ty = if self.r.chance(1, 2) { let t = self.ty(2); used.push(t.clone()); Some(t) } else { None };
                EventS { id: gen_id(self.r), name: format!("ev{i}"), doc: gen_doc(self.r), ty } }).collect();
            LayoutS::Service { schema: schema.into(), name: name.into(), doc, uuid: Uuid::from_bytes(self.r.bytes(16).try_into().unwrap()),
                version: [0u32, 1, 2, 300, u32::MAX][self.r.below(5) as usize], funcs, events, ffb: gen_fb(self.r), efb: gen_fb(self.r) }
        } else {
            match self.r.below(5) {
                0 | 1 => { let n = self.r.below(5);
                    let fields = (0..n).map(|i| { let ty = self.ty(2); used.push(ty.clone());
                        FieldS { id: gen_id(self.r), name: if self.r.chance(1, 8) { NAMES[self.r.below(10) as usize].into() } else { format!("f{i}") }, doc: gen_doc(self.r), req: self.r.chance(1, 2), ty } }).collect();
                    LayoutS::Struct { schema: schema.into(), name: name.into(), doc, fields, fb: gen_fb(self.r) } }
                2 | 3 => { let n = self.r.below(5);
                    let variants = (0..n).map(|i| { let ty = if self.r.chance(1, 2) { let t = self.ty(2); used.push(t.clone()); Some(t) } else { None };
                        VariantS { id: gen_id(self.r), name: format!("V{i}"), doc: gen_doc(self.r), ty } }).collect();
                    LayoutS::Enum { schema: schema.into(), name: name.into(), doc, variants, fb: gen_fb(self.r) } }
                _ => { let target = self.ty(2); used.push(target.clone()); LayoutS::Newtype { schema: schema.into(), name: name.into(), doc, target } }
            }
        };
        (layout, used)
    }
}

/// the types a layout mentions, in the order `add_references` of generated code visits them
fn mentioned(l: &LayoutS) -> Vec<Lex> {
    match l {
        LayoutS::BuiltIn(t) => match t { Lex::Prim(_) => vec![], Lex::Wrap(_, x) | Lex::Array(x, _) => vec![(**x).clone()], Lex::Map(a, b) | Lex::Result(a, b) => vec![(**a).clone(), (**b).clone()], _ => vec![] },
        LayoutS::Struct { fields, .. } => fields.iter().map(|f| f.ty.clone()).collect(),
        LayoutS::Enum { variants, .. } => variants.iter().filter_map(|v| v.ty.clone()).collect(),
        LayoutS::Newtype { target, .. } => vec![target.clone()],
        LayoutS::Service { funcs, events, .. } => funcs.iter().flat_map(|f| [f.args.clone(), f.ok.clone(), f.err.clone()]).flatten().chain(events.iter().filter_map(|e| e.ty.clone())).collect(),
    }
}

fn gen_family(r: &mut Rng) -> Vec<Node> {
    let nc = 1 + r.below(5) as usize;
    let mut g = Gen { r, nodes: vec![], by_lex: BTreeMap::new(), customs: vec![] };
    // names first (so that layouts may refer to each other, cycles included)
    let mut kinds = vec![];
    for k in 0..nc {
        let schema = SCHEMAS[g.r.below(5) as usize].to_string();
        let name = if g.r.chance(1, 6) { NAMES[g.r.below(10) as usize].to_string() } else { format!("T{k}") };
        let service = g.r.chance(1, 5);
        let lex = if service { Lex::Service(schema.clone(), name.clone()) }
            else if g.r.chance(1, 6) { let n = 1 + g.r.below(3); Lex::Custom(schema.clone(), name.clone(), (0..n).map(|_| Lex::Prim(PRIMS[g.r.below(19) as usize])).collect()) }
            else { Lex::Custom(schema.clone(), name.clone(), vec![]) };
        if g.by_lex.contains_key(&lex) { continue; }
        g.by_lex.insert(lex.clone(), g.nodes.len());
        g.nodes.push(Node { lex: lex.clone(), layout: LayoutS::BuiltIn(Lex::Prim("Unit")), refs: vec![] });
        if !service { g.customs.push(lex.clone()); }
        kinds.push((schema, name, service));
    }
    for k in 0..kinds.len() {
        let (schema, name, service) = kinds[k].clone();
        let (layout, _) = g.custom_layout(&schema, &name, service);
        let refs: Vec<usize> = mentioned(&layout).iter().filter_map(|t| g.node_of(t)).collect();
        g.nodes[k].layout = layout;
        g.nodes[k].refs = refs;
    }
    g.nodes
}

// ---- variations

fn shuffle<T>(r: &mut Rng, v: &mut Vec<T>) { for i in (1..v.len()).rev() { let j = r.below(i as u64 + 1) as usize; v.swap(i, j); } }
fn last_wins<T: Clone>(v: &[T], id: impl Fn(&T) -> u32) -> Vec<T> {
    let mut m: BTreeMap<u32, T> = BTreeMap::new();
    for x in v { m.insert(id(x), x.clone()); }
    m.into_values().collect()
}

/// documentation edits, builder-call order, reference order and multiplicity, declaration order:
/// nothing of this is wire-relevant.  Returns the new universe and the new index of `root`.
fn vary_irrelevant(r: &mut Rng, u: &[Node], root: usize) -> (Vec<Node>, usize) {
    let mut v = u.to_vec();
    for n in v.iter_mut() {
        match &mut n.layout {
            LayoutS::BuiltIn(_) => {}
            LayoutS::Struct { doc, fields, fb, .. } => { *doc = gen_doc(r); *fields = last_wins(fields, |f| f.id); shuffle(r, fields); for f in fields.iter_mut() { f.doc = gen_doc(r); } if let Some(f) = fb { f.1 = gen_doc(r); } }
            LayoutS::Enum { doc, variants, fb, .. } => { *doc = gen_doc(r); *variants = last_wins(variants, |f| f.id); shuffle(r, variants); for f in variants.iter_mut() { f.doc = gen_doc(r); } if let Some(f) = fb { f.1 = gen_doc(r); } }
            LayoutS::Newtype { doc, .. } => { *doc = gen_doc(r); }
            LayoutS::Service { doc, funcs, events, ffb, efb, .. } => { *doc = gen_doc(r); *funcs = last_wins(funcs, |f| f.id); shuffle(r, funcs); for f in funcs.iter_mut() { f.doc = gen_doc(r); }
                *events = last_wins(events, |f| f.id); shuffle(r, events); for f in events.iter_mut() { f.doc = gen_doc(r); } if let Some(f) = ffb { f.1 = gen_doc(r); } if let Some(f) = efb { f.1 = gen_doc(r); } }
        }
        if !n.refs.is_empty() && r.chance(1, 2) { let extra = n.refs[r.below(n.refs.len() as u64) as usize]; n.refs.push(extra); }
        shuffle(r, &mut n.refs);
    }
    // declaration order: permute the table
    let mut order: Vec<usize> = (0..v.len()).collect();
    shuffle(r, &mut order);
    let mut pos = vec![0; v.len()];
    for (new, old) in order.iter().enumerate() { pos[*old] = new; }
    let mut w: Vec<Node> = order.iter().map(|old| v[*old].clone()).collect();
    for n in w.iter_mut() { for x in n.refs.iter_mut() { *x = pos[*x]; } }
    (w, pos[root])
}

/// one wire-relevant edit of node k; returns a description
fn edit_semantic(r: &mut Rng, n: &mut Node) -> &'static str {
    fn flip(t: &mut Lex) { *t = if *t == Lex::Prim("U8") { Lex::Prim("String") } else { Lex::Prim("U8") }; }
    fn oflip(t: &mut Option<Lex>) { *t = match t { Some(_) => None, None => Some(Lex::Prim("U8")) }; }
    fn fbflip(f: &mut Fb) { *f = match f { Some(_) => None, None => Some(("fb".into(), None)) }; }
    match &mut n.layout {
        LayoutS::BuiltIn(t) => match t {
            Lex::Prim(p) => { *p = if *p == "U8" { "I8" } else { "U8" }; "built-in kind" }
            Lex::Wrap(w, x) => if r.chance(1, 2) { *w = if *w == "Option" { "Vec" } else { "Option" }; "wrapper kind" } else { flip(x); "wrapped type" },
            Lex::Map(k, v) => if r.chance(1, 2) { flip(k); "map key type" } else { flip(v); "map value type" },
            Lex::Result(a, e) => if r.chance(1, 2) { flip(a); "result ok type" } else { flip(e); "result err type" },
            Lex::Array(x, len) => if r.chance(1, 2) { flip(x); "array element type" } else { *len = len.wrapping_add(1); "array length" },
            _ => unreachable!(),
        },
        LayoutS::Struct { schema, name, fields, fb, .. } => {
            let nf = fields.len() as u64;
            match r.below(7) {
                0 if nf > 0 => { fields[r.below(nf) as usize].name.push('x'); "field name" }
                1 if nf > 0 => { let ids: HashSet<u32> = fields.iter().map(|f| f.id).collect(); let f = &mut fields[r.below(nf) as usize]; let mut id = f.id.wrapping_add(100); while ids.contains(&id) { id = id.wrapping_add(1); } f.id = id; "field id" }
                2 if nf > 0 => { let f = &mut fields[r.below(nf) as usize]; f.req = !f.req; "required flag" }
                3 if nf > 0 => { flip(&mut fields[r.below(nf) as usize].ty); "field type" }
                4 => { fbflip(fb); "struct fallback" }
                5 => { if let Some(f) = fb { f.0.push('y'); "fallback name" } else { schema.push('q'); "schema name" } }
                _ => { name.push('Z'); "type name" }
            }
        }
        LayoutS::Enum { schema, name, variants, fb, .. } => {
            let nv = variants.len() as u64;
            match r.below(6) {
                0 if nv > 0 => { variants[r.below(nv) as usize].name.push('x'); "variant name" }
                1 if nv > 0 => { let ids: HashSet<u32> = variants.iter().map(|f| f.id).collect(); let f = &mut variants[r.below(nv) as usize]; let mut id = f.id.wrapping_add(100); while ids.contains(&id) { id = id.wrapping_add(1); } f.id = id; "variant id" }
                2 if nv > 0 => { oflip(&mut variants[r.below(nv) as usize].ty); "variant type" }
                3 => { fbflip(fb); "enum fallback" }
                4 => { schema.push('q'); "schema name" }
                _ => { name.push('Z'); "type name" }
            }
        }
        LayoutS::Newtype { name, target, .. } => if r.chance(2, 3) { flip(target); "newtype target" } else { name.push('Z'); "type name" },
        LayoutS::Service { name, uuid, version, funcs, events, ffb, efb, .. } => {
            let nf = funcs.len() as u64; let ne = events.len() as u64;
            match r.below(10) {
                0 if nf > 0 => { funcs[r.below(nf) as usize].name.push('x'); "function name" }
                1 if nf > 0 => { let f = &mut funcs[r.below(nf) as usize]; match r.below(3) { 0 => oflip(&mut f.args), 1 => oflip(&mut f.ok), _ => oflip(&mut f.err) }; "function type" }
                2 if nf > 0 => { let ids: HashSet<u32> = funcs.iter().map(|f| f.id).collect(); let f = &mut funcs[r.below(nf) as usize]; let mut id = f.id.wrapping_add(100); while ids.contains(&id) { id = id.wrapping_add(1); } f.id = id; "function id" }
                3 if ne > 0 => { events[r.below(ne) as usize].name.push('x'); "event name" }
                4 if ne > 0 => { oflip(&mut events[r.below(ne) as usize].ty); "event type" }
                5 => { fbflip(ffb); "function fallback" }
                6 => { fbflip(efb); "event fallback" }
                7 => { *version = version.wrapping_add(1); "service version" }
                8 => { let mut b = *uuid.as_bytes(); b[3] ^= 1; *uuid = Uuid::from_bytes(b); "service uuid" }
                _ => { name.push('Z'); "type name" }
            }
        }
    }
}

// ------------------------------------------------------------------ code generated from a schema

/// the table a real `DynIntrospectable` graph denotes, read through the public accessors of the IR
/// (lexical ids stay opaque uuids); types are told apart by (lexical id, serialized layout)
fn table_from_dyn(root: DynIntrospectable) -> Vec<Node> {
    fn raw(l: LexicalId) -> Lex { Lex::Raw(l.0) }
    fn oraw(l: Option<LexicalId>) -> Option<Lex> { l.map(raw) }
    fn s(x: &str) -> String { x.to_string() }
    fn d(x: Option<&str>) -> Option<String> { x.map(|x| x.to_string()) }
    fn spec(l: &ir::LayoutIr) -> LayoutS {
        use ir::BuiltInTypeIr as B;
        match l {
            ir::LayoutIr::BuiltIn(b) => LayoutS::BuiltIn(match *b {
                B::Bool => Lex::Prim("Bool"), B::U8 => Lex::Prim("U8"), B::I8 => Lex::Prim("I8"), B::U16 => Lex::Prim("U16"),
                B::I16 => Lex::Prim("I16"), B::U32 => Lex::Prim("U32"), B::I32 => Lex::Prim("I32"), B::U64 => Lex::Prim("U64"),
                B::I64 => Lex::Prim("I64"), B::F32 => Lex::Prim("F32"), B::F64 => Lex::Prim("F64"), B::String => Lex::Prim("String"),
                B::Uuid => Lex::Prim("Uuid"), B::ObjectId => Lex::Prim("ObjectId"), B::ServiceId => Lex::Prim("ServiceId"),
                B::Value => Lex::Prim("Value"), B::Bytes => Lex::Prim("Bytes"), B::Lifetime => Lex::Prim("Lifetime"), B::Unit => Lex::Prim("Unit"),
                B::Option(t) => Lex::Wrap("Option", Box::new(raw(t))), B::Box(t) => Lex::Wrap("Box", Box::new(raw(t))),
                B::Vec(t) => Lex::Wrap("Vec", Box::new(raw(t))), B::Set(t) => Lex::Wrap("Set", Box::new(raw(t))),
                B::Sender(t) => Lex::Wrap("Sender", Box::new(raw(t))), B::Receiver(t) => Lex::Wrap("Receiver", Box::new(raw(t))),
                B::Map(m) => Lex::Map(Box::new(raw(m.key())), Box::new(raw(m.value()))),
                B::Result(r) => Lex::Result(Box::new(raw(r.ok())), Box::new(raw(r.err()))),
                B::Array(a) => Lex::Array(Box::new(raw(a.elem_type())), a.len()),
            }),
            ir::LayoutIr::Struct(t) => LayoutS::Struct { schema: s(t.schema()), name: s(t.name()), doc: d(t.doc()),
                fields: t.fields().values().map(|f| FieldS { id: f.id(), name: s(f.name()), doc: d(f.doc()), req: f.is_required(), ty: raw(f.field_type()) }).collect(),
                fb: t.fallback().map(|f| (s(f.name()), d(f.doc()))) },
            ir::LayoutIr::Enum(t) => LayoutS::Enum { schema: s(t.schema()), name: s(t.name()), doc: d(t.doc()),
                variants: t.variants().values().map(|v| VariantS { id: v.id(), name: s(v.name()), doc: d(v.doc()), ty: oraw(v.variant_type()) }).collect(),
                fb: t.fallback().map(|f| (s(f.name()), d(f.doc()))) },
            ir::LayoutIr::Newtype(t) => LayoutS::Newtype { schema: s(t.schema()), name: s(t.name()), doc: d(t.doc()), target: raw(t.target_type()) },
            ir::LayoutIr::Service(t) => LayoutS::Service { schema: s(t.schema()), name: s(t.name()), doc: d(t.doc()), uuid: t.uuid().0, version: t.version(),
                funcs: t.functions().values().map(|f| FuncS { id: f.id(), name: s(f.name()), doc: d(f.doc()), args: oraw(f.args()), ok: oraw(f.ok()), err: oraw(f.err()) }).collect(),
                events: t.events().values().map(|e| EventS { id: e.id(), name: s(e.name()), doc: d(e.doc()), ty: oraw(e.event_type()) }).collect(),
                ffb: t.function_fallback().map(|f| (s(f.name()), d(f.doc()))), efb: t.event_fallback().map(|f| (s(f.name()), d(f.doc()))) },
        }
    }
    let key = |t: DynIntrospectable| (t.lexical_id().0, hex(&SerializedValue::serialize(&t.layout()).unwrap()));
    let mut nodes: Vec<Node> = vec![];
    let mut index: BTreeMap<(Uuid, String), usize> = BTreeMap::new();
    let mut todo: Vec<(usize, DynIntrospectable)> = vec![];
    index.insert(key(root), 0);
    nodes.push(Node { lex: raw(root.lexical_id()), layout: spec(&root.layout()), refs: vec![] });
    todo.push((0, root));
    while let Some((k, t)) = todo.pop() {
        let mut rs = vec![];
        t.add_references(&mut References::new(&mut rs));
        let mut refs = vec![];
        for r in rs {
            let kk = key(r);
            let j = match index.get(&kk) { Some(j) => *j, None => { let j = nodes.len(); index.insert(kk, j);
                nodes.push(Node { lex: raw(r.lexical_id()), layout: spec(&r.layout()), refs: vec![] }); todo.push((j, r)); j } };
            refs.push(j);
        }
        nodes[k].refs = refs;
    }
    nodes
}

#[cfg(feature = "c20-macros")]
mod generated {
    pub mod va { aldrin::generate!("schemas/c20/va/c20s.aldrin", introspection = true); }
    pub mod vb { aldrin::generate!("schemas/c20/vb/c20s.aldrin", introspection = true); }
    pub mod vc { aldrin::generate!("schemas/c20/vc/c20s.aldrin", introspection = true); }
}

/// types generated by `aldrin::generate!` (the code generator's Rust backend + the derive macros) from
/// three variants of one schema: every generated type's graph is read back into a table, the table is
/// run against the model like any other family, and the ids of the generated types themselves are
/// compared across the variants
#[cfg(feature = "c20-macros")]
fn generated_families(out: &mut Out, monitor: &mut Vec<String>, classes: &mut BTreeMap<&'static str, u64>) {
    use generated::{va::c20s as a, vb::c20s as b, vc::c20s as c};
    macro_rules! one { ($name:literal, $t:ident, $changed:expr) => {{
        let (da, db, dc) = (DynIntrospectable::new::<a::$t>(), DynIntrospectable::new::<b::$t>(), DynIntrospectable::new::<c::$t>());
        let (ia, ib, ic) = (TypeId::compute::<a::$t>(), TypeId::compute::<b::$t>(), TypeId::compute::<c::$t>());
        for (variant, dy, id) in [("A", da, ia), ("B", db, ib), ("C", dc, ic)] {
            let table = table_from_dyn(dy);
            let text = universe_text(&table);
            out.universe(&table);
            let mut t0 = String::new();
            for k in 0..table.len() { out.op("lexid", k); out.op("canon", k); let t = out.op("tid", k); if k == 0 { t0 = t; } }
            out.op("cbytes", 0);
            out.op("intro", 0);
            let rt = out.op("rt", 0);
            *classes.entry("generated_types").or_insert(0) += 1;
            if t0 != hex(id.0.as_bytes()) { monitor.push(format!("generated type {} (variant {variant}): TypeId::compute differs from the id of its own IR rebuilt through the builders: {} vs {t0} universe={text} root=0", $name, hex(id.0.as_bytes()))); }
            if !rt.starts_with("ok") { monitor.push(format!("record round trip fails: {rt} (generated type {}, variant {variant}) universe={text} root=0", $name)); }
        }
        let intro = Introspection::new::<a::$t>();
        let back = SerializedValue::serialize(&intro).unwrap().deserialize::<Introspection>();
        if back.as_ref().ok() != Some(&intro) || intro.type_id() != ia { monitor.push(format!("record round trip fails: generated type {} universe={} root=0", $name, universe_text(&table_from_dyn(da)))); }
        if ia != ib { monitor.push(format!("id changed by docs/order: generated type {} has id {} in variant A and {} in variant B universe={} root=0 variant={} vroot=0", $name, hex(ia.0.as_bytes()), hex(ib.0.as_bytes()), universe_text(&table_from_dyn(da)), universe_text(&table_from_dyn(db)))); }
        if (ia != ic) != $changed { monitor.push(format!("wire-relevant edit 'variant type' in the schema: generated type {} id A={} C={} expected {} universe={} root=0 variant={} vroot=0", $name, hex(ia.0.as_bytes()), hex(ic.0.as_bytes()), if $changed { "different" } else { "equal" }, universe_text(&table_from_dyn(da)), universe_text(&table_from_dyn(dc)))); }
    }}; }
    one!("Node", Node, true);
    one!("Tag", Tag, true);
    one!("Wrapper", Wrapper, true);
    one!("Svc", Svc, true);
    one!("Leaf", Leaf, false);
    one!("Color", Color, false);
    one!("Holder", Holder, false);
}
#[cfg(not(feature = "c20-macros"))]
fn generated_families(_out: &mut Out, _monitor: &mut Vec<String>, classes: &mut BTreeMap<&'static str, u64>) {
    *classes.entry("generated_types_not_compiled_in").or_insert(0) += 1;
}

// ------------------------------------------------------------------ hand-written types through the derive macros

#[cfg(feature = "c20-macros")]
#[path = "../intro_types.rs"]
mod intro_types;

/// Derive-consistency stream: for a fixed family of hand-written types (`intro_types.rs`) what the
/// `Introspectable` derive says (ids, required flags, fallback; hence the type id) is compared with
/// what the `Serialize`/`Deserialize` derives of the same type do on the wire.  Rust only; the
/// derived layouts are also written to cases.txt so that the model sees them.
#[cfg(feature = "c20-macros")]
mod derive_stream {
    use super::intro_types::{self, Case, Probe, Typed};
    use super::*;
    use aldrin_core::{Enum as VEnum, Struct as VStruct, Value};
    use std::collections::HashMap;

    pub type Stats = BTreeMap<&'static str, u64>;
    fn bump(st: &mut Stats, k: &'static str, n: u64) { *st.entry(k).or_insert(0) += n; }

    /// what the derive put into the IR: (name, id, required), fallback name
    #[derive(Debug, Default, Clone)]
    struct Said { kind: &'static str, items: Vec<(String, u32, bool)>, fallback: Option<String>, target: Option<Lex> }
    fn said(root: &Node) -> Said {
        match &root.layout {
            LayoutS::Struct { fields, fb, .. } => Said { kind: "struct", items: fields.iter().map(|f| (f.name.clone(), f.id, f.req)).collect(), fallback: fb.as_ref().map(|f| f.0.clone()), target: None },
            LayoutS::Enum { variants, fb, .. } => Said { kind: "enum", items: variants.iter().map(|v| (v.name.clone(), v.id, true)).collect(), fallback: fb.as_ref().map(|f| f.0.clone()), target: None },
            LayoutS::Newtype { target, .. } => Said { kind: "newtype", items: vec![], fallback: None, target: Some(target.clone()) },
            LayoutS::BuiltIn(_) => Said { kind: "built-in", ..Default::default() },
            LayoutS::Service { .. } => Said { kind: "service", ..Default::default() },
        }
    }
    fn table_text(t: &[(String, u32)]) -> String {
        let mut v: Vec<String> = t.iter().map(|(n, i)| format!("{n}@{i}")).collect();
        v.sort();
        format!("[{}]", v.join(" "))
    }
    fn as_set(t: &[(String, u32)]) -> BTreeSet<(String, u32)> { t.iter().cloned().collect() }
    fn unused_id(used: &[(String, u32)], said: &Said) -> u32 {
        let mut id = 3_000_000_017u32;
        while used.iter().any(|(_, i)| *i == id) || said.items.iter().any(|(_, i, _)| *i == id) { id += 1; }
        id
    }

    /// the root with the ids `ids` (by name, in this order); member types, flags and docs as introspected
    fn retable(table: &[Node], ids: &[(String, u32)]) -> Vec<Node> {
        let mut t = table.to_vec();
        match &mut t[0].layout {
            LayoutS::Struct { fields, .. } => {
                let old = fields.clone();
                *fields = ids.iter().map(|(n, id)| match old.iter().find(|f| f.name == *n) {
                    Some(f) => FieldS { id: *id, ..f.clone() },
                    None => FieldS { id: *id, name: n.clone(), doc: None, req: true, ty: Lex::Prim("Unit") } }).collect();
            }
            LayoutS::Enum { variants, .. } => {
                let old = variants.clone();
                *variants = ids.iter().map(|(n, id)| match old.iter().find(|v| v.name == *n) {
                    Some(v) => VariantS { id: *id, ..v.clone() },
                    None => VariantS { id: *id, name: n.clone(), doc: None, ty: None } }).collect();
            }
            _ => {}
        }
        t
    }

    pub struct Seen { pub table: Vec<Node>, pub wire: Vec<(String, u32)>, pub tid: String }

    /// all checks that concern one derived type; `fail(what, variant table)` records a violation
    fn check_typed(label: &str, t: &Typed, out: &mut Out, monitor: &mut Vec<String>, st: &mut Stats) -> Seen {
        let table = table_from_dyn(t.dy);
        let text = universe_text(&table);
        let tid = hex(t.tid.0.as_bytes());
        let mut fail = |what: String, variant: Option<&[Node]>| {
            let v = variant.map(|v| format!(" variant={} vroot=0", universe_text(v))).unwrap_or_default();
            monitor.push(format!("derive consistency: {label}: {what} universe={text} root=0{v}"));
        };
        // ---- the derived layout graph goes to the model like any family
        out.universe(&table);
        let mut t0 = String::new();
        for k in 0..table.len() { out.op("lexid", k); out.op("canon", k); let x = out.op("tid", k); if k == 0 { t0 = x; } }
        out.op("cbytes", 0);
        out.op("intro", 0);
        let rt = out.op("rt", 0);
        bump(st, "types_checked", 1);
        bump(st, "layout_nodes_sent_to_the_model", table.len() as u64);
        if t0 != tid { fail(format!("TypeId::compute gives {tid}, the IR read back and rebuilt through the builders gives {t0}"), None); }
        if !rt.starts_with("ok") { fail(format!("record round trip fails: {rt}"), None); }

        let said = said(&table[0]);
        let said_ids: Vec<(String, u32)> = said.items.iter().map(|(n, i, _)| (n.clone(), *i)).collect();
        let mut wire: Vec<(String, u32)> = vec![];
        let declared_fb: Option<String>;
        match &t.probe {
            Probe::Struct { full, by_ref, fields, fallback } => {
                declared_fb = fallback.map(|s| s.to_string());
                if said.kind != "struct" { fail(format!("a struct is introspected as a {}", said.kind), None); }
                for (i, a) in fields.iter().enumerate() { for b in &fields[i + 1..] { assert!(a.1 != b.1, "harness: fields {} and {} of {label} carry the same content", a.0, b.0); } }
                if by_ref != full { fail("`&T` and `T` serialize differently".into(), None); }
                let map: HashMap<u32, Value> = match full.deserialize_as_value() {
                    Ok(Value::Struct(VStruct(m))) => m,
                    other => { fail(format!("the derived Serialize does not write a struct: {other:?}"), None); HashMap::new() }
                };
                for (name, content) in fields {
                    let ids: Vec<u32> = map.iter().filter(|(_, v)| *v == content).map(|(k, _)| *k).collect();
                    if ids.len() == 1 { wire.push((name.to_string(), ids[0])); } else { fail(format!("field {name} is on the wire {} times", ids.len()), None); }
                }
                if map.len() != fields.len() { fail(format!("{} fields declared, {} ids on the wire", fields.len(), map.len()), None); }
                bump(st, "struct_fields_compared", wire.len() as u64);
                // the value goes through the derived Deserialize and back unchanged
                match (t.redecode)(full).map(|s| s.deserialize_as_value()) {
                    Some(Ok(Value::Struct(VStruct(m)))) if m == map => {}
                    other => fail(format!("full value does not survive Deserialize + Serialize: {other:?}"), None),
                }
                // optional-ness: a value lacking one field decodes iff the introspection calls the field optional
                for (name, id) in &wire {
                    let Some((_, _, req)) = said.items.iter().find(|(n, _, _)| n == name) else { continue };
                    let mut m = map.clone();
                    m.remove(id);
                    let lacking = SerializedValue::serialize(Value::Struct(VStruct(m))).unwrap();
                    let accepted = (t.redecode)(&lacking).is_some();
                    bump(st, if accepted { "lacking_field_accepted" } else { "lacking_field_rejected" }, 1);
                    if accepted == *req { fail(format!("field {name}@{id} is introspected as {} but a value lacking it is {} by the derived Deserialize",
                        if *req { "required" } else { "optional" }, if accepted { "accepted" } else { "rejected" }), None); }
                }
                // fallback: an unknown field is always tolerated and is kept exactly when there is a fallback field
                let u = unused_id(&wire, &said);
                let mut m = map.clone();
                m.insert(u, Value::U8(1));
                let extra = SerializedValue::serialize(Value::Struct(VStruct(m))).unwrap();
                let kept = match (t.redecode)(&extra).map(|s| s.deserialize_as_value()) {
                    Some(Ok(Value::Struct(VStruct(m)))) => Some(m.contains_key(&u)),
                    _ => None,
                };
                bump(st, match kept { Some(true) => "unknown_field_kept", Some(false) => "unknown_field_dropped", None => "unknown_field_rejected" }, 1);
                if kept != Some(declared_fb.is_some()) { fail(format!("unknown field {u}: kept={kept:?}, fallback field declared: {declared_fb:?}"), None); }
            }
            Probe::Enum { variants, fallback } => {
                declared_fb = fallback.map(|s| s.to_string());
                if said.kind != "enum" { fail(format!("an enum is introspected as a {}", said.kind), None); }
                for (name, bytes, by_ref) in variants {
                    if by_ref != bytes { fail(format!("variant {name}: `&T` and `T` serialize differently"), None); }
                    match bytes.deserialize_as_value() {
                        Ok(Value::Enum(e)) => wire.push((name.to_string(), e.id)),
                        other => fail(format!("variant {name}: the derived Serialize does not write an enum: {other:?}"), None),
                    }
                    if (t.redecode)(bytes).as_ref() != Some(bytes) { fail(format!("variant {name} does not survive Deserialize + Serialize"), None); }
                }
                bump(st, "enum_variants_compared", wire.len() as u64);
                // fallback: an unknown variant decodes (and is passed on unchanged) exactly when there is a fallback variant
                let u = unused_id(&wire, &said);
                let unknown = SerializedValue::serialize(Value::Enum(Box::new(VEnum::new(u, Value::U8(1))))).unwrap();
                let back = (t.redecode)(&unknown);
                bump(st, if back.is_some() { "unknown_variant_accepted" } else { "unknown_variant_rejected" }, 1);
                if back.is_some() != declared_fb.is_some() || back.as_ref().is_some_and(|b| *b != unknown) {
                    fail(format!("unknown variant {u}: accepted={}, fallback variant declared: {declared_fb:?}", back.is_some()), None);
                }
            }
            Probe::Newtype { value, by_ref, inner, target } => {
                declared_fb = None;
                bump(st, "newtypes_compared", 1);
                if by_ref != value { fail("`&T` and `T` serialize differently".into(), None); }
                if said.kind != "newtype" || said.target != Some(Lex::Raw(target.0)) { fail(format!("newtype over {}: introspected as {} with target {:?}", target.0, said.kind, said.target), None); }
                match value.deserialize_as_value() { Ok(v) if v == *inner => {}, other => fail(format!("a newtype must serialize as its field {inner:?}: {other:?}"), None) }
                if (t.redecode)(value).as_ref() != Some(value) { fail("value does not survive Deserialize + Serialize".into(), None); }
            }
        }
        if said.fallback != declared_fb { fail(format!("fallback introspected as {:?}, declared as {declared_fb:?}", said.fallback), None); }

        // ---- the two id tables agree; the id is the id of the wire layout and not of the positional one
        if !matches!(t.probe, Probe::Newtype { .. }) {
            let twin = retable(&table, &wire);
            if as_set(&said_ids) != as_set(&wire) || said_ids.len() != wire.len() {
                fail(format!("ids in the introspection {} differ from the ids on the wire {}", table_text(&said_ids), table_text(&wire)), Some(&twin));
            }
            if twin.len() <= MAXN {
                out.universe(&twin);
                let tt = out.op("tid", 0);
                bump(st, "wire_layout_rebuilt_by_hand", 1);
                if tt != tid { fail(format!("TypeId {tid} is not the id {tt} of the layout the wire uses {}", table_text(&wire)), Some(&twin)); }
                // two other layouts a wrong default rule would give: every id = the position; the position only
                // where the id could be a default (= previous id + 1), i.e. "the default id is the position"
                let pos: Vec<(String, u32)> = wire.iter().enumerate().map(|(i, (n, _))| (n.clone(), i as u32)).collect();
                let posdef: Vec<(String, u32)> = wire.iter().enumerate().map(|(i, (n, id))| {
                    let default = if i == 0 { 0 } else { wire[i - 1].1.wrapping_add(1) };
                    (n.clone(), if *id == default { i as u32 } else { *id }) }).collect();
                for (what, alt) in [("positional layout", &pos), ("layout whose default id is the position", &posdef)] {
                    let distinct: BTreeSet<u32> = alt.iter().map(|(_, i)| *i).collect();
                    if *alt == wire || distinct.len() != alt.len() || (what.starts_with("layout") && posdef == pos) { continue; }
                    let atab = retable(&table, alt);
                    out.universe(&atab);
                    let ta = out.op("tid", 0);
                    bump(st, "other_layouts_rebuilt_by_hand", 1);
                    if ta == tid { fail(format!("TypeId {tid} is the id of the {what} {}, the wire uses {}", table_text(alt), table_text(&wire)), Some(&atab)); }
                }
            }
        }
        Seen { table, wire, tid }
    }

    fn check_case(c: &Case, out: &mut Out, monitor: &mut Vec<String>, st: &mut Stats) {
        let w = check_typed(&format!("w::{}", c.name), &c.w, out, monitor, st);
        let positions: Vec<(String, u32)> = w.wire.iter().enumerate().map(|(i, (n, _))| (n.clone(), i as u32)).collect();
        bump(st, if positions == w.wire { "types_whose_ids_are_the_positions" } else { "types_whose_ids_differ_from_the_positions" }, 1);
        let wtext = universe_text(&w.table);
        if let Some(x) = &c.x {
            let s = check_typed(&format!("x::{}", c.name), x, out, monitor, st);
            bump(st, "derived_explicit_twins", 1);
            if s.wire != w.wire { monitor.push(format!("derive consistency: {}: as written the wire ids are {}, the documented default (previous id + 1) spelled out gives {} universe={wtext} root=0 variant={} vroot=0",
                c.name, table_text(&w.wire), table_text(&s.wire), universe_text(&s.table))); }
            if s.tid != w.tid { monitor.push(format!("derive consistency: {}: same wire layout {}, different TypeId: as written {}, with every id spelled out {} universe={wtext} root=0 variant={} vroot=0",
                c.name, table_text(&w.wire), w.tid, s.tid, universe_text(&s.table))); }
        }
        if let Some(q) = &c.q {
            let s = check_typed(&format!("q::{}", c.name), q, out, monitor, st);
            bump(st, "derived_position_as_default_twins", 1);
            assert!(s.wire != w.wire, "harness: q::{} has the wire ids of w::{}", c.name, c.name);
            if s.tid == w.tid { monitor.push(format!("derive consistency: {}: different wire layouts ({} as written, {} for the twin whose default id is the position), same TypeId {} universe={wtext} root=0 variant={} vroot=0",
                c.name, table_text(&w.wire), table_text(&s.wire), w.tid, universe_text(&s.table))); }
        }
        if let Some(p) = &c.p {
            let s = check_typed(&format!("p::{}", c.name), p, out, monitor, st);
            bump(st, "derived_position_twins", 1);
            if s.wire != positions { monitor.push(format!("derive consistency: {}: every id spelled out as the position, but the wire ids are {} universe={wtext} root=0 variant={} vroot=0",
                c.name, table_text(&s.wire), universe_text(&s.table))); }
            assert!(positions != w.wire, "harness: {} has a position twin but its ids are the positions", c.name);
            if s.tid == w.tid { monitor.push(format!("derive consistency: {}: different wire layouts ({} as written, {} for the position twin), same TypeId {} universe={wtext} root=0 variant={} vroot=0",
                c.name, table_text(&w.wire), table_text(&s.wire), w.tid, universe_text(&s.table))); }
        }
    }

    pub fn run(out: &mut Out, monitor: &mut Vec<String>, st: &mut Stats) {
        let before = monitor.len();
        match catch(intro_types::cases) {
            Err(m) => monitor.push(format!("derive consistency: building the probes with the derived Serialize panicked: {m} universe=U 0 root=0")),
            Ok(cases) => for c in &cases {
                bump(st, "hand_written_types", 1);
                let mut local = vec![];
                if let Err(m) = catch(|| check_case(c, out, &mut local, st)) { local.push(format!("derive consistency: {}: checks panicked: {m} universe=U 0 root=0", c.name)); }
                monitor.extend(local);
            }
        }
        bump(st, "monitor_failures", (monitor.len() - before) as u64);
    }
}

#[cfg(feature = "c20-macros")]
fn derive_consistency(out: &mut Out, monitor: &mut Vec<String>, st: &mut BTreeMap<&'static str, u64>) { derive_stream::run(out, monitor, st); }
#[cfg(not(feature = "c20-macros"))]
fn derive_consistency(_out: &mut Out, _monitor: &mut Vec<String>, st: &mut BTreeMap<&'static str, u64>) { st.insert("not_compiled_in", 1); }

/// `intro derive <outdir>`: the derive-consistency stream alone (replay of its violations): cases.txt,
/// impl.txt and monitor.txt as `gen` writes them; the monitor lines also go to stdout
fn derive_only(outdir: &str) {
    std::fs::create_dir_all(outdir).unwrap();
    let mut out = Out { cases: std::io::BufWriter::new(std::fs::File::create(format!("{outdir}/cases.txt")).unwrap()),
                        imp: std::io::BufWriter::new(std::fs::File::create(format!("{outdir}/impl.txt")).unwrap()), n: 0 };
    let mut monitor: Vec<String> = vec![];
    let mut st: BTreeMap<&'static str, u64> = BTreeMap::new();
    derive_consistency(&mut out, &mut monitor, &mut st);
    out.cases.flush().unwrap();
    out.imp.flush().unwrap();
    std::fs::write(format!("{outdir}/monitor.txt"), monitor.iter().map(|l| l.replace('\n', " ") + "\n").collect::<String>()).unwrap();
    for l in &monitor { println!("{}", l.split(" universe=").next().unwrap_or(l)); }
    println!("derive consistency: {} failure(s); {}", monitor.len(), st.iter().map(|(k, v)| format!("{k}={v}")).collect::<Vec<_>>().join(" "));
}

// ------------------------------------------------------------------ main

struct Out { cases: std::io::BufWriter<std::fs::File>, imp: std::io::BufWriter<std::fs::File>, n: u64 }
impl Out {
    fn universe(&mut self, u: &[Node]) { install(u); writeln!(self.cases, "{}", universe_text(u)).unwrap(); writeln!(self.imp, "ok").unwrap(); self.n += 1; }
    fn op(&mut self, op: &str, k: usize) -> String { let a = run_op(op, k); writeln!(self.cases, "{op} {k}").unwrap(); writeln!(self.imp, "{a}").unwrap(); self.n += 1; a }
}

fn gen(outdir: &str, families: u64) {
    let seed = env_u64("VERIF_SEED", 1);
    let mut r = Rng::new(seed);
    std::fs::create_dir_all(outdir).unwrap();
    let mut out = Out { cases: std::io::BufWriter::new(std::fs::File::create(format!("{outdir}/cases.txt")).unwrap()),
                        imp: std::io::BufWriter::new(std::fs::File::create(format!("{outdir}/impl.txt")).unwrap()), n: 0 };
    let mut monitor: Vec<String> = vec![];
    let mut distinct = HashSet::new();
    let mut samples: Vec<String> = vec![];
    let mut st: BTreeMap<&'static str, u64> = BTreeMap::new();
    let mut kinds: BTreeMap<String, u64> = BTreeMap::new();
    let mut edits: BTreeMap<String, u64> = BTreeMap::new();
    let mut classes: BTreeMap<&'static str, u64> = BTreeMap::new();
    let bump = |m: &mut BTreeMap<&'static str, u64>, k: &'static str| *m.entry(k).or_insert(0) += 1;
    for _ in 0..families {
        let u = gen_family(&mut r);
        let root = 0usize;
        bump(&mut st, "families");
        *st.entry("nodes").or_insert(0) += u.len() as u64;
        for n in &u { let k = match &n.layout { LayoutS::BuiltIn(Lex::Prim(_)) => "builtin_prim", LayoutS::BuiltIn(_) => "builtin_wrapper", LayoutS::Struct { .. } => "struct", LayoutS::Enum { .. } => "enum", LayoutS::Newtype { .. } => "newtype", LayoutS::Service { .. } => "service" }; *kinds.entry(k.to_string()).or_insert(0) += 1; }
        // cyclic?
        let reach = reachable(&u, root);
        if reach.contains(&root) { bump(&mut st, "root_on_a_cycle"); }
        let text = universe_text(&u);
        if distinct.insert(text.clone()) && u.len() >= 2 { bump(&mut st, "distinct_nontrivial"); if samples.len() < 4 { samples.push(if text.len() > 600 { format!("{}...", &text[..600]) } else { text.clone() }); } }

        // ---- base universe: every observable of every node
        out.universe(&u);
        let mut tids = vec![];
        for k in 0..u.len() { out.op("lexid", k); out.op("canon", k); tids.push(out.op("tid", k)); }
        out.op("cbytes", root);
        let intro = out.op("intro", root);
        let rt = out.op("rt", root);
        bump(&mut classes, if intro.starts_with('!') { "introspection_panics" } else { "introspection_ok" });
        if !rt.starts_with("ok") { monitor.push(format!("record round trip fails: {rt} universe={text} root={root}")); }
        // references resolve (on the implementation alone)
        if let Ok(i) = catch(|| Introspection::from_dyn(dyn_of(root))) {
            let refs = i.references();
            let missing = layout_type_ids(i.layout()).into_iter().filter(|t| !refs.contains(t)).count();
            let direct: HashSet<TypeId> = u[root].refs.iter().map(|k| TypeId::compute_from_dyn(dyn_of(*k))).collect();
            if missing > 0 || *refs != direct || hex(i.type_id().0.as_bytes()) != tids[root] {
                monitor.push(format!("references do not resolve: missing={missing} universe={text} root={root}"));
            }
        }
        let base = tids[root].clone();
        if !coherent(&u, root) { bump(&mut st, "incoherent_families"); continue; }
        let base_desc = wire_description(&u, root);

        // ---- wire-irrelevant variations keep the id
        for _ in 0..2 {
            let (v, vroot) = vary_irrelevant(&mut r, &u, root);
            if wire_description(&v, vroot) != base_desc { panic!("harness: irrelevant variation changed the wire description"); }
            out.universe(&v);
            let t = out.op("tid", vroot);
            bump(&mut st, "irrelevant_variations");
            if t != base { monitor.push(format!("id changed by docs/order: base={base} now={t} universe={text} root={root} variant={} vroot={vroot}", universe_text(&v))); }
        }
        // ---- single wire-relevant edits: the id changes iff the wire description changes
        for _ in 0..4 {
            // two thirds of the edits hit a schema-defined type, the rest any table entry
            let customs: Vec<usize> = (0..u.len()).filter(|k| !matches!(u[*k].layout, LayoutS::BuiltIn(_))).collect();
            let k = if !customs.is_empty() && r.chance(2, 3) { customs[r.below(customs.len() as u64) as usize] } else { r.below(u.len() as u64) as usize };
            let mut v = u.clone();
            let what = edit_semantic(&mut r, &mut v[k]);
            *edits.entry(what.to_string()).or_insert(0) += 1;
            let changed = wire_description(&v, root) != base_desc;
            out.universe(&v);
            let t = out.op("tid", root);
            bump(&mut st, if k == root || reach.contains(&k) { "edits_reachable" } else { "edits_unreachable" });
            if !coherent(&v, root) { bump(&mut st, "edits_leaving_incoherent_universe"); continue; }
            if changed && t == base { monitor.push(format!("wire-relevant edit '{what}' of node {k} did not change the id {base}: universe={text} root={root} variant={}", universe_text(&v))); }
            if !changed && t != base { monitor.push(format!("edit '{what}' of unreachable node {k} changed the id: base={base} now={t} universe={text} root={root} variant={}", universe_text(&v))); }
        }
        // ---- error paths: a reference left out (Introspection::new panics), a lexical id claimed twice
        if r.chance(1, 6) && !u[root].refs.is_empty() {
            let mut v = u.clone();
            let i = r.below(v[root].refs.len() as u64) as usize; let gone = v[root].refs[i];
            v[root].refs.retain(|x| *x != gone);
            out.universe(&v);
            out.op("tid", root);
            let a = out.op("intro", root);
            bump(&mut classes, if a.starts_with('!') { "incomplete_refs_panics" } else { "incomplete_refs_ok" });
        }
        if r.chance(1, 8) && u.len() >= 2 && u.len() < MAXN {
            // a second type claiming the lexical id of an existing reference, with another layout
            let mut v = u.clone();
            if let Some(&first) = v[root].refs.first() {
                let mut clone = v[first].clone();
                edit_semantic(&mut r, &mut clone);
                clone.lex = v[first].lex.clone();
                v.push(clone);
                let k = v.len() - 1;
                v[root].refs.push(k);
                out.universe(&v);
                let a = out.op("intro", root);
                bump(&mut classes, if a.starts_with('!') { "lexical_clash_panics" } else { "lexical_clash_ok" });
            }
        }
    }
    // ---- outside the hypothesis `coherent`: two types claim sch::Node with the same layout but reference
    // different element types; the id of the root then depends on the order its references are pushed
    // (the model predicts this: Example C20_incoherent_order_matters).  Recorded, not a violation.
    {
        let nt = |name: &str, target: Lex| LayoutS::Newtype { schema: "sch".into(), name: name.into(), doc: None, target };
        let c = |n: &str| Lex::Custom("sch".into(), n.into(), vec![]);
        let mk = |order: [usize; 2]| vec![
            Node { lex: c("Root"), layout: nt("Root", c("Node")), refs: order.to_vec() },
            Node { lex: c("Node"), layout: nt("Node", c("Elem")), refs: vec![3] },
            Node { lex: c("Node"), layout: nt("Node", c("Elem")), refs: vec![4] },
            Node { lex: c("Elem"), layout: LayoutS::BuiltIn(Lex::Prim("U8")), refs: vec![] },
            Node { lex: c("Elem"), layout: LayoutS::BuiltIn(Lex::Prim("Bool")), refs: vec![] },
        ];
        out.universe(&mk([1, 2]));
        let a = out.op("tid", 0);
        out.universe(&mk([2, 1]));
        let b = out.op("tid", 0);
        bump(&mut classes, if a != b { "incoherent_probe_id_depends_on_push_order" } else { "incoherent_probe_id_stable" });
    }
    generated_families(&mut out, &mut monitor, &mut classes);
    let mut derive_st: BTreeMap<&'static str, u64> = BTreeMap::new();
    derive_consistency(&mut out, &mut monitor, &mut derive_st);
    out.cases.flush().unwrap();
    out.imp.flush().unwrap();
    std::fs::write(format!("{outdir}/monitor.txt"), monitor.iter().map(|l| l.replace('\n', " ") + "\n").collect::<String>()).unwrap();
    let js = |m: &BTreeMap<String, u64>| m.iter().map(|(k, v)| format!("\"{k}\":{v}")).collect::<Vec<_>>().join(",");
    let mut s = String::new();
    write!(s, "{{\"seed\":{seed},\"ops\":{},", out.n).unwrap();
    for (k, v) in &st { write!(s, "\"{k}\":{v},").unwrap(); }
    write!(s, "\"layout_kinds\":{{{}}},\"edit_kinds\":{{{}}},", js(&kinds), js(&edits)).unwrap();
    write!(s, "\"result_classes\":{{{}}},", classes.iter().map(|(k, v)| format!("\"{k}\":{v}")).collect::<Vec<_>>().join(",")).unwrap();
    write!(s, "\"derive_consistency\":{{{}}},", derive_st.iter().map(|(k, v)| format!("\"{k}\":{v}")).collect::<Vec<_>>().join(",")).unwrap();
    write!(s, "\"samples\":[{}]}}", samples.iter().map(|x| format!("\"{}\"", x.replace('\\', "\\\\").replace('"', "\\\""))).collect::<Vec<_>>().join(",")).unwrap();
    std::fs::write(format!("{outdir}/stats.json"), s).unwrap();
}

fn run(cases: &str, outp: &str) {
    let f = std::io::BufReader::new(std::fs::File::open(cases).unwrap());
    let mut o = std::io::BufWriter::new(std::fs::File::create(outp).unwrap());
    for line in f.lines() {
        let line = line.unwrap();
        let a = if line.starts_with("U ") { match catch(|| parse_universe(&line)) { Ok(u) => { install(&u); "ok".to_string() } Err(m) => format!("!PARSE {m}") } }
            else if let Some((op, k)) = line.split_once(' ') { run_op(op, k.parse().unwrap_or(usize::MAX)) } else { format!("!UnknownOp {line}") };
        writeln!(o, "{a}").unwrap();
    }
}

fn main() {
    quiet_panics();
    let a: Vec<String> = std::env::args().collect();
    match a.get(1).map(|s| s.as_str()) {
        Some("gen") => gen(&a[2], a[3].parse().unwrap()),
        Some("run") => run(&a[2], &a[3]),
        Some("derive") => derive_only(&a[2]),
        _ => { eprintln!("usage: intro gen <outdir> <families> | intro run <cases> <impl-out> | intro derive <outdir>"); std::process::exit(2) }
    }
}
