//! C05 harness: ONE established aldrin channel end to end, on the REAL code.
//!
//! `chanflow gen <outdir> <ncases> <maxsteps>` (env `VERIF_SEED`, default 1) writes
//!   cases.txt    `new <seed> <cap> <same>` then one step per line (read by extract/credit_driver.ml)
//!   impl.txt     line-aligned: `<obs> | sb=.. rb=.. bs=.. br=.. | cs=.. cr=..`
//!   monitor.txt  property violations seen on the implementation alone:
//!                `<class>\t<case seed> <cap> <same> <maxsteps>\t<detail>` (empty when clean)
//!   stats.json   measured distribution
//! `chanflow one <caseseed> <maxsteps>` runs one case and prints `case-line  =>  impl-line` and
//! the monitor verdicts (a case is a function of `<caseseed> <maxsteps>` only).
//!
//! A world: a real `Broker` (`broker.run()`), one (`same`=1) or two real `Client`s, each with its
//! `Connection::run` and `Client::run` task, on a deterministic single-threaded executor (flag
//! wakers, `settle` = poll flagged tasks until none is flagged).  Between each client and the broker
//! sits an in-memory transport (`channel::unbounded()` / `channel::bounded(k)`); its client end is
//! wrapped in `Gate`, which after the channel is established HOLDS every message in both directions:
//! client->broker messages wait in `up` until the harness releases the head (`brokerS`/`brokerR`),
//! broker->client messages wait in `down` until the harness grants one permit (`clientS`/
//! `clientR`).  The applications are not tasks: the harness calls the real `Sender`/`Receiver`
//! methods itself and settles.  Steps: `send <v>` (`poll_send_ready`, then `start_send_item`),
//! `readyS` (`poll_send_ready` alone), `probeS` (`poll_receiver_closed`, the select! companion of
//! send: it drains the SAME `capacity_added` stream), `recv` (`poll_next_item`), `closeS`/`closeR`
//! (`poll_close`), `dropS`/`dropR`, `brokerS`/`brokerR`, `clientS`/`clientR`.  The Sender is never
//! polled behind the schedule's back (only a started close future is re-polled for `cs`/`cr`).
//! After every step the four held queues and the two close futures are printed; the extracted Coq
//! model (Proto/Credit.v) prints the same line.
//!
//! Monitor classes (Rust side only): ORDER (received is a prefix of sent at every recv), COMPLETE
//! (receiver never closed/dropped => after the drain received == sent; else a prefix), CUT
//! (`send`/`readyS` -> err while neither application closed or dropped its end), CLOSE-ERR (a
//! close future resolved to Err), CAPACITY (AddChannelCapacity 0 on the wire), STALL (after
//! the drain, nobody closed, nothing in flight, but `readyS` is not ok), STARVE (3 further rounds of
//! `readyS`; `send`; drain: every `readyS` must be ok), and the abort classes
//! PANIC <file:line> / RUN <kind> / HANG <tasks> / BUDGET / LINK / FOREIGN-MSG / START-SEND /
//! RECV-ERR / SETUP.  An aborted case stops emitting lines (cases.txt and impl.txt stay aligned).
//! Env CHANFLOW_FAULT=dup-item|drop-item|drop-credit|panic is a SELF-TEST switch that disturbs one
//! broker->client delivery per case inside `Gate` (shows that the monitors and the abort path work).
//!
//! The schedule is generated online (a step is only generated when it is enabled in the real
//! world), all randomness from `Rng::new(case seed)`.
use aldrin::core::channel::{self, Disconnected};
use aldrin::core::message::{CloseChannelEndResult, Message};
use aldrin::core::transport::AsyncTransport;
use aldrin::core::{ChannelCookie, ChannelEnd};
use aldrin::error::RunError;
use aldrin::low_level::{Receiver, Sender};
use aldrin::{Client, Handle};
use aldrin_broker::{Broker, BrokerHandle};
use std::cell::RefCell;
use std::collections::hash_map::DefaultHasher;
use std::collections::{BTreeMap, HashSet, VecDeque};
use std::fmt::Write as _;
use std::future::{poll_fn, Future};
use std::hash::{Hash, Hasher};
use std::io::Write;
use std::panic::{catch_unwind, AssertUnwindSafe};
use std::pin::Pin;
use std::rc::Rc;
use std::sync::atomic::{AtomicBool, AtomicU8, Ordering};
use std::sync::{Arc, Mutex};
use std::task::{Context, Poll, Wake, Waker};
use verif_harness::{env_u64, Rng};

// ------------------------------------------------------------------------------------------
// executor plumbing

type Task = Pin<Box<dyn Future<Output = ()>>>;
type Tx = Box<dyn AsyncTransport<Error = Disconnected> + Unpin>;

struct Flag(AtomicBool);
impl Wake for Flag {
    fn wake(self: Arc<Self>) {
        self.0.store(true, Ordering::SeqCst);
    }
    fn wake_by_ref(self: &Arc<Self>) {
        self.0.store(true, Ordering::SeqCst);
    }
}

struct Noop;
impl Wake for Noop {
    fn wake(self: Arc<Self>) {}
}
fn noop_waker() -> Waker {
    Arc::new(Noop).into()
}

static LAST_PANIC: Mutex<Option<String>> = Mutex::new(None);

fn install_hook() {
    std::panic::set_hook(Box::new(|info| {
        let loc = info.location().map(|l| format!("{}:{}", l.file(), l.line())).unwrap_or_default();
        let msg = if let Some(s) = info.payload().downcast_ref::<String>() {
            s.clone()
        } else if let Some(s) = info.payload().downcast_ref::<&str>() {
            s.to_string()
        } else {
            "panic".to_string()
        };
        *LAST_PANIC.lock().unwrap() = Some(format!("{loc}: {msg}"));
    }));
}

fn take_panic() -> String {
    LAST_PANIC.lock().unwrap().take().unwrap_or_else(|| "panic".into())
}

/// `file:line` of a recorded panic, with the path cut down to the crate-relative part
fn site_of(msg: &str) -> String {
    let site = msg.split(": ").next().unwrap_or("").to_string();
    ["aldrin/src/", "broker/src/", "core/src/", "harness/src/"]
        .iter()
        .find_map(|p| site.find(p).map(|i| site[i..].to_string()))
        .unwrap_or(site)
}

#[derive(Debug, Clone)]
struct Failure {
    class: String,
    detail: String,
}
fn fail<T>(class: impl Into<String>, detail: impl Into<String>) -> Result<T, Failure> {
    Err(Failure { class: class.into(), detail: detail.into() })
}

/// run a direct call into the real code; a panic becomes `PANIC <site>`
fn guarded<T>(what: &str, f: impl FnOnce() -> T) -> Result<T, Failure> {
    match catch_unwind(AssertUnwindSafe(f)) {
        Ok(x) => Ok(x),
        Err(_) => {
            let msg = take_panic();
            fail(format!("PANIC {}", site_of(&msg)), format!("{what} panicked at {msg}"))
        }
    }
}

const POLL_BUDGET: u64 = 100_000;

struct Exec {
    names: Vec<String>,
    tasks: Vec<Option<Task>>,
    flags: Vec<Arc<Flag>>,
    polls: u64,
}

impl Exec {
    fn new() -> Exec {
        Exec { names: vec![], tasks: vec![], flags: vec![], polls: 0 }
    }
    fn spawn(&mut self, name: impl Into<String>, t: Task) {
        self.names.push(name.into());
        self.tasks.push(Some(t));
        self.flags.push(Arc::new(Flag(AtomicBool::new(true))));
    }
    fn live(&self) -> Vec<String> {
        (0..self.tasks.len()).filter(|i| self.tasks[*i].is_some()).map(|i| self.names[i].clone()).collect()
    }
    /// flag every task, then poll flagged tasks until no flag is set (true quiescence)
    fn settle(&mut self) -> Result<(), Failure> {
        for f in &self.flags {
            f.0.store(true, Ordering::SeqCst);
        }
        let mut budget = POLL_BUDGET;
        loop {
            let mut any = false;
            for i in 0..self.tasks.len() {
                if !self.flags[i].0.swap(false, Ordering::SeqCst) {
                    continue;
                }
                let Some(t) = self.tasks[i].as_mut() else { continue };
                any = true;
                let w: Waker = self.flags[i].clone().into();
                let mut cx = Context::from_waker(&w);
                self.polls += 1;
                match catch_unwind(AssertUnwindSafe(|| t.as_mut().poll(&mut cx))) {
                    Ok(Poll::Ready(())) => self.tasks[i] = None,
                    Ok(Poll::Pending) => {}
                    Err(_) => {
                        let msg = take_panic();
                        return fail(format!("PANIC {}", site_of(&msg)), format!("task {} panicked at {msg}", self.names[i]));
                    }
                }
                budget -= 1;
                if budget == 0 {
                    return fail("BUDGET", format!("{POLL_BUDGET} polls without quiescence; unfinished tasks {:?}", self.live()));
                }
            }
            if !any {
                return Ok(());
            }
        }
    }
    /// do not run destructors of half-dead tasks (a second panic would abort the process)
    fn abandon(&mut self) {
        for t in self.tasks.drain(..) {
            std::mem::forget(t);
        }
    }
}

// ------------------------------------------------------------------------------------------
// the gating transport

#[derive(Clone, Copy, PartialEq, Eq, Debug)]
enum Link {
    S = 0,
    R = 1,
}

struct GateSt {
    inner: Tx,
    /// everything is passed straight through (handshake, channel setup, teardown)
    pass: bool,
    allow_eof: bool,
    closed: bool,
    permits: u32,
    /// held client -> broker messages
    up: VecDeque<Message>,
    /// held broker -> client messages
    down: VecDeque<Message>,
    /// serial of the CloseChannelEnd the sender / receiver end sent through this gate
    close_serial: [Option<u32>; 2],
    /// its reply was handed to the client
    reply_done: [bool; 2],
    /// wire statistics while gating: AddChannelCapacity values upward / downward
    grants_up: Vec<u32>,
    adds_down: Vec<u32>,
    /// self-test fault injection (0 = none), see `FAULT`
    fault: u8,
    redeliver: Option<Message>,
}

/// env CHANFLOW_FAULT = dup-item | drop-item | drop-credit | panic: SELF-TEST of the monitors and of
/// the abort path; disturbs the delivery of one broker -> client message per case (never set by the
/// check on the real run)
static FAULT: AtomicU8 = AtomicU8::new(0);

struct Gate(Rc<RefCell<GateSt>>);

impl AsyncTransport for Gate {
    type Error = Disconnected;

    fn receive_poll(self: Pin<&mut Self>, cx: &mut Context) -> Poll<Result<Message, Disconnected>> {
        let mut g = self.0.borrow_mut();
        let g = &mut *g;
        if let Some(m) = g.redeliver.take() {
            return Poll::Ready(Ok(m));
        }
        if g.pass {
            if let Some(m) = g.down.pop_front() {
                return Poll::Ready(Ok(m));
            }
            if g.closed {
                return Poll::Ready(Err(Disconnected));
            }
            return Pin::new(&mut g.inner).receive_poll(cx);
        }
        // pull everything: registers the client task's waker with the inner channel and keeps a
        // bounded inner channel from blocking the connection task
        while !g.closed {
            match Pin::new(&mut g.inner).receive_poll(cx) {
                Poll::Ready(Ok(m)) => {
                    if let Message::AddChannelCapacity(a) = &m {
                        g.adds_down.push(a.capacity);
                    }
                    g.down.push_back(m);
                }
                Poll::Ready(Err(_)) => g.closed = true,
                Poll::Pending => break,
            }
        }
        if g.permits > 0 && !g.down.is_empty() {
            g.permits -= 1;
            let m = g.down.pop_front().unwrap();
            if g.fault != 0 {
                // self-test only (env CHANFLOW_FAULT): disturb the last hop once per case
                match (g.fault, &m) {
                    (1, Message::ItemReceived(_)) => {
                        g.fault = 0;
                        g.redeliver = Some(m.clone());
                    }
                    (2, Message::ItemReceived(_)) | (3, Message::AddChannelCapacity(_)) => {
                        g.fault = 0;
                        cx.waker().wake_by_ref();
                        return Poll::Pending;
                    }
                    (4, _) => {
                        g.fault = 0;
                        panic!("chanflow self-test fault: panic inside the client task");
                    }
                    _ => {}
                }
            }
            return Poll::Ready(Ok(m));
        }
        if g.closed && g.down.is_empty() && g.allow_eof {
            return Poll::Ready(Err(Disconnected));
        }
        Poll::Pending
    }

    fn send_poll_ready(self: Pin<&mut Self>, cx: &mut Context) -> Poll<Result<(), Disconnected>> {
        let mut g = self.0.borrow_mut();
        if g.pass {
            Pin::new(&mut g.inner).send_poll_ready(cx)
        } else {
            Poll::Ready(Ok(()))
        }
    }

    fn send_start(self: Pin<&mut Self>, msg: Message) -> Result<(), Disconnected> {
        let mut g = self.0.borrow_mut();
        if g.pass {
            return Pin::new(&mut g.inner).send_start(msg);
        }
        match &msg {
            Message::CloseChannelEnd(c) => {
                let e = if c.end == ChannelEnd::Sender { 0 } else { 1 };
                g.close_serial[e] = Some(c.serial);
                g.reply_done[e] = false;
            }
            Message::AddChannelCapacity(a) => g.grants_up.push(a.capacity),
            _ => {}
        }
        g.up.push_back(msg);
        Ok(())
    }

    fn send_poll_flush(self: Pin<&mut Self>, cx: &mut Context) -> Poll<Result<(), Disconnected>> {
        let mut g = self.0.borrow_mut();
        if g.pass {
            Pin::new(&mut g.inner).send_poll_flush(cx)
        } else {
            Poll::Ready(Ok(()))
        }
    }
}

/// hand the head of `up` to the inner transport (the harness acts as the wire)
fn release(g: &Rc<RefCell<GateSt>>) -> Result<(), Failure> {
    let mut st = g.borrow_mut();
    let st = &mut *st;
    let Some(m) = st.up.pop_front() else { return fail("LINK", "release on an empty up queue") };
    let w = noop_waker();
    let mut cx = Context::from_waker(&w);
    match Pin::new(&mut st.inner).send_poll_ready(&mut cx) {
        Poll::Ready(Ok(())) => {}
        Poll::Ready(Err(_)) => return fail("LINK", format!("inner transport disconnected when releasing {m:?}")),
        Poll::Pending => return fail("LINK", format!("inner transport not ready after quiescence when releasing {m:?}")),
    }
    if Pin::new(&mut st.inner).send_start(m.clone()).is_err() {
        return fail("LINK", format!("inner send_start failed for {m:?}"));
    }
    let _ = Pin::new(&mut st.inner).send_poll_flush(&mut cx);
    Ok(())
}

// ------------------------------------------------------------------------------------------
// classification of held messages

fn classify_up(m: &Message, cookie: ChannelCookie) -> Option<(Link, String)> {
    match m {
        Message::SendItem(x) if x.cookie == cookie => {
            let v = x.value.deserialize::<u32>().ok()?;
            Some((Link::S, format!("i{v}")))
        }
        Message::AddChannelCapacity(x) if x.cookie == cookie => Some((Link::R, format!("a{}", x.capacity))),
        Message::CloseChannelEnd(x) if x.cookie == cookie => match x.end {
            ChannelEnd::Sender => Some((Link::S, "c".into())),
            ChannelEnd::Receiver => Some((Link::R, "c".into())),
        },
        _ => None,
    }
}

/// `done`: which ends' close replies precede this message (already delivered or earlier in the queue)
fn classify_down(m: &Message, cookie: ChannelCookie, serials: &[Option<u32>; 2], done: &[bool; 2]) -> Option<(Link, String)> {
    match m {
        Message::AddChannelCapacity(x) if x.cookie == cookie => Some((Link::S, format!("a{}", x.capacity))),
        Message::ItemReceived(x) if x.cookie == cookie => {
            let v = x.value.deserialize::<u32>().ok()?;
            Some((Link::R, format!("i{v}")))
        }
        Message::ChannelEndClosed(x) if x.cookie == cookie => match x.end {
            ChannelEnd::Receiver => Some((Link::S, "pc".into())),
            ChannelEnd::Sender => Some((Link::R, "pc".into())),
        },
        Message::CloseChannelEndReply(x) => {
            let r = match x.result {
                CloseChannelEndResult::Ok => "rok",
                CloseChannelEndResult::InvalidChannel => "rinv",
                CloseChannelEndResult::ForeignChannel => "rfor",
            };
            if serials[0] == Some(x.serial) && !done[0] {
                Some((Link::S, r.into()))
            } else if serials[1] == Some(x.serial) && !done[1] {
                Some((Link::R, r.into()))
            } else {
                None
            }
        }
        _ => None,
    }
}

// ------------------------------------------------------------------------------------------
// case parameters

const CAPS: [(u32, u32); 13] = [
    (1, 10),
    (2, 10),
    (3, 10),
    (4, 10),
    (5, 10),
    (6, 10),
    (7, 6),
    (8, 6),
    (16, 6),
    (17, 4),
    (100, 4),
    (4294967295, 3),
    (2147483648, 3),
];
const MOODS: [&str; 7] = ["producer", "consumer", "balanced", "early_close_sender", "early_close_receiver", "no_close", "select"];
/// 2 of 8 slots are the select!-pattern (producer polls poll_receiver_closed before almost every send)
const MOOD_SLOTS: [usize; 8] = [0, 1, 2, 3, 4, 5, 6, 6];
const TRANSPORTS: [&str; 4] = ["unbounded", "bounded1", "bounded2", "bounded4"];

#[derive(Clone, Debug)]
struct Params {
    seed: u64,
    maxsteps: usize,
    cap: u32,
    same: bool,
    transport: usize,
    order_a: bool,
    rebind: bool,
    nsteps: usize,
    mood: usize,
    close_at: usize,
}

fn params(seed: u64, maxsteps: usize, r: &mut Rng) -> Params {
    let total: u32 = CAPS.iter().map(|c| c.1).sum();
    let mut k = r.below(total as u64) as u32;
    let mut cap = 1;
    for (c, w) in CAPS {
        if k < w {
            cap = c;
            break;
        }
        k -= w;
    }
    let same = r.below(2) == 1;
    let transport = r.below(4) as usize;
    let order_a = r.below(2) == 0;
    let rebind = !same || r.below(2) == 0;
    let lo = 20.min(maxsteps.max(1));
    let nsteps = r.range(lo as u64, maxsteps.max(1) as u64) as usize;
    let mood = MOOD_SLOTS[r.below(MOOD_SLOTS.len() as u64) as usize];
    let close_at = r.below((nsteps / 2 + 1) as u64) as usize;
    Params { seed, maxsteps, cap, same, transport, order_a, rebind, nsteps, mood, close_at }
}

#[derive(Clone, Copy, PartialEq, Eq, Debug, Hash)]
enum Step {
    Send,
    ReadyS,
    ProbeS,
    Recv,
    CloseS,
    CloseR,
    DropS,
    DropR,
    BrokerS,
    BrokerR,
    ClientS,
    ClientR,
}

impl Step {
    fn name(self) -> &'static str {
        match self {
            Step::Send => "send",
            Step::ReadyS => "readyS",
            Step::ProbeS => "probeS",
            Step::Recv => "recv",
            Step::CloseS => "closeS",
            Step::CloseR => "closeR",
            Step::DropS => "dropS",
            Step::DropR => "dropR",
            Step::BrokerS => "brokerS",
            Step::BrokerR => "brokerR",
            Step::ClientS => "clientS",
            Step::ClientR => "clientR",
        }
    }
}

// ------------------------------------------------------------------------------------------
// the world of one case

struct World {
    ex: Exec,
    gates: Vec<Rc<RefCell<GateSt>>>,
    handles: Vec<Handle>,
    bh: BrokerHandle,
    run_results: Rc<RefCell<Vec<(usize, String)>>>,
    same: bool,
    cookie: ChannelCookie,
    sender: Option<Sender>,
    receiver: Option<Receiver>,
    /// close started by the application / cached result of the close future (true = Ok)
    close_started: [bool; 2],
    close_res: [Option<bool>; 2],
    dropped: [bool; 2],
}

#[derive(Default)]
struct CaseOut {
    lines: Vec<(String, String)>,
    fails: Vec<Failure>,
    aborted: bool,
    kinds: Vec<Step>,
    ops: BTreeMap<&'static str, u64>,
    sent: Vec<u32>,
    got: Vec<u32>,
    max_in_flight: u64,
    grants: Vec<u32>,
    replenish: u64,
    first_close: Option<Link>,
    app_closed: [bool; 2],
    polls: u64,
}

impl CaseOut {
    fn bad(&mut self, class: impl Into<String>, detail: impl Into<String>) {
        let class = class.into();
        if !self.fails.iter().any(|f| f.class == class) {
            self.fails.push(Failure { class, detail: detail.into() });
        }
    }
    fn op(&mut self, k: &'static str) {
        *self.ops.entry(k).or_insert(0) += 1;
    }
}

type Slot<T> = Rc<RefCell<Option<T>>>;

/// both halves of the handshake are driven from one task
async fn connect_pair(i: usize, gate: Gate, t2: Tx, mut bh: BrokerHandle, out: Slot<Result<(Handle, Task, Task), String>>, results: Rc<RefCell<Vec<(usize, String)>>>) {
    let mut cf: Pin<Box<dyn Future<Output = _>>> = Box::pin(Client::connect(gate));
    let mut bf = Box::pin(bh.connect(t2));
    let (mut cres, mut bres) = (None, None);
    poll_fn(|cx| {
        if cres.is_none() {
            if let Poll::Ready(x) = cf.as_mut().poll(cx) {
                cres = Some(x);
            }
        }
        if bres.is_none() {
            if let Poll::Ready(x) = bf.as_mut().poll(cx) {
                bres = Some(x);
            }
        }
        if cres.is_some() && bres.is_some() {
            Poll::Ready(())
        } else {
            Poll::Pending
        }
    })
    .await;
    drop(cf);
    drop(bf);
    let r = match (cres.unwrap(), bres.unwrap()) {
        (Ok(client), Ok(conn)) => {
            let h = client.handle().clone();
            let ct: Task = Box::pin(async move {
                let res = client.run().await;
                let s = match res {
                    Ok(()) => "Ok".to_string(),
                    Err(RunError::UnexpectedMessageReceived(m)) => format!("UnexpectedMessageReceived({m:?})"),
                    Err(e) => format!("Err({e:?})"),
                };
                results.borrow_mut().push((i, s));
            });
            let kt: Task = Box::pin(async move {
                let _ = conn.run().await;
            });
            Ok((h, ct, kt))
        }
        (c, k) => Err(format!("c{i} handshake failed: client {:?} broker {:?}", c.err().map(|e| e.to_string()), k.err().map(|e| e.to_string()))),
    };
    *out.borrow_mut() = Some(r);
}

async fn establish(hs: Handle, hr: Handle, cap: u32, order_a: bool, rebind: bool) -> Result<(Sender, Receiver), String> {
    if order_a {
        let (ps, ur) = hs.create_low_level_channel().claim_sender().await.map_err(|e| format!("claim_sender: {e}"))?;
        let ur = if rebind { ur.unbind().bind(hr.clone()) } else { ur };
        let r = ur.claim(cap).await.map_err(|e| format!("receiver claim: {e}"))?;
        let s = ps.establish().await.map_err(|e| format!("sender establish: {e}"))?;
        Ok((s, r))
    } else {
        let (us, pr) = hr.create_low_level_channel().claim_receiver(cap).await.map_err(|e| format!("claim_receiver: {e}"))?;
        let us = if rebind { us.unbind().bind(hs.clone()) } else { us };
        let s = us.claim().await.map_err(|e| format!("sender claim: {e}"))?;
        let r = pr.establish().await.map_err(|e| format!("receiver establish: {e}"))?;
        Ok((s, r))
    }
}

impl World {
    fn build(p: &Params) -> Result<World, Failure> {
        let mut ex = Exec::new();
        match Self::build_in(p, &mut ex) {
            Ok(mut w) => {
                w.ex = ex;
                Ok(w)
            }
            Err(f) => {
                ex.abandon();
                Err(f)
            }
        }
    }

    fn build_in(p: &Params, ex: &mut Exec) -> Result<World, Failure> {
        let broker = Broker::new();
        let bh = broker.handle().clone();
        ex.spawn("broker.run", Box::pin(broker.run()));
        let n = if p.same { 1 } else { 2 };
        let run_results: Rc<RefCell<Vec<(usize, String)>>> = Default::default();
        let mut gates = vec![];
        let mut slots = vec![];
        for i in 0..n {
            let (t1, t2): (Tx, Tx) = match p.transport {
                0 => {
                    let (a, c) = channel::unbounded();
                    (Box::new(a), Box::new(c))
                }
                k => {
                    let (a, c) = channel::bounded([1, 2, 4][k - 1]);
                    (Box::new(a), Box::new(c))
                }
            };
            let st = Rc::new(RefCell::new(GateSt {
                inner: t1,
                pass: true,
                allow_eof: false,
                closed: false,
                permits: 0,
                up: VecDeque::new(),
                down: VecDeque::new(),
                close_serial: [None, None],
                reply_done: [false, false],
                grants_up: vec![],
                adds_down: vec![],
                fault: FAULT.load(Ordering::Relaxed),
                redeliver: None,
            }));
            gates.push(st.clone());
            let slot: Slot<Result<(Handle, Task, Task), String>> = Default::default();
            slots.push(slot.clone());
            ex.spawn(format!("setup{i}"), Box::pin(connect_pair(i, Gate(st), t2, bh.clone(), slot, run_results.clone())));
        }
        ex.settle()?;
        let mut handles = vec![];
        for (i, s) in slots.iter().enumerate() {
            match s.borrow_mut().take() {
                Some(Ok((h, ct, kt))) => {
                    handles.push(h);
                    ex.spawn(format!("client{i}.run"), ct);
                    ex.spawn(format!("conn{i}.run"), kt);
                }
                Some(Err(e)) => return fail("SETUP", e),
                None => return fail("SETUP", format!("handshake of client {i} did not complete; live tasks {:?}", ex.live())),
            }
        }
        ex.settle()?;
        let hs = handles[0].clone();
        let hr = handles[n - 1].clone();
        let slot: Slot<Result<(Sender, Receiver), String>> = Default::default();
        let slot2 = slot.clone();
        let (cap, order_a, rebind) = (p.cap, p.order_a, p.rebind);
        ex.spawn(
            "establish",
            Box::pin(async move {
                let r = establish(hs, hr, cap, order_a, rebind).await;
                *slot2.borrow_mut() = Some(r);
            }),
        );
        ex.settle()?;
        let (sender, receiver) = match slot.borrow_mut().take() {
            Some(Ok(x)) => x,
            Some(Err(e)) => return fail("SETUP", e),
            None => return fail("SETUP", format!("channel setup did not complete; live tasks {:?}", ex.live())),
        };
        for g in &gates {
            let mut st = g.borrow_mut();
            if !st.up.is_empty() || !st.down.is_empty() {
                return fail("SETUP", "gate queues not empty after setup");
            }
            st.pass = false;
        }
        let cookie = sender.cookie();
        if receiver.cookie() != cookie {
            return fail("SETUP", "sender and receiver have different cookies");
        }
        // one settle under gating: anything still in the inner channels now shows up in `down`
        ex.settle()?;
        let w = World {
            ex: Exec::new(),
            gates,
            handles,
            bh,
            run_results,
            same: p.same,
            cookie,
            sender: Some(sender),
            receiver: Some(receiver),
            close_started: [false, false],
            close_res: [None, None],
            dropped: [false, false],
        };
        Ok(w)
    }

    fn gate_of(&self, l: Link) -> usize {
        if self.same {
            0
        } else {
            l as usize
        }
    }

    /// the four logical links (sb, rb, bs, br) as token lists; checks every held message
    fn links(&self) -> Result<[Vec<String>; 4], Failure> {
        let mut out: [Vec<String>; 4] = Default::default();
        for (gi, g) in self.gates.iter().enumerate() {
            let st = g.borrow();
            for m in &st.up {
                let Some((l, tok)) = classify_up(m, self.cookie) else {
                    return fail("FOREIGN-MSG", format!("client {gi} -> broker: {m:?}"));
                };
                if !self.same && l as usize != gi {
                    return fail("FOREIGN-MSG", format!("client {gi} -> broker (wrong end): {m:?}"));
                }
                out[l as usize].push(tok);
            }
            let mut done = st.reply_done;
            for m in &st.down {
                let Some((l, tok)) = classify_down(m, self.cookie, &st.close_serial, &done) else {
                    return fail("FOREIGN-MSG", format!("broker -> client {gi}: {m:?}"));
                };
                if !self.same && l as usize != gi {
                    return fail("FOREIGN-MSG", format!("broker -> client {gi} (wrong end): {m:?}"));
                }
                if matches!(m, Message::CloseChannelEndReply(_)) {
                    done[l as usize] = true;
                }
                out[2 + l as usize].push(tok);
            }
        }
        Ok(out)
    }

    fn head_up(&self, l: Link) -> bool {
        let st = self.gates[self.gate_of(l)].borrow();
        match st.up.front() {
            Some(m) => matches!(classify_up(m, self.cookie), Some((x, _)) if x == l),
            None => false,
        }
    }

    fn head_down(&self, l: Link) -> bool {
        let st = self.gates[self.gate_of(l)].borrow();
        match st.down.front() {
            Some(m) => matches!(classify_down(m, self.cookie, &st.close_serial, &st.reply_done), Some((x, _)) if x == l),
            None => false,
        }
    }

    fn held(&self) -> bool {
        self.gates.iter().any(|g| {
            let st = g.borrow();
            !st.up.is_empty() || !st.down.is_empty()
        })
    }

    fn enabled(&self, s: Step) -> bool {
        match s {
            Step::Send | Step::ReadyS | Step::ProbeS | Step::CloseS | Step::DropS => self.sender.is_some(),
            Step::Recv | Step::CloseR | Step::DropR => self.receiver.is_some(),
            Step::BrokerS => self.head_up(Link::S),
            Step::BrokerR => self.head_up(Link::R),
            Step::ClientS => self.head_down(Link::S),
            Step::ClientR => self.head_down(Link::R),
        }
    }

    fn broker_step(&mut self, l: Link) -> Result<(), Failure> {
        let gi = self.gate_of(l);
        release(&self.gates[gi])?;
        self.ex.settle()
    }

    fn client_step(&mut self, l: Link) -> Result<(), Failure> {
        let gi = self.gate_of(l);
        {
            let mut st = self.gates[gi].borrow_mut();
            if matches!(st.down.front(), Some(Message::CloseChannelEndReply(_))) {
                st.reply_done[l as usize] = true;
            }
            st.permits += 1;
        }
        self.ex.settle()?;
        let st = self.gates[gi].borrow();
        if st.permits != 0 {
            return fail("LINK", format!("client {gi} did not take the delivered message; live tasks {:?}", self.ex.live()));
        }
        Ok(())
    }

    /// poll the end's close (starts it when not yet started); caches the first Ready result because
    /// RawChannel::poll_close answers Ok(()) to every call after the one that resolved
    fn poll_close(&mut self, l: Link) -> Result<(), Failure> {
        let e = l as usize;
        let w = noop_waker();
        let mut cx = Context::from_waker(&w);
        let r = match l {
            Link::S => {
                let Some(s) = self.sender.as_mut() else { return Ok(()) };
                guarded("Sender::poll_close", || s.poll_close(&mut cx))?
            }
            Link::R => {
                let Some(r) = self.receiver.as_mut() else { return Ok(()) };
                guarded("Receiver::poll_close", || r.poll_close(&mut cx))?
            }
        };
        self.close_started[e] = true;
        if self.close_res[e].is_none() {
            if let Poll::Ready(res) = r {
                self.close_res[e] = Some(res.is_ok());
            }
        }
        Ok(())
    }

    fn close_state(&mut self, l: Link) -> Result<&'static str, Failure> {
        let e = l as usize;
        if self.dropped[e] {
            return Ok("gone");
        }
        if !self.close_started[e] {
            return Ok("none");
        }
        if self.close_res[e].is_none() {
            self.poll_close(l)?;
        }
        Ok(match self.close_res[e] {
            None => "pend",
            Some(true) => "ok",
            Some(false) => "err",
        })
    }
}

fn join(v: &[String]) -> String {
    if v.is_empty() {
        "-".into()
    } else {
        v.join(",")
    }
}

// ------------------------------------------------------------------------------------------
// running one case

struct Runner {
    p: Params,
    r: Rng,
    w: World,
    out: CaseOut,
    next_item: u32,
    /// what the harness believes poll_send_ready would say (from the last send/readyS observation;
    /// a delivered AddChannelCapacity turns "pend" into "ok"); only steers the generator
    hint: &'static str,
    recv_stale: bool,
    /// AddChannelCapacity messages handed to the sender's client since the last poll of the Sender
    adds_pending: u32,
    /// select mood: poll_receiver_closed was polled since the last send / a burst of sends follows
    probed: bool,
    burst: bool,
}

impl Runner {
    /// the state line after a step; also the monitors that look at it
    fn line(&mut self, obs: &str) -> Result<String, Failure> {
        let l = self.w.links()?;
        let cs = self.w.close_state(Link::S)?;
        let cr = self.w.close_state(Link::R)?;
        for (e, st) in [cs, cr].iter().enumerate() {
            if *st == "err" {
                self.out.bad("CLOSE-ERR", format!("the {} close future resolved to Err", if e == 0 { "sender's" } else { "receiver's" }));
            }
        }
        for g in &self.w.gates {
            let st = g.borrow();
            if st.grants_up.iter().chain(st.adds_down.iter()).any(|n| *n == 0) {
                self.out.bad("CAPACITY", "AddChannelCapacity with value 0 on the wire");
            }
        }
        let fl = (self.out.sent.len() - self.out.got.len().min(self.out.sent.len())) as u64;
        self.out.max_in_flight = self.out.max_in_flight.max(fl);
        Ok(format!("{obs} | sb={} rb={} bs={} br={} | cs={cs} cr={cr}", join(&l[0]), join(&l[1]), join(&l[2]), join(&l[3])))
    }

    /// perform one step on the real code; returns (case line, observation)
    fn apply(&mut self, s: Step) -> Result<(String, String), Failure> {
        let nw = noop_waker();
        let mut cx = Context::from_waker(&nw);
        let mut case_line = s.name().to_string();
        let mut obs = "-".to_string();
        match s {
            Step::Send => {
                let v = self.next_item;
                self.next_item += 1;
                case_line = format!("send {v}");
                let sd = self.w.sender.as_mut().unwrap();
                match guarded("Sender::poll_send_ready", || sd.poll_send_ready(&mut cx))? {
                    Poll::Ready(Ok(())) => {
                        match guarded("Sender::start_send_item", || sd.start_send_item(&v))? {
                            Ok(()) => {}
                            Err(e) => self.out.bad("START-SEND", format!("start_send_item({v}) after Ready(Ok): {e}")),
                        }
                        self.out.sent.push(v);
                        self.out.op("send_sent");
                        self.hint = "ok";
                        obs = "sent".into();
                    }
                    Poll::Ready(Err(_)) => {
                        self.out.op("send_err");
                        self.hint = "err";
                        self.burst = false;
                        obs = "err".into();
                        if !self.out.app_closed[0] && !self.out.app_closed[1] {
                            self.out.bad("CUT", format!("send {v}: poll_send_ready = Err although neither application closed its end"));
                        }
                    }
                    Poll::Pending => {
                        self.out.op("send_pend");
                        self.hint = "pend";
                        self.burst = false;
                        obs = "pend".into();
                    }
                }
                self.adds_pending = 0;
                self.probed = false;
            }
            Step::ReadyS => {
                let sd = self.w.sender.as_mut().unwrap();
                let r = match guarded("Sender::poll_send_ready", || sd.poll_send_ready(&mut cx))? {
                    Poll::Ready(Ok(())) => "ok",
                    Poll::Ready(Err(_)) => "err",
                    Poll::Pending => "pend",
                };
                self.out.op(match r {
                    "ok" => "readyS_ok",
                    "err" => "readyS_err",
                    _ => "readyS_pend",
                });
                if r == "err" && !self.out.app_closed[0] && !self.out.app_closed[1] {
                    self.out.bad("CUT", "readyS: poll_send_ready = Err although neither application closed its end");
                }
                self.hint = r;
                self.adds_pending = 0;
                obs = r.into();
            }
            Step::ProbeS => {
                let sd = self.w.sender.as_mut().unwrap();
                match guarded("Sender::poll_receiver_closed", || sd.poll_receiver_closed(&mut cx))? {
                    Poll::Ready(()) => {
                        self.out.op("probeS_closed");
                        obs = "closed".into();
                    }
                    Poll::Pending => {
                        self.out.op("probeS_pend");
                        obs = "pend".into();
                    }
                }
                if self.adds_pending > 0 {
                    self.out.op("probe_absorbed");
                    self.burst = true;
                }
                self.adds_pending = 0;
                self.probed = true;
            }
            Step::Recv => {
                let rv = self.w.receiver.as_mut().unwrap();
                match guarded("Receiver::poll_next_item", || rv.poll_next_item::<u32>(&mut cx))? {
                    Poll::Ready(Ok(Some(v))) => {
                        self.out.got.push(v);
                        self.out.op("recv_item");
                        obs = format!("item:{v}");
                        let n = self.out.got.len();
                        if n > self.out.sent.len() || self.out.got[..] != self.out.sent[..n] {
                            self.out.bad("ORDER", format!("received {:?} is not a prefix of sent {:?}", self.out.got, self.out.sent));
                        }
                    }
                    Poll::Ready(Ok(None)) => {
                        self.out.op("recv_end");
                        self.recv_stale = true;
                        obs = "end".into();
                    }
                    Poll::Pending => {
                        self.out.op("recv_pend");
                        self.recv_stale = true;
                        obs = "pend".into();
                    }
                    Poll::Ready(Err(e)) => {
                        self.out.op("recv_err");
                        self.out.bad("RECV-ERR", format!("poll_next_item: {e}"));
                        obs = "recv-err".into();
                    }
                }
            }
            Step::CloseS | Step::CloseR => {
                let l = if s == Step::CloseS { Link::S } else { Link::R };
                self.w.poll_close(l)?;
                self.closed_by_app(l);
                self.out.op(s.name());
            }
            Step::DropS => {
                let sd = self.w.sender.take();
                guarded("drop(Sender)", move || drop(sd))?;
                self.w.dropped[0] = true;
                self.closed_by_app(Link::S);
                self.out.op("dropS");
            }
            Step::DropR => {
                let rv = self.w.receiver.take();
                guarded("drop(Receiver)", move || drop(rv))?;
                self.w.dropped[1] = true;
                self.closed_by_app(Link::R);
                self.out.op("dropR");
            }
            Step::BrokerS | Step::BrokerR => {
                self.w.broker_step(if s == Step::BrokerS { Link::S } else { Link::R })?;
                self.out.op(s.name());
            }
            Step::ClientS | Step::ClientR => {
                if s == Step::ClientR {
                    self.recv_stale = false;
                } else {
                    let gi = self.w.gate_of(Link::S);
                    if matches!(self.w.gates[gi].borrow().down.front(), Some(Message::AddChannelCapacity(_))) {
                        self.adds_pending += 1;
                        if self.hint == "pend" {
                            self.hint = "ok";
                        }
                    }
                }
                self.w.client_step(if s == Step::ClientS { Link::S } else { Link::R })?;
                self.out.op(s.name());
            }
        }
        if !matches!(s, Step::BrokerS | Step::BrokerR | Step::ClientS | Step::ClientR) {
            self.w.ex.settle()?;
        }
        Ok((case_line, obs))
    }

    fn closed_by_app(&mut self, l: Link) {
        if self.out.first_close.is_none() {
            self.out.first_close = Some(l);
        }
        self.out.app_closed[l as usize] = true;
    }

    fn step(&mut self, s: Step) -> Result<String, Failure> {
        let (case_line, obs) = self.apply(s)?;
        let il = self.line(&obs)?;
        self.out.kinds.push(s);
        self.out.lines.push((case_line, il));
        Ok(obs)
    }

    fn choose(&mut self, idx: usize) -> Option<Step> {
        let w = &self.w;
        let mood = self.p.mood;
        if mood == 3 && idx == self.p.close_at && w.sender.is_some() && !w.close_started[0] {
            return Some(if self.r.below(2) == 0 { Step::CloseS } else { Step::DropS });
        }
        if mood == 4 && idx == self.p.close_at && w.receiver.is_some() && !w.close_started[1] {
            return Some(if self.r.below(2) == 0 { Step::CloseR } else { Step::DropR });
        }
        let (ws, wr, wm) = match mood {
            0 => (8, 1, 2),
            1 => (2, 6, 3),
            6 => (5, 4, 3),
            _ => (4, 4, 3),
        };
        let mut opts: Vec<(Step, u32)> = vec![];
        // `fresh`: some step that can change the state is enabled
        let mut fresh = false;
        if w.sender.is_some() {
            let dead = w.close_started[0] || self.hint == "err";
            if mood == 6 && !dead {
                // select! pattern: an announcement sitting in capacity_added is (mostly) met by
                // poll_receiver_closed first; then the producer sends until it runs dry
                if self.adds_pending > 0 && self.r.below(10) < 8 {
                    return Some(Step::ProbeS);
                }
                let k = if self.burst && self.hint != "pend" {
                    fresh = true;
                    12
                } else if self.hint == "pend" {
                    2
                } else {
                    fresh = true;
                    ws
                };
                let act = if self.burst || self.probed || self.r.below(10) == 0 { Step::Send } else { Step::ProbeS };
                opts.push((act, k));
            } else {
                let k = if dead {
                    1
                } else if self.hint == "pend" {
                    (ws / 3).max(1)
                } else {
                    fresh = true;
                    ws
                };
                opts.push((Step::Send, k));
                // sprinkle the two bare polls at a low rate
                if self.r.below(3) == 0 {
                    opts.push((Step::ReadyS, 1));
                    opts.push((Step::ProbeS, 1));
                }
            }
        }
        if w.receiver.is_some() {
            fresh |= !self.recv_stale;
            opts.push((Step::Recv, if self.recv_stale { 1 } else { wr }));
        }
        for s in [Step::BrokerS, Step::BrokerR, Step::ClientS, Step::ClientR] {
            if w.enabled(s) {
                fresh = true;
                opts.push((s, wm));
            }
        }
        if !fresh && self.r.below(3) != 0 {
            // only no-op steps (send -> pend/err, recv -> pend/end) are left: mostly stop here
            return None;
        }
        if mood != 5 && self.r.below(60) == 0 {
            // a close/drop of either end; a second close of an end is a legal no-op step
            if w.sender.is_some() {
                if !w.close_started[0] || self.r.below(3) == 0 {
                    opts.push((Step::CloseS, 4));
                }
                opts.push((Step::DropS, 4));
            }
            if w.receiver.is_some() {
                if !w.close_started[1] || self.r.below(3) == 0 {
                    opts.push((Step::CloseR, 4));
                }
                opts.push((Step::DropR, 4));
            }
        }
        let total: u32 = opts.iter().map(|o| o.1).sum();
        if total == 0 {
            return None;
        }
        let mut k = self.r.below(total as u64) as u32;
        for (s, wgt) in opts {
            if k < wgt {
                return Some(s);
            }
            k -= wgt;
        }
        None
    }

    fn body(&mut self) -> Result<(), Failure> {
        // the `new` line
        let il = self.line("-")?;
        self.out.lines.push((format!("new {} {} {}", self.p.seed, self.p.cap, self.p.same as u8), il));
        for idx in 0..self.p.nsteps {
            let Some(s) = self.choose(idx) else { break };
            self.step(s)?;
        }
        let mut guard = 0u32;
        self.drain(&mut guard)?;
        // STALL / STARVE: nobody closed, nothing in flight => the sender must have credit, and it must
        // keep getting credit when it goes on sending (all of these are ordinary steps)
        if !self.out.app_closed[0] && !self.out.app_closed[1] {
            let obs = self.step(Step::ReadyS)?;
            if obs != "ok" {
                self.out.bad("STALL", format!("after the drain nothing is in flight and neither end was closed, but poll_send_ready = {obs} (sent {}, received {})", self.out.sent.len(), self.out.got.len()));
            }
            for round in 0..3 {
                let obs = self.step(Step::ReadyS)?;
                if obs == "ok" {
                    self.step(Step::Send)?;
                } else {
                    self.out.bad("STARVE", format!("round {round} after the drain: nothing in flight, neither end closed, but poll_send_ready = {obs} (sent {}, received {})", self.out.sent.len(), self.out.got.len()));
                }
                self.drain(&mut guard)?;
            }
        }
        // COMPLETE
        if !self.out.app_closed[1] {
            if self.out.got != self.out.sent {
                self.out.bad("COMPLETE", format!("receiver never closed; after the drain received {:?} but sent {:?}", self.out.got, self.out.sent));
            }
        } else {
            let n = self.out.got.len();
            if n > self.out.sent.len() || self.out.got[..] != self.out.sent[..n] {
                self.out.bad("COMPLETE", format!("received {:?} is not a prefix of sent {:?}", self.out.got, self.out.sent));
            }
        }
        self.teardown()
    }

    /// everything held is released/delivered in random order, the receiver reads until pend/end,
    /// until nothing is held (the Sender is not polled)
    fn drain(&mut self, guard: &mut u32) -> Result<(), Failure> {
        loop {
            loop {
                let en: Vec<Step> = [Step::BrokerS, Step::BrokerR, Step::ClientS, Step::ClientR].into_iter().filter(|s| self.w.enabled(*s)).collect();
                if en.is_empty() {
                    break;
                }
                let s = en[self.r.below(en.len() as u64) as usize];
                self.step(s)?;
                *guard += 1;
                if *guard > 20_000 {
                    return fail("BUDGET", "drain phase did not terminate within 20000 steps");
                }
            }
            if self.w.held() {
                // something is held but no step is enabled: the head of a queue is unclassifiable
                self.w.links()?;
                return fail("LINK", "held messages but no enabled step");
            }
            if self.w.receiver.is_some() {
                loop {
                    let obs = self.step(Step::Recv)?;
                    *guard += 1;
                    if !obs.starts_with("item:") || *guard > 20_000 {
                        break;
                    }
                }
            }
            if !self.w.held() {
                return Ok(());
            }
        }
    }

    fn teardown(&mut self) -> Result<(), Failure> {
        let sd = self.w.sender.take();
        let rv = self.w.receiver.take();
        guarded("drop(Sender)", move || drop(sd))?;
        guarded("drop(Receiver)", move || drop(rv))?;
        self.w.ex.settle()?;
        for g in &self.w.gates {
            while !g.borrow().up.is_empty() {
                release(g)?;
            }
            let mut st = g.borrow_mut();
            st.pass = true;
            st.allow_eof = true;
        }
        self.w.ex.settle()?;
        for h in &self.w.handles {
            h.shutdown();
        }
        self.w.ex.settle()?;
        let mut bh = self.w.bh.clone();
        self.w.ex.spawn(
            "shutdown_idle",
            Box::pin(async move {
                bh.shutdown_idle().await;
            }),
        );
        self.w.ex.settle()?;
        let n = self.w.gates.len();
        let res = self.w.run_results.borrow().clone();
        for (i, s) in &res {
            if s != "Ok" {
                let kind = s.split('(').next().unwrap_or("").to_string();
                return fail(format!("RUN {kind}"), format!("client {i} run() = {s}"));
            }
        }
        let live = self.w.ex.live();
        if !live.is_empty() || res.len() != n {
            return fail(format!("HANG {}", live.join(",")), format!("after teardown: unfinished tasks {live:?}, run() results {res:?}"));
        }
        Ok(())
    }
}

fn run_case_inner(seed: u64, maxsteps: usize) -> (Params, CaseOut) {
    let mut r = Rng::new(seed);
    let p = params(seed, maxsteps, &mut r);
    let mut out = CaseOut::default();
    let w = match World::build(&p) {
        Ok(w) => w,
        Err(f) => {
            // (the half-built world was dropped inside build; only harness-level errors end here)
            out.fails.push(f);
            out.aborted = true;
            return (p, out);
        }
    };
    let mut run = Runner { p: p.clone(), r, w, out, next_item: 1, hint: "ok", recv_stale: false, adds_pending: 0, probed: false, burst: false };
    let res = run.body();
    for g in &run.w.gates {
        let st = g.borrow();
        run.out.grants.extend(st.grants_up.iter().copied());
        run.out.replenish += st.adds_down.len() as u64;
    }
    run.out.polls = run.w.ex.polls;
    let Runner { w, mut out, .. } = run;
    match res {
        Ok(()) => drop(w),
        Err(f) => {
            out.fails.push(f);
            out.aborted = true;
            let mut w = w;
            w.ex.abandon();
            std::mem::forget(w);
        }
    }
    (p, out)
}

fn run_case(seed: u64, maxsteps: usize) -> (Params, CaseOut) {
    match catch_unwind(AssertUnwindSafe(|| run_case_inner(seed, maxsteps))) {
        Ok(x) => x,
        Err(_) => {
            let msg = take_panic();
            let mut r = Rng::new(seed);
            let p = params(seed, maxsteps, &mut r);
            let mut out = CaseOut::default();
            out.fails.push(Failure { class: "PANIC harness".into(), detail: format!("outside a guarded call: {msg}") });
            out.aborted = true;
            (p, out)
        }
    }
}

// ------------------------------------------------------------------------------------------
// output

fn monitor_line(p: &Params, f: &Failure) -> String {
    let detail: String = f.detail.replace(['\n', '\t'], " ");
    format!("{}\t{} {} {} {}\t{}", f.class, p.seed, p.cap, p.same as u8, p.maxsteps, detail)
}

fn json_map<K: std::fmt::Display>(m: &BTreeMap<K, u64>) -> String {
    let mut s = String::from("{");
    for (i, (k, v)) in m.iter().enumerate() {
        if i > 0 {
            s.push_str(", ");
        }
        write!(s, "\"{k}\": {v}").unwrap();
    }
    s.push('}');
    s
}

fn usage() -> ! {
    eprintln!("usage: chanflow gen <outdir> <ncases> <maxsteps> | chanflow one <caseseed> <maxsteps>");
    std::process::exit(2);
}

fn main() {
    install_hook();
    match std::env::var("CHANFLOW_FAULT").as_deref() {
        Ok("dup-item") => FAULT.store(1, Ordering::Relaxed),
        Ok("drop-item") => FAULT.store(2, Ordering::Relaxed),
        Ok("drop-credit") => FAULT.store(3, Ordering::Relaxed),
        Ok("panic") => FAULT.store(4, Ordering::Relaxed),
        _ => {}
    }
    let args: Vec<String> = std::env::args().collect();
    match args.get(1).map(|s| s.as_str()) {
        Some("one") if args.len() == 4 => {
            let (Ok(seed), Ok(maxsteps)) = (args[2].parse::<u64>(), args[3].parse::<usize>()) else { usage() };
            let (p, out) = run_case(seed, maxsteps);
            println!(
                "# case {} cap={} same={} transport={} setup={} rebind={} steps={} mood={}",
                p.seed,
                p.cap,
                p.same as u8,
                TRANSPORTS[p.transport],
                if p.order_a { "A" } else { "B" },
                p.rebind as u8,
                p.nsteps,
                MOODS[p.mood]
            );
            for (c, i) in &out.lines {
                println!("{c}  =>  {i}");
            }
            println!("# sent {:?}", out.sent);
            println!("# received {:?}", out.got);
            if out.fails.is_empty() {
                println!("# monitor: clean");
            }
            for f in &out.fails {
                println!("# MONITOR {}", monitor_line(&p, f));
                eprintln!("MONITOR {}", monitor_line(&p, f));
            }
        }
        Some("gen") if args.len() == 5 => {
            let outdir = &args[2];
            let (Ok(ncases), Ok(maxsteps)) = (args[3].parse::<u64>(), args[4].parse::<usize>()) else { usage() };
            let base = env_u64("VERIF_SEED", 1);
            let open = |n: &str| match std::fs::File::create(format!("{outdir}/{n}")) {
                Ok(f) => std::io::BufWriter::new(f),
                Err(e) => {
                    eprintln!("cannot create {outdir}/{n}: {e}");
                    std::process::exit(2);
                }
            };
            let mut fc = open("cases.txt");
            let mut fi = open("impl.txt");
            let mut fm = open("monitor.txt");
            let mut ops: BTreeMap<String, u64> = BTreeMap::new();
            for k in ["send_sent", "send_pend", "send_err", "readyS_ok", "readyS_pend", "readyS_err", "probeS_closed", "probeS_pend", "probe_absorbed", "recv_item", "recv_pend", "recv_end", "closeS", "closeR", "dropS", "dropR", "brokerS", "brokerR", "clientS", "clientR"] {
                ops.insert(k.into(), 0);
            }
            let mut caps: BTreeMap<u32, u64> = BTreeMap::new();
            let mut same: BTreeMap<String, u64> = BTreeMap::new();
            let mut transport: BTreeMap<String, u64> = BTreeMap::new();
            let mut setup: BTreeMap<String, u64> = BTreeMap::new();
            let mut moods: BTreeMap<String, u64> = BTreeMap::new();
            let mut closes: BTreeMap<String, u64> = BTreeMap::new();
            for k in ["sender_first", "receiver_first", "both", "none"] {
                closes.insert(k.into(), 0);
            }
            let mut grant_values: BTreeMap<u32, u64> = BTreeMap::new();
            let mut fail_classes: BTreeMap<String, u64> = BTreeMap::new();
            let (mut steps, mut items_sent, mut items_received, mut grants_seen, mut replenish, mut max_in_flight, mut aborted, mut nfails, mut polls) = (0u64, 0u64, 0u64, 0u64, 0u64, 0u64, 0u64, 0u64, 0u64);
            let mut distinct: HashSet<u64> = HashSet::new();
            for i in 0..ncases {
                let seed = base.wrapping_mul(1_000_003).wrapping_add(i);
                let (p, out) = run_case(seed, maxsteps);
                for (c, l) in &out.lines {
                    writeln!(fc, "{c}").unwrap();
                    writeln!(fi, "{l}").unwrap();
                }
                for f in &out.fails {
                    let ml = monitor_line(&p, f);
                    writeln!(fm, "{ml}").unwrap();
                    eprintln!("MONITOR {ml}");
                    *fail_classes.entry(f.class.split(' ').next().unwrap_or("").to_string()).or_insert(0) += 1;
                    nfails += 1;
                }
                steps += out.kinds.len() as u64;
                for (k, v) in &out.ops {
                    *ops.entry(k.to_string()).or_insert(0) += v;
                }
                *caps.entry(p.cap).or_insert(0) += 1;
                *same.entry((p.same as u8).to_string()).or_insert(0) += 1;
                *transport.entry(TRANSPORTS[p.transport].into()).or_insert(0) += 1;
                *setup.entry(if p.order_a { "A" } else { "B" }.into()).or_insert(0) += 1;
                *moods.entry(MOODS[p.mood].into()).or_insert(0) += 1;
                match out.first_close {
                    Some(Link::S) => *closes.get_mut("sender_first").unwrap() += 1,
                    Some(Link::R) => *closes.get_mut("receiver_first").unwrap() += 1,
                    None => *closes.get_mut("none").unwrap() += 1,
                }
                if out.app_closed[0] && out.app_closed[1] {
                    *closes.get_mut("both").unwrap() += 1;
                }
                items_sent += out.sent.len() as u64;
                items_received += out.got.len() as u64;
                grants_seen += out.grants.len() as u64;
                for g in &out.grants {
                    *grant_values.entry(*g).or_insert(0) += 1;
                }
                replenish += out.replenish;
                max_in_flight = max_in_flight.max(out.max_in_flight);
                polls += out.polls;
                if out.aborted {
                    aborted += 1;
                }
                let mut h = DefaultHasher::new();
                (p.cap, p.same, &out.kinds).hash(&mut h);
                distinct.insert(h.finish());
            }
            fc.flush().unwrap();
            fi.flush().unwrap();
            fm.flush().unwrap();
            let mut s = String::new();
            writeln!(s, "{{").unwrap();
            writeln!(s, "  \"seed\": {base},").unwrap();
            writeln!(s, "  \"cases\": {ncases},").unwrap();
            writeln!(s, "  \"maxsteps\": {maxsteps},").unwrap();
            writeln!(s, "  \"steps\": {steps},").unwrap();
            writeln!(s, "  \"ops\": {},", json_map(&ops)).unwrap();
            writeln!(s, "  \"caps\": {},", json_map(&caps)).unwrap();
            writeln!(s, "  \"same\": {},", json_map(&same)).unwrap();
            writeln!(s, "  \"transport\": {},", json_map(&transport)).unwrap();
            writeln!(s, "  \"setup\": {},", json_map(&setup)).unwrap();
            writeln!(s, "  \"moods\": {},", json_map(&moods)).unwrap();
            writeln!(s, "  \"closes\": {},", json_map(&closes)).unwrap();
            writeln!(s, "  \"items_sent\": {items_sent},").unwrap();
            writeln!(s, "  \"items_received\": {items_received},").unwrap();
            writeln!(s, "  \"grants_seen\": {grants_seen},").unwrap();
            writeln!(s, "  \"grant_values\": {},", json_map(&grant_values)).unwrap();
            writeln!(s, "  \"broker_replenish_seen\": {replenish},").unwrap();
            writeln!(s, "  \"max_in_flight\": {max_in_flight},").unwrap();
            writeln!(s, "  \"probe_absorbed\": {},", ops.get("probe_absorbed").copied().unwrap_or(0)).unwrap();
            writeln!(s, "  \"task_polls\": {polls},").unwrap();
            writeln!(s, "  \"aborted_cases\": {aborted},").unwrap();
            writeln!(s, "  \"monitor_failures\": {nfails},").unwrap();
            writeln!(s, "  \"monitor_classes\": {},", json_map(&fail_classes)).unwrap();
            writeln!(s, "  \"distinct\": {}", distinct.len()).unwrap();
            writeln!(s, "}}").unwrap();
            if let Err(e) = std::fs::write(format!("{outdir}/stats.json"), s) {
                eprintln!("cannot write {outdir}/stats.json: {e}");
                std::process::exit(2);
            }
        }
        _ => usage(),
    }
}
