//! `codec gen <outdir> <n>`: generate values, run the real serializer/deserializer, write
//!   cases.txt (ops for the model driver), impl.txt (what the implementation answered, one
//!   line per op), monitor.txt (property violations seen on the implementation alone) and
//!   stats.json (input distribution).
//! `codec run <cases> <impl-out>`: interpret byte-level ops (dec/skip/split/kind/conv) from a
//!   file with the real code.
use aldrin_core::tags;
use aldrin_core::{
    Deserialize, DeserializeError, Deserializer, ProtocolVersion, Serialize, SerializeError,
    SerializedValue, Serializer, Value, ValueConversionError,
};
use std::cell::{Cell, RefCell};
use std::collections::BTreeMap;
use std::fmt::Write as _;
use std::io::{BufRead, Write};
use verif_harness::valuefmt::{fmt_value, Legacy};
use verif_harness::valuegen::{depth, gen_chain, gen_tree, kind_name, walk};
use verif_harness::{catch, env_u64, hex, quiet_panics, sv_from_bytes, unhex, Rng};

fn de_err(e: DeserializeError) -> &'static str {
    match e {
        DeserializeError::InvalidSerialization => "!Invalid",
        DeserializeError::UnexpectedEoi => "!Eoi",
        DeserializeError::UnexpectedValue => "!UnexpectedValue",
        DeserializeError::TooDeeplyNested => "!TooDeep",
        DeserializeError::NoMoreElements => "!NoMoreElements",
        DeserializeError::MoreElementsRemain => "!MoreElementsRemain",
        DeserializeError::TrailingData => "!TrailingData",
    }
}

fn ser_err(e: SerializeError) -> &'static str {
    match e {
        SerializeError::UnexpectedValue => "!UnexpectedValue",
        SerializeError::Overflow => "!Overflow",
        SerializeError::TooManyElements => "!TooManyElements",
        SerializeError::TooFewElements => "!TooFewElements",
        SerializeError::TooDeeplyNested => "!TooDeep",
    }
}

fn conv_err(e: ValueConversionError) -> &'static str {
    match e {
        ValueConversionError::InvalidVersion => "!InvalidVersion",
        ValueConversionError::Serialize(e) => ser_err(e),
        ValueConversionError::Deserialize(e) => de_err(e),
    }
}

thread_local! {
    static LEN: Cell<Option<usize>> = Cell::new(None);
}

/// counting allocator: current and peak live bytes, for the C07 allocation monitor
struct Counting;
static CUR: std::sync::atomic::AtomicUsize = std::sync::atomic::AtomicUsize::new(0);
static PEAK: std::sync::atomic::AtomicUsize = std::sync::atomic::AtomicUsize::new(0);
unsafe impl std::alloc::GlobalAlloc for Counting {
    unsafe fn alloc(&self, l: std::alloc::Layout) -> *mut u8 {
        use std::sync::atomic::Ordering::Relaxed;
        let c = CUR.fetch_add(l.size(), Relaxed) + l.size();
        PEAK.fetch_max(c, Relaxed);
        std::alloc::System.alloc(l)
    }
    unsafe fn dealloc(&self, p: *mut u8, l: std::alloc::Layout) {
        CUR.fetch_sub(l.size(), std::sync::atomic::Ordering::Relaxed);
        std::alloc::System.dealloc(p, l)
    }
}
#[global_allocator]
static ALLOC: Counting = Counting;

/// peak extra bytes allocated while running `f`
fn peak_during<T>(f: impl FnOnce() -> T) -> (T, usize) {
    use std::sync::atomic::Ordering::Relaxed;
    let base = CUR.load(Relaxed);
    PEAK.store(base, Relaxed);
    let r = f();
    (r, PEAK.load(Relaxed).saturating_sub(base))
}

struct SkipProbe;

impl Deserialize<tags::Value> for SkipProbe {
    fn deserialize(d: Deserializer) -> Result<Self, DeserializeError> {
        let n = d.len()?;
        LEN.with(|l| l.set(Some(n)));
        d.skip()?;
        Ok(SkipProbe)
    }
}

fn parse_version(s: &str) -> Option<ProtocolVersion> {
    if s == "none" {
        return None;
    }
    let (a, b) = s.split_once('.').unwrap();
    Some(ProtocolVersion::new(a.parse().unwrap(), b.parse().unwrap()))
}

/// one byte-level op on the real code
fn run_op(op: &str, args: &[&str]) -> String {
    let bytes = unhex(args.last().copied().unwrap_or(""));
    let r = catch(|| {
        let Some(sv) = sv_from_bytes(&bytes) else {
            return "!Empty".to_string();
        };
        match op {
            "dec" => match sv.deserialize_as_value() {
                Ok(v) => fmt_value(&v, true),
                Err(e) => de_err(e).to_string(),
            },
            "skip" => {
                LEN.with(|l| l.set(None));
                match sv.deserialize_as::<tags::Value, SkipProbe>() {
                    Ok(_) | Err(DeserializeError::TrailingData) => {
                        format!("{}", LEN.with(|l| l.get()).unwrap())
                    }
                    Err(e) => de_err(e).to_string(),
                }
            }
            "split" => match sv.deserialize::<SerializedValue>() {
                Ok(v) => hex(&v),
                Err(e) => de_err(e).to_string(),
            },
            "kind" => match sv.kind() {
                Ok(k) => format!("{}", u8::from(k)),
                Err(e) => de_err(e).to_string(),
            },
            "conv" => {
                let from = parse_version(args[0]);
                let to = parse_version(args[1]).unwrap();
                // the Cow-returning slice API and the in-place API must agree
                let a: Result<Vec<u8>, ValueConversionError> = { let sl: &aldrin_core::SerializedValueSlice = &sv; sl.convert(from, to).map(|c| { let s: &[u8] = &**c; s.to_vec() }) };
                let mut owned = sv.clone();
                let b: Result<Vec<u8>, ValueConversionError> = owned.convert(from, to).map(|()| { let s: &[u8] = &**owned; s.to_vec() });
                match (a, b) {
                    (Ok(x), Ok(y)) if x == y => hex(&x),
                    (Err(x), Err(y)) if conv_err(x) == conv_err(y) => conv_err(x).to_string(),
                    (x, y) => format!(
                        "!APIS-DISAGREE slice={} owned={}",
                        x.map(|b| hex(&b)).unwrap_or_else(|e| conv_err(e).to_string()),
                        y.map(|b| hex(&b)).unwrap_or_else(|e| conv_err(e).to_string())
                    ),
                }
            }
            "v1only" => (if v1_scan(&bytes) { "1" } else { "0" }).to_string(),
            _ => format!("!UnknownOp {}", op),
        }
    });
    r.unwrap_or_else(|p| format!("!PANIC {}", p.replace('\n', " ")))
}

fn cmd_run(cases: &str, out: &str) {
    let f = std::io::BufReader::new(std::fs::File::open(cases).unwrap());
    let mut o = std::io::BufWriter::new(std::fs::File::create(out).unwrap());
    for line in f.lines() {
        let line = line.unwrap();
        let parts: Vec<&str> = line.split(' ').collect();
        writeln!(o, "{}", run_op(parts[0], &parts[1..])).unwrap();
    }
}

fn cmd_gen(outdir: &str, n: u64) {
    let seed = env_u64("VERIF_SEED", 1);
    let mut r = Rng::new(seed);
    let mut cases = std::io::BufWriter::new(std::fs::File::create(format!("{outdir}/cases.txt")).unwrap());
    let mut imp = std::io::BufWriter::new(std::fs::File::create(format!("{outdir}/impl.txt")).unwrap());
    let mut mon = std::io::BufWriter::new(std::fs::File::create(format!("{outdir}/monitor.txt")).unwrap());
    let mut kinds: BTreeMap<&'static str, u64> = BTreeMap::new();
    let mut depths: BTreeMap<u32, u64> = BTreeMap::new();
    let mut sizes: BTreeMap<&'static str, u64> = BTreeMap::new();
    let mut distinct = std::collections::HashSet::new();
    let mut nontrivial = 0u64;
    let mut samples: Vec<String> = Vec::new();
    let mut too_deep = 0u64;

    for i in 0..n {
        verif_harness::valuegen::set_budget(if r.chance(1, 50) { 70_000 } else { 400 });
        let v = if r.chance(1, 2) {
            let d = r.range(1, 6) as u32;
            gen_tree(&mut r, d)
        } else {
            let d = r.range(1, 40) as u32;
            gen_chain(&mut r, d)
        };
        let d = depth(&v);
        *depths.entry(d).or_default() += 1;
        walk(&v, &mut |x| *kinds.entry(kind_name(x)).or_default() += 1);
        let text = fmt_value(&v, false);
        let canon = fmt_value(&v, true);
        if distinct.insert(canon.clone()) && d >= 2 {
            nontrivial += 1;
        }
        if i < 3 || (d > 32 && too_deep < 1) {
            samples.push(if text.len() > 400 { format!("{}…", &text[..400]) } else { text.clone() });
        }
        if d > 32 {
            too_deep += 1;
        }

        for epoch in [2, 1] {
            let res = catch(|| {
                if epoch == 2 {
                    SerializedValue::serialize(&v)
                } else {
                    SerializedValue::serialize_as::<tags::Value>(Legacy(&v))
                }
            });
            writeln!(cases, "ser{} {}", epoch, text).unwrap();
            match res {
                Err(p) => {
                    writeln!(imp, "!PANIC {}", p.replace('\n', " ")).unwrap();
                    writeln!(mon, "C01 panic in serialize epoch={} value={}", epoch, text).unwrap();
                }
                Ok(Err(e)) => {
                    writeln!(imp, "{}", ser_err(e)).unwrap();
                    // monitor: rejection exactly for depth > 32, with the nesting error
                    if !(d > 32 && e == SerializeError::TooDeeplyNested) {
                        writeln!(mon, "C01 serialize epoch={} rejected depth={} err={} value={}", epoch, d, ser_err(e), text).unwrap();
                    }
                }
                Ok(Ok(sv)) => {
                    let bytes: Vec<u8> = sv.to_vec();
                    let bucket = match bytes.len() {
                        0..=15 => "<16",
                        16..=255 => "<256",
                        256..=65535 => "<64Ki",
                        _ => ">=64Ki",
                    };
                    *sizes.entry(bucket).or_default() += 1;
                    writeln!(imp, "{}", hex(&bytes)).unwrap();
                    if d > 32 {
                        writeln!(mon, "C01 serialize epoch={} accepted depth={} value={}", epoch, d, text).unwrap();
                    }
                    // decode what was produced
                    let h = hex(&bytes);
                    writeln!(cases, "dec {}", h).unwrap();
                    let back = catch(|| sv.deserialize_as_value());
                    match back {
                        Ok(Ok(w)) => {
                            let wc = fmt_value(&w, true);
                            writeln!(imp, "{}", wc).unwrap();
                            if wc != canon {
                                writeln!(mon, "C01 roundtrip epoch={} differs value={} bytes={}", epoch, text, h).unwrap();
                            }
                        }
                        Ok(Err(e)) => {
                            writeln!(imp, "{}", de_err(e)).unwrap();
                            writeln!(mon, "C01 roundtrip epoch={} decode error {} value={} bytes={}", epoch, de_err(e), text, h).unwrap();
                        }
                        Err(p) => {
                            writeln!(imp, "!PANIC {}", p.replace('\n', " ")).unwrap();
                            writeln!(mon, "C01 panic in decode epoch={} bytes={}", epoch, h).unwrap();
                        }
                    }
                }
            }
            if d > 32 {
                // bytes of the over-deep value come from the model's depth-unchecked encoder;
                // the check driver feeds them back through `codec run`
                writeln!(cases, "raw{} {}", epoch, text).unwrap();
                writeln!(imp, "-").unwrap();
            }
        }
    }

    let mut stats = String::new();
    write!(stats, "{{\"seed\":{},\"values\":{},\"distinct_nontrivial\":{},\"too_deep\":{},", seed, n, nontrivial, too_deep).unwrap();
    write!(stats, "\"kinds\":{{{}}},", kinds.iter().map(|(k, v)| format!("\"{}\":{}", k, v)).collect::<Vec<_>>().join(",")).unwrap();
    write!(stats, "\"depths\":{{{}}},", depths.iter().map(|(k, v)| format!("\"{}\":{}", k, v)).collect::<Vec<_>>().join(",")).unwrap();
    write!(stats, "\"encoded_sizes\":{{{}}},", sizes.iter().map(|(k, v)| format!("\"{}\":{}", k, v)).collect::<Vec<_>>().join(",")).unwrap();
    write!(stats, "\"samples\":[{}]}}", samples.iter().map(|s| format!("\"{}\"", s)).collect::<Vec<_>>().join(",")).unwrap();
    std::fs::write(format!("{outdir}/stats.json"), stats).unwrap();
}

/// mutate a valid encoding: flips, truncation, insertion, deletion, length-field edits, splices
fn mutate(r: &mut Rng, b: &mut Vec<u8>, other: &[u8]) {
    let n = r.range(1, 3);
    for _ in 0..n {
        if b.is_empty() {
            b.push(r.next() as u8);
            continue;
        }
        let i = r.below(b.len() as u64) as usize;
        match r.below(9) {
            0 => b[i] ^= 1 << r.below(8),
            1 => b[i] = r.next() as u8,
            2 => b.truncate(i),
            3 => b.insert(i, r.next() as u8),
            4 => {
                b.remove(i);
            }
            5 => b[i] = *r.pick(&[0u8, 1, 250, 251, 252, 253, 254, 255, 65, 66]),
            6 => b[i] = b[i].wrapping_add(1),
            7 => {
                // splice a piece of another encoding
                if !other.is_empty() {
                    let j = r.below(other.len() as u64) as usize;
                    let k = (j + r.range(1, 8) as usize).min(other.len());
                    let piece = other[j..k].to_vec();
                    b.splice(i..i, piece);
                }
            }
            _ => b.extend_from_slice(&[r.next() as u8]),
        }
    }
}

fn cmd_mut(outdir: &str, n: u64) {
    let seed = env_u64("VERIF_SEED", 1);
    let mut r = Rng::new(seed);
    let mut cases = std::io::BufWriter::new(std::fs::File::create(format!("{outdir}/cases.txt")).unwrap());
    let mut imp = std::io::BufWriter::new(std::fs::File::create(format!("{outdir}/impl.txt")).unwrap());
    let mut mon = std::io::BufWriter::new(std::fs::File::create(format!("{outdir}/monitor.txt")).unwrap());
    let mut stream: BTreeMap<&'static str, u64> = BTreeMap::new();
    let mut classes: BTreeMap<String, u64> = BTreeMap::new();
    let mut distinct = std::collections::HashSet::new();
    let mut nontrivial = 0u64;
    let mut samples: Vec<String> = Vec::new();
    let mut max_ratio = 0f64;
    let mut prev: Vec<u8> = vec![0];

    for i in 0..n {
        verif_harness::valuegen::set_budget(if r.chance(1, 100) { 70_000 } else { 200 });
        let which = r.below(10);
        let bytes: Vec<u8> = if which < 9 {
            let v = if r.chance(1, 2) {
                let d = r.range(1, 5) as u32;
                gen_tree(&mut r, d)
            } else {
                let d = r.range(1, 34) as u32;
                gen_chain(&mut r, d)
            };
            let sv = if r.chance(1, 2) {
                SerializedValue::serialize(&v)
            } else {
                SerializedValue::serialize_as::<tags::Value>(Legacy(&v))
            };
            let mut b = match sv {
                Ok(sv) => sv.to_vec(),
                Err(_) => vec![0],
            };
            if which < 3 {
                *stream.entry("valid").or_default() += 1;
            } else {
                *stream.entry("mutated").or_default() += 1;
                mutate(&mut r, &mut b, &prev);
            }
            b
        } else {
            *stream.entry("random").or_default() += 1;
            let len = r.range(1, 24) as usize;
            (0..len)
                .map(|_| if r.chance(1, 2) { r.below(66) as u8 } else { r.next() as u8 })
                .collect()
        };
        if bytes.is_empty() {
            continue;
        }
        if bytes.len() < 4096 {
            prev = bytes.clone();
        }
        let h = hex(&bytes);
        let (dec, peak1) = peak_during(|| run_op("dec", &[&h]));
        let (skip, peak2) = peak_during(|| run_op("skip", &[&h]));
        let (split, peak3) = peak_during(|| run_op("split", &[&h]));
        let kind = run_op("kind", &[&h]);
        for (op, res) in [("dec", &dec), ("skip", &skip), ("split", &split), ("kind", &kind)] {
            writeln!(cases, "{} {}", op, h).unwrap();
            writeln!(imp, "{}", res).unwrap();
        }
        let class = format!(
            "dec={} skip={}",
            if dec.starts_with('!') { dec.as_str() } else { "Ok" },
            if skip.starts_with('!') { skip.as_str() } else { "Ok" }
        );
        *classes.entry(class).or_default() += 1;
        if distinct.insert(h.clone()) && bytes.len() >= 2 {
            nontrivial += 1;
        }
        if i < 4 {
            samples.push(if h.len() > 200 { format!("{}…", &h[..200]) } else { h.clone() });
        }

        // ---- monitor on the implementation alone (the property statement) ----
        let mut fail = |what: &str| {
            writeln!(mon, "C07 {} bytes={} dec={} skip={} split={} kind={}", what, h,
                &dec[..dec.len().min(120)], skip, &split[..split.len().min(120)], kind).unwrap();
        };
        for (name, res) in [("dec", &dec), ("skip", &skip), ("split", &split), ("kind", &kind)] {
            if res.starts_with("!PANIC") || res.starts_with("!APIS") {
                fail(&format!("panic in {}", name));
            }
        }
        let dec_succeeded = !dec.starts_with('!') || dec == "!TrailingData";
        let skip_len: Option<usize> = skip.parse().ok();
        if dec_succeeded {
            match skip_len {
                None => fail("decode succeeds but skip fails"),
                Some(k) => {
                    if !dec.starts_with('!') && k != bytes.len() {
                        fail("skip length differs from the bytes decode consumed");
                    }
                    if dec == "!TrailingData" {
                        let sub = hex(&bytes[..k.min(bytes.len())]);
                        let d2 = run_op("dec", &[&sub]);
                        if k >= bytes.len() || d2.starts_with('!') {
                            fail("skip length is not the decoded prefix");
                        }
                    }
                }
            }
        }
        if let Some(k) = skip_len {
            if k == 0 || k > bytes.len() {
                fail("skip reports an impossible length");
            } else {
                let sub = hex(&bytes[..k]);
                let d2 = run_op("dec", &[&sub]);
                // skipping accepts what decoding accepts, except that it does not validate UTF-8
                if d2.starts_with('!') && d2 != "!Invalid" {
                    fail(&format!("skip accepts a prefix that decoding rejects with {}", d2));
                }
                // an opaque value that was split off re-decodes to the same value
                let sp = run_op("split", &[&sub]);
                if sp != sub {
                    fail("split-off of a skippable value does not return exactly its bytes");
                }
            }
        }
        if !kind.starts_with('!') && kind != format!("{}", bytes[0]) {
            fail("kind() differs from the first byte");
        }
        let peak = peak1.max(peak2).max(peak3);
        let bound = 1024 * bytes.len() + 65536;
        let ratio = peak as f64 / bytes.len() as f64;
        if ratio > max_ratio {
            max_ratio = ratio;
        }
        if peak > bound {
            fail(&format!("allocation {} exceeds bound {}", peak, bound));
        }
    }

    let mut stats = String::new();
    write!(stats, "{{\"seed\":{},\"inputs\":{},\"distinct_nontrivial\":{},\"max_alloc_per_input_byte\":{:.1},", seed, n, nontrivial, max_ratio).unwrap();
    write!(stats, "\"streams\":{{{}}},", stream.iter().map(|(k, v)| format!("\"{}\":{}", k, v)).collect::<Vec<_>>().join(",")).unwrap();
    write!(stats, "\"result_classes\":{{{}}},", classes.iter().map(|(k, v)| format!("\"{}\":{}", k, v)).collect::<Vec<_>>().join(",")).unwrap();
    write!(stats, "\"samples\":[{}]}}", samples.iter().map(|s| format!("\"{}\"", s)).collect::<Vec<_>>().join(",")).unwrap();
    std::fs::write(format!("{outdir}/stats.json"), stats).unwrap();
}

// ---------------------------------------------------------------- C13: epoch conversion

/// Serializes a `Value` choosing per container node, from the Rng, between the counted
/// (epoch 1) and the terminated (epoch 2) API; Bytes2 payloads are split into random chunks.
struct Mixed<'a>(&'a Value, &'a RefCell<Rng>);

macro_rules! mixed_map {
    ($ser:expr, $tag:ty, $m:expr, $rng:expr) => {{
        if $rng.borrow_mut().chance(1, 2) {
            let mut s = $ser.serialize_map1::<$tag>($m.len())?;
            for (k, v) in $m.iter() {
                s.serialize::<tags::Value>(k, Mixed(v, $rng))?;
            }
            s.finish()
        } else {
            let mut s = $ser.serialize_map2::<$tag>()?;
            for (k, v) in $m.iter() {
                s.serialize::<tags::Value>(k, Mixed(v, $rng))?;
            }
            s.finish()
        }
    }};
}

macro_rules! mixed_set {
    ($ser:expr, $tag:ty, $m:expr, $rng:expr) => {{
        if $rng.borrow_mut().chance(1, 2) {
            let mut s = $ser.serialize_set1::<$tag>($m.len())?;
            for k in $m.iter() {
                s.serialize(k)?;
            }
            s.finish()
        } else {
            let mut s = $ser.serialize_set2::<$tag>()?;
            for k in $m.iter() {
                s.serialize(k)?;
            }
            s.finish()
        }
    }};
}

impl Serialize<tags::Value> for Mixed<'_> {
    fn serialize(self, serializer: Serializer) -> Result<(), SerializeError> {
        let rng = self.1;
        match self.0 {
            Value::Some(x) => serializer.serialize_some::<tags::Value>(Mixed(x, rng)),
            Value::Vec(l) => {
                if rng.borrow_mut().chance(1, 2) {
                    let mut s = serializer.serialize_vec1(l.len())?;
                    for x in l {
                        s.serialize::<tags::Value>(Mixed(x, rng))?;
                    }
                    s.finish()
                } else {
                    let mut s = serializer.serialize_vec2()?;
                    for x in l {
                        s.serialize::<tags::Value>(Mixed(x, rng))?;
                    }
                    s.finish()
                }
            }
            Value::Bytes(b) => {
                if rng.borrow_mut().chance(1, 2) {
                    serializer.serialize_byte_slice1(&b.0)
                } else {
                    let mut s = serializer.serialize_bytes2()?;
                    let mut rest: &[u8] = &b.0;
                    while !rest.is_empty() {
                        let k = if rng.borrow_mut().chance(1, 2) {
                            rest.len()
                        } else {
                            rng.borrow_mut().range(1, rest.len() as u64) as usize
                        };
                        s.serialize(&rest[..k])?;
                        rest = &rest[k..];
                    }
                    s.finish()
                }
            }
            Value::U8Map(m) => mixed_map!(serializer, tags::U8, m, rng),
            Value::I8Map(m) => mixed_map!(serializer, tags::I8, m, rng),
            Value::U16Map(m) => mixed_map!(serializer, tags::U16, m, rng),
            Value::I16Map(m) => mixed_map!(serializer, tags::I16, m, rng),
            Value::U32Map(m) => mixed_map!(serializer, tags::U32, m, rng),
            Value::I32Map(m) => mixed_map!(serializer, tags::I32, m, rng),
            Value::U64Map(m) => mixed_map!(serializer, tags::U64, m, rng),
            Value::I64Map(m) => mixed_map!(serializer, tags::I64, m, rng),
            Value::StringMap(m) => mixed_map!(serializer, tags::String, m, rng),
            Value::UuidMap(m) => mixed_map!(serializer, tags::Uuid, m, rng),
            Value::U8Set(m) => mixed_set!(serializer, tags::U8, m, rng),
            Value::I8Set(m) => mixed_set!(serializer, tags::I8, m, rng),
            Value::U16Set(m) => mixed_set!(serializer, tags::U16, m, rng),
            Value::I16Set(m) => mixed_set!(serializer, tags::I16, m, rng),
            Value::U32Set(m) => mixed_set!(serializer, tags::U32, m, rng),
            Value::I32Set(m) => mixed_set!(serializer, tags::I32, m, rng),
            Value::U64Set(m) => mixed_set!(serializer, tags::U64, m, rng),
            Value::I64Set(m) => mixed_set!(serializer, tags::I64, m, rng),
            Value::StringSet(m) => mixed_set!(serializer, tags::String, m, rng),
            Value::UuidSet(m) => mixed_set!(serializer, tags::Uuid, m, rng),
            Value::Struct(st) => {
                if rng.borrow_mut().chance(1, 2) {
                    let mut s = serializer.serialize_struct1(st.0.len())?;
                    for (id, x) in st.0.iter() {
                        s.serialize::<tags::Value>(*id, Mixed(x, rng))?;
                    }
                    s.finish()
                } else {
                    let mut s = serializer.serialize_struct2()?;
                    for (id, x) in st.0.iter() {
                        s.serialize::<tags::Value>(*id, Mixed(x, rng))?;
                    }
                    s.finish()
                }
            }
            Value::Enum(e) => serializer.serialize_enum::<tags::Value>(e.id, Mixed(&e.value, rng)),
            other => serializer.serialize(other),
        }
    }
}

/// Monitor-side specification of "contains none of the container encodings introduced in 1.20":
/// an independent little parser of the pre-1.20 wire grammar (kinds 0..=42 only); true iff the
/// whole byte string is exactly one such value.  It never looks at the converter.
fn v1_scan(b: &[u8]) -> bool {
    fn varint(b: &[u8], pos: &mut usize, w: usize) -> Option<u64> {
        let first = *b.get(*pos)? as usize;
        *pos += 1;
        if first > 255 - w {
            let n = first - (255 - w);
            let s = b.get(*pos..*pos + n)?;
            *pos += n;
            let mut v = 0u64;
            for (i, x) in s.iter().enumerate() {
                v |= (*x as u64) << (8 * i);
            }
            Some(v)
        } else {
            Some(first as u64)
        }
    }
    fn fixed(b: &[u8], pos: &mut usize, n: usize) -> Option<()> {
        b.get(*pos..pos.checked_add(n)?)?;
        *pos += n;
        Some(())
    }
    fn key(b: &[u8], pos: &mut usize, idx: u8) -> Option<()> {
        match idx {
            0 | 1 => fixed(b, pos, 1),
            2 | 3 => varint(b, pos, 2).map(|_| ()),
            4 | 5 => varint(b, pos, 4).map(|_| ()),
            6 | 7 => varint(b, pos, 8).map(|_| ()),
            8 => {
                let n = varint(b, pos, 4)? as usize;
                fixed(b, pos, n)
            }
            _ => fixed(b, pos, 16),
        }
    }
    fn value(b: &[u8], pos: &mut usize, depth: u32) -> Option<()> {
        if depth > 32 {
            return None;
        }
        let k = *b.get(*pos)?;
        *pos += 1;
        match k {
            0 => Some(()),
            1 => value(b, pos, depth + 1),
            2 | 3 | 4 => fixed(b, pos, 1),
            5 | 6 => varint(b, pos, 2).map(|_| ()),
            7 | 8 => varint(b, pos, 4).map(|_| ()),
            9 | 10 => varint(b, pos, 8).map(|_| ()),
            11 => fixed(b, pos, 4),
            12 => fixed(b, pos, 8),
            13 | 18 => {
                let n = varint(b, pos, 4)? as usize;
                fixed(b, pos, n)
            }
            14 | 41 | 42 => fixed(b, pos, 16),
            15 => fixed(b, pos, 32),
            16 => fixed(b, pos, 64),
            17 => {
                let n = varint(b, pos, 4)?;
                for _ in 0..n {
                    value(b, pos, depth + 1)?;
                }
                Some(())
            }
            19..=28 => {
                let n = varint(b, pos, 4)?;
                for _ in 0..n {
                    key(b, pos, k - 19)?;
                    value(b, pos, depth + 1)?;
                }
                Some(())
            }
            29..=38 => {
                let n = varint(b, pos, 4)?;
                for _ in 0..n {
                    key(b, pos, k - 29)?;
                }
                Some(())
            }
            39 => {
                let n = varint(b, pos, 4)?;
                for _ in 0..n {
                    varint(b, pos, 4)?;
                    value(b, pos, depth + 1)?;
                }
                Some(())
            }
            40 => {
                varint(b, pos, 4)?;
                value(b, pos, depth + 1)
            }
            _ => None, // 43..=65: the 1.20 container encodings; > 65: no kind at all
        }
    }
    let mut pos = 0usize;
    value(b, &mut pos, 1).is_some() && pos == b.len()
}

fn version_valid(v: &str) -> bool {
    // the property's range: 1.14 ..= 1.20
    match v.split_once('.') {
        Some((a, b)) => a == "1" && b.parse::<u64>().map(|m| (14..=20).contains(&m)).unwrap_or(false),
        None => false,
    }
}

fn version_epoch(v: &str) -> u8 {
    if v == "1.20" { 2 } else { 1 }
}

/// `codec convgen <outdir> <n>`: n inputs (valid serializations in epoch 2, epoch 1 and mixed,
/// mutations of them, random strings), a few (from, to) pairs each, through both convert APIs.
fn cmd_convgen(outdir: &str, n: u64) {
    let seed = env_u64("VERIF_SEED", 1);
    let rng = RefCell::new(Rng::new(seed));
    let mut cases = std::io::BufWriter::new(std::fs::File::create(format!("{outdir}/cases.txt")).unwrap());
    let mut imp = std::io::BufWriter::new(std::fs::File::create(format!("{outdir}/impl.txt")).unwrap());
    let mut mon = std::io::BufWriter::new(std::fs::File::create(format!("{outdir}/monitor.txt")).unwrap());
    let mut stream: BTreeMap<&'static str, u64> = BTreeMap::new();
    let mut classes: BTreeMap<String, u64> = BTreeMap::new();
    let mut pairs: BTreeMap<String, u64> = BTreeMap::new();
    let mut distinct = std::collections::HashSet::new();
    let mut nontrivial = 0u64;
    let mut conversions = 0u64;
    let mut samples: Vec<String> = Vec::new();
    let mut prev: Vec<u8> = vec![0];
    let core: Vec<String> = std::iter::once("none".to_string()).chain((13..=21).map(|m| format!("1.{m}"))).collect();
    let exotic = ["0.14", "0.20", "2.0", "2.14", "1.0", "1.4294967295", "4294967295.20", "0.0", "2.20", "1.140"];

    for i in 0..n {
        verif_harness::valuegen::set_budget(if rng.borrow_mut().chance(1, 100) { 30_000 } else { 200 });
        let which = rng.borrow_mut().below(10);
        let bytes: Vec<u8> = if which < 9 {
            let v = {
                let mut r = rng.borrow_mut();
                if r.chance(1, 2) {
                    let d = r.range(1, 5) as u32;
                    gen_tree(&mut r, d)
                } else {
                    let d = r.range(1, 34) as u32;
                    gen_chain(&mut r, d)
                }
            };
            let enc = rng.borrow_mut().below(4);
            let (name, sv) = match enc {
                0 => ("valid_e2", SerializedValue::serialize(&v)),
                1 => ("valid_e1", SerializedValue::serialize_as::<tags::Value>(Legacy(&v))),
                _ => ("valid_mixed", SerializedValue::serialize_as::<tags::Value>(Mixed(&v, &rng))),
            };
            let mut b = match sv {
                Ok(sv) => sv.to_vec(),
                Err(_) => vec![0],
            };
            if which < 6 {
                *stream.entry(name).or_default() += 1;
            } else {
                let mut r = rng.borrow_mut();
                if r.chance(1, 6) {
                    // nest the value below 1..40 `Some`s: crosses the depth limit
                    *stream.entry("nested_deeper").or_default() += 1;
                    let k = r.range(1, 40) as usize;
                    b.splice(0..0, std::iter::repeat(1u8).take(k));
                } else {
                    *stream.entry("mutated").or_default() += 1;
                    mutate(&mut r, &mut b, &prev);
                }
            }
            b
        } else {
            *stream.entry("random").or_default() += 1;
            let mut r = rng.borrow_mut();
            let len = r.range(1, 24) as usize;
            (0..len)
                .map(|_| if r.chance(1, 2) { r.below(66) as u8 } else { r.next() as u8 })
                .collect()
        };
        if bytes.is_empty() {
            continue;
        }
        if bytes.len() < 4096 {
            prev = bytes.clone();
        }
        let h = hex(&bytes);
        if i < 4 {
            samples.push(if h.len() > 200 { format!("{}…", &h[..200]) } else { h.clone() });
        }
        let dec_in = run_op("dec", &[&h]);

        // (from, to) pairs: one real downgrade, two from {none, 1.13..1.21}^2, sometimes an exotic one
        let mut todo: Vec<(String, String)> = Vec::new();
        {
            let mut r = rng.borrow_mut();
            let f = if r.chance(1, 2) { "none".to_string() } else { "1.20".to_string() };
            todo.push((f, format!("1.{}", r.range(14, 19))));
            for _ in 0..2 {
                let f = r.pick(&core).clone();
                let t = r.pick(&core[1..]).clone();
                todo.push((f, t));
            }
            if r.chance(1, 4) {
                let f = if r.chance(1, 2) { r.pick(&exotic).to_string() } else { r.pick(&core).clone() };
                let t = if r.chance(1, 2) { r.pick(&exotic).to_string() } else { r.pick(&core[1..]).clone() };
                todo.push((f, t));
            }
        }
        for (f, t) in todo {
            conversions += 1;
            let res = run_op("conv", &[&f, &t, &h]);
            writeln!(cases, "conv {} {} {}", f, t, h).unwrap();
            writeln!(imp, "{}", res).unwrap();
            *pairs.entry(format!("{}->{}", if f == "none" { "none" } else if version_valid(&f) { if version_epoch(&f) == 2 { "v2" } else { "v1" } } else { "bad" },
                if version_valid(&t) { if version_epoch(&t) == 2 { "v2" } else { "v1" } } else { "bad" })).or_default() += 1;

            // ---- monitor on the implementation alone (the property statement) ----
            let mut fail = |what: &str, extra: &str| {
                writeln!(mon, "C13 {} bytes={} from={} to={} conv={} dec={} {}", what, h, f, t,
                    &res[..res.len().min(200)], &dec_in[..dec_in.len().min(120)], extra).unwrap();
            };
            if res.starts_with("!PANIC") {
                fail("panic in convert", "");
                *classes.entry("panic".into()).or_default() += 1;
                continue;
            }
            if res.starts_with("!APIS") {
                fail("slice API and in-place API disagree", "");
                continue;
            }
            let f_eff = if f == "none" { "1.20" } else { f.as_str() };
            let versions_ok = version_valid(f_eff) && version_valid(&t);
            if !versions_ok {
                *classes.entry("!InvalidVersion".into()).or_default() += 1;
                if res != "!InvalidVersion" {
                    fail("version outside 1.14..1.20 is not rejected with InvalidVersion", "");
                }
                continue;
            }
            if res == "!InvalidVersion" {
                fail("version inside 1.14..1.20 rejected with InvalidVersion", "");
                continue;
            }
            if version_epoch(&t) >= version_epoch(f_eff) {
                *classes.entry("same-or-newer:identity".into()).or_default() += 1;
                if res != h {
                    fail("conversion to the same or a newer epoch is not the identity", "");
                }
                continue;
            }
            // a real downgrade (1.20 -> 1.14..1.19)
            if res.starts_with('!') {
                *classes.entry(format!("down:{}", res)).or_default() += 1;
                if !dec_in.starts_with('!') {
                    fail("conversion fails on a well-formed value", "");
                }
                // ("fails only for ill-formed input, UTF-8 aside" beyond this is decided by the
                // correspondence with the model's convert_api, not by the skip walker, which is C07's
                // subject: a defect there must not raise an alarm here)
                continue;
            }
            let changed = res != h;
            *classes.entry(if changed { "down:Ok-changed".into() } else { "down:Ok-already-v1".into() }).or_default() += 1;
            if changed && distinct.insert(h.clone()) {
                nontrivial += 1;
            }
            // decodes to the same value (validating decoder: same value or, for non-UTF-8 strings,
            // the same rejection)
            let dec_out = run_op("dec", &[&res]);
            if dec_in.starts_with('!') && dec_in != "!Invalid" {
                fail("conversion succeeds on input the decoder rejects for a reason other than UTF-8", "");
            }
            if dec_out != dec_in {
                fail("converted value decodes differently", &format!("dec_out={}", &dec_out[..dec_out.len().min(120)]));
            }
            // none of the 1.20 container encodings
            let v1 = run_op("v1only", &[&res]);
            writeln!(cases, "v1only {}", res).unwrap();
            writeln!(imp, "{}", v1).unwrap();
            if v1 != "1" {
                fail("converted value contains a 1.20 container encoding (or is no pre-1.20 value)", "");
            }
            // converting twice equals converting once
            let again = run_op("conv", &["none", "1.19", &res]);
            if again != res {
                fail("converting twice differs from converting once", &format!("again={}", &again[..again.len().min(200)]));
            }
        }
    }

    let mut stats = String::new();
    write!(stats, "{{\"seed\":{},\"inputs\":{},\"conversions\":{},\"distinct_nontrivial\":{},", seed, n, conversions, nontrivial).unwrap();
    write!(stats, "\"streams\":{{{}}},", stream.iter().map(|(k, v)| format!("\"{}\":{}", k, v)).collect::<Vec<_>>().join(",")).unwrap();
    write!(stats, "\"version_pairs\":{{{}}},", pairs.iter().map(|(k, v)| format!("\"{}\":{}", k, v)).collect::<Vec<_>>().join(",")).unwrap();
    write!(stats, "\"result_classes\":{{{}}},", classes.iter().map(|(k, v)| format!("\"{}\":{}", k, v)).collect::<Vec<_>>().join(",")).unwrap();
    write!(stats, "\"samples\":[{}]}}", samples.iter().map(|s| format!("\"{}\"", s)).collect::<Vec<_>>().join(",")).unwrap();
    std::fs::write(format!("{outdir}/stats.json"), stats).unwrap();
}

fn main() {
    quiet_panics();
    let args: Vec<String> = std::env::args().collect();
    match args.get(1).map(String::as_str) {
        Some("gen") => cmd_gen(&args[2], args[3].parse().unwrap()),
        Some("run") => cmd_run(&args[2], &args[3]),
        Some("mut") => cmd_mut(&args[2], args[3].parse().unwrap()),
        Some("convgen") => cmd_convgen(&args[2], args[3].parse().unwrap()),
        _ => {
            eprintln!("usage: codec gen <outdir> <n> | codec run <cases> <out>");
            std::process::exit(2);
        }
    }
}
