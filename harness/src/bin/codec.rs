//! `codec gen <outdir> <n>`: generate values, run the real serializer/deserializer, write
//!   cases.txt (ops for the model driver), impl.txt (what the implementation answered, one
//!   line per op), monitor.txt (property violations seen on the implementation alone) and
//!   stats.json (input distribution).
//! `codec run <cases> <impl-out>`: interpret byte-level ops (dec/skip/split/kind/conv) from a
//!   file with the real code.
use aldrin_core::tags;
use aldrin_core::{
    Deserialize, DeserializeError, Deserializer, ProtocolVersion, SerializeError,
    SerializedValue, ValueConversionError,
};
use std::cell::Cell;
use std::collections::BTreeMap;
use std::fmt::Write as _;
use std::io::{BufRead, Write};
use verif_harness::valuefmt::{fmt_value, Legacy};
use verif_harness::valuegen::{depth, gen_chain, gen_tree, kind_name, walk};
use verif_harness::{catch, env_u64, hex, quiet_panics, sv_from_bytes, unhex, Rng};

fn de_err(e: DeserializeError) -> &'static str {
    match e {
        DeserializeError::InvalidSerialization => "!Invalid",
        DeserializeError::UnexpectedEoi => "!Eoi",
        DeserializeError::UnexpectedValue => "!UnexpectedValue",
        DeserializeError::TooDeeplyNested => "!TooDeep",
        DeserializeError::NoMoreElements => "!NoMoreElements",
        DeserializeError::MoreElementsRemain => "!MoreElementsRemain",
        DeserializeError::TrailingData => "!TrailingData",
    }
}

fn ser_err(e: SerializeError) -> &'static str {
    match e {
        SerializeError::UnexpectedValue => "!UnexpectedValue",
        SerializeError::Overflow => "!Overflow",
        SerializeError::TooManyElements => "!TooManyElements",
        SerializeError::TooFewElements => "!TooFewElements",
        SerializeError::TooDeeplyNested => "!TooDeep",
    }
}

fn conv_err(e: ValueConversionError) -> &'static str {
    match e {
        ValueConversionError::InvalidVersion => "!InvalidVersion",
        ValueConversionError::Serialize(e) => ser_err(e),
        ValueConversionError::Deserialize(e) => de_err(e),
    }
}

thread_local! {
    static LEN: Cell<Option<usize>> = Cell::new(None);
}

/// counting allocator: current and peak live bytes, for the C07 allocation monitor
struct Counting;
static CUR: std::sync::atomic::AtomicUsize = std::sync::atomic::AtomicUsize::new(0);
static PEAK: std::sync::atomic::AtomicUsize = std::sync::atomic::AtomicUsize::new(0);
unsafe impl std::alloc::GlobalAlloc for Counting {
    unsafe fn alloc(&self, l: std::alloc::Layout) -> *mut u8 {
        use std::sync::atomic::Ordering::Relaxed;
        let c = CUR.fetch_add(l.size(), Relaxed) + l.size();
        PEAK.fetch_max(c, Relaxed);
        std::alloc::System.alloc(l)
    }
    unsafe fn dealloc(&self, p: *mut u8, l: std::alloc::Layout) {
        CUR.fetch_sub(l.size(), std::sync::atomic::Ordering::Relaxed);
        std::alloc::System.dealloc(p, l)
    }
}
#[global_allocator]
static ALLOC: Counting = Counting;

/// peak extra bytes allocated while running `f`
fn peak_during<T>(f: impl FnOnce() -> T) -> (T, usize) {
    use std::sync::atomic::Ordering::Relaxed;
    let base = CUR.load(Relaxed);
    PEAK.store(base, Relaxed);
    let r = f();
    (r, PEAK.load(Relaxed).saturating_sub(base))
}

struct SkipProbe;

impl Deserialize<tags::Value> for SkipProbe {
    fn deserialize(d: Deserializer) -> Result<Self, DeserializeError> {
        let n = d.len()?;
        LEN.with(|l| l.set(Some(n)));
        d.skip()?;
        Ok(SkipProbe)
    }
}

fn parse_version(s: &str) -> Option<ProtocolVersion> {
    if s == "none" {
        return None;
    }
    let (a, b) = s.split_once('.').unwrap();
    Some(ProtocolVersion::new(a.parse().unwrap(), b.parse().unwrap()))
}

/// one byte-level op on the real code
fn run_op(op: &str, args: &[&str]) -> String {
    let bytes = unhex(args.last().copied().unwrap_or(""));
    let r = catch(|| {
        let Some(sv) = sv_from_bytes(&bytes) else {
            return "!Empty".to_string();
        };
        match op {
            "dec" => match sv.deserialize_as_value() {
                Ok(v) => fmt_value(&v, true),
                Err(e) => de_err(e).to_string(),
            },
            "skip" => {
                LEN.with(|l| l.set(None));
                match sv.deserialize_as::<tags::Value, SkipProbe>() {
                    Ok(_) | Err(DeserializeError::TrailingData) => {
                        format!("{}", LEN.with(|l| l.get()).unwrap())
                    }
                    Err(e) => de_err(e).to_string(),
                }
            }
            "split" => match sv.deserialize::<SerializedValue>() {
                Ok(v) => hex(&v),
                Err(e) => de_err(e).to_string(),
            },
            "kind" => match sv.kind() {
                Ok(k) => format!("{}", u8::from(k)),
                Err(e) => de_err(e).to_string(),
            },
            "conv" => {
                let from = parse_version(args[0]);
                let to = parse_version(args[1]).unwrap();
                // the Cow-returning slice API and the in-place API must agree
                let a: Result<Vec<u8>, ValueConversionError> = { let sl: &aldrin_core::SerializedValueSlice = &sv; sl.convert(from, to).map(|c| { let s: &[u8] = &**c; s.to_vec() }) };
                let mut owned = sv.clone();
                let b: Result<Vec<u8>, ValueConversionError> = owned.convert(from, to).map(|()| { let s: &[u8] = &**owned; s.to_vec() });
                match (a, b) {
                    (Ok(x), Ok(y)) if x == y => hex(&x),
                    (Err(x), Err(y)) if conv_err(x) == conv_err(y) => conv_err(x).to_string(),
                    (x, y) => format!(
                        "!APIS-DISAGREE slice={} owned={}",
                        x.map(|b| hex(&b)).unwrap_or_else(|e| conv_err(e).to_string()),
                        y.map(|b| hex(&b)).unwrap_or_else(|e| conv_err(e).to_string())
                    ),
                }
            }
            _ => format!("!UnknownOp {}", op),
        }
    });
    r.unwrap_or_else(|p| format!("!PANIC {}", p.replace('\n', " ")))
}

fn cmd_run(cases: &str, out: &str) {
    let f = std::io::BufReader::new(std::fs::File::open(cases).unwrap());
    let mut o = std::io::BufWriter::new(std::fs::File::create(out).unwrap());
    for line in f.lines() {
        let line = line.unwrap();
        let parts: Vec<&str> = line.split(' ').collect();
        writeln!(o, "{}", run_op(parts[0], &parts[1..])).unwrap();
    }
}

fn cmd_gen(outdir: &str, n: u64) {
    let seed = env_u64("VERIF_SEED", 1);
    let mut r = Rng::new(seed);
    let mut cases = std::io::BufWriter::new(std::fs::File::create(format!("{outdir}/cases.txt")).unwrap());
    let mut imp = std::io::BufWriter::new(std::fs::File::create(format!("{outdir}/impl.txt")).unwrap());
    let mut mon = std::io::BufWriter::new(std::fs::File::create(format!("{outdir}/monitor.txt")).unwrap());
    let mut kinds: BTreeMap<&'static str, u64> = BTreeMap::new();
    let mut depths: BTreeMap<u32, u64> = BTreeMap::new();
    let mut sizes: BTreeMap<&'static str, u64> = BTreeMap::new();
    let mut distinct = std::collections::HashSet::new();
    let mut nontrivial = 0u64;
    let mut samples: Vec<String> = Vec::new();
    let mut too_deep = 0u64;

    for i in 0..n {
        verif_harness::valuegen::set_budget(if r.chance(1, 50) { 70_000 } else { 400 });
        let v = if r.chance(1, 2) {
            let d = r.range(1, 6) as u32;
            gen_tree(&mut r, d)
        } else {
            let d = r.range(1, 40) as u32;
            gen_chain(&mut r, d)
        };
        let d = depth(&v);
        *depths.entry(d).or_default() += 1;
        walk(&v, &mut |x| *kinds.entry(kind_name(x)).or_default() += 1);
        let text = fmt_value(&v, false);
        let canon = fmt_value(&v, true);
        if distinct.insert(canon.clone()) && d >= 2 {
            nontrivial += 1;
        }
        if i < 3 || (d > 32 && too_deep < 1) {
            samples.push(if text.len() > 400 { format!("{}…", &text[..400]) } else { text.clone() });
        }
        if d > 32 {
            too_deep += 1;
        }

        for epoch in [2, 1] {
            let res = catch(|| {
                if epoch == 2 {
                    SerializedValue::serialize(&v)
                } else {
                    SerializedValue::serialize_as::<tags::Value>(Legacy(&v))
                }
            });
            writeln!(cases, "ser{} {}", epoch, text).unwrap();
            match res {
                Err(p) => {
                    writeln!(imp, "!PANIC {}", p.replace('\n', " ")).unwrap();
                    writeln!(mon, "C01 panic in serialize epoch={} value={}", epoch, text).unwrap();
                }
                Ok(Err(e)) => {
                    writeln!(imp, "{}", ser_err(e)).unwrap();
                    // monitor: rejection exactly for depth > 32, with the nesting error
                    if !(d > 32 && e == SerializeError::TooDeeplyNested) {
                        writeln!(mon, "C01 serialize epoch={} rejected depth={} err={} value={}", epoch, d, ser_err(e), text).unwrap();
                    }
                }
                Ok(Ok(sv)) => {
                    let bytes: Vec<u8> = sv.to_vec();
                    let bucket = match bytes.len() {
                        0..=15 => "<16",
                        16..=255 => "<256",
                        256..=65535 => "<64Ki",
                        _ => ">=64Ki",
                    };
                    *sizes.entry(bucket).or_default() += 1;
                    writeln!(imp, "{}", hex(&bytes)).unwrap();
                    if d > 32 {
                        writeln!(mon, "C01 serialize epoch={} accepted depth={} value={}", epoch, d, text).unwrap();
                    }
                    // decode what was produced
                    let h = hex(&bytes);
                    writeln!(cases, "dec {}", h).unwrap();
                    let back = catch(|| sv.deserialize_as_value());
                    match back {
                        Ok(Ok(w)) => {
                            let wc = fmt_value(&w, true);
                            writeln!(imp, "{}", wc).unwrap();
                            if wc != canon {
                                writeln!(mon, "C01 roundtrip epoch={} differs value={} bytes={}", epoch, text, h).unwrap();
                            }
                        }
                        Ok(Err(e)) => {
                            writeln!(imp, "{}", de_err(e)).unwrap();
                            writeln!(mon, "C01 roundtrip epoch={} decode error {} value={} bytes={}", epoch, de_err(e), text, h).unwrap();
                        }
                        Err(p) => {
                            writeln!(imp, "!PANIC {}", p.replace('\n', " ")).unwrap();
                            writeln!(mon, "C01 panic in decode epoch={} bytes={}", epoch, h).unwrap();
                        }
                    }
                }
            }
            if d > 32 {
                // bytes of the over-deep value come from the model's depth-unchecked encoder;
                // the check driver feeds them back through `codec run`
                writeln!(cases, "raw{} {}", epoch, text).unwrap();
                writeln!(imp, "-").unwrap();
            }
        }
    }

    let mut stats = String::new();
    write!(stats, "{{\"seed\":{},\"values\":{},\"distinct_nontrivial\":{},\"too_deep\":{},", seed, n, nontrivial, too_deep).unwrap();
    write!(stats, "\"kinds\":{{{}}},", kinds.iter().map(|(k, v)| format!("\"{}\":{}", k, v)).collect::<Vec<_>>().join(",")).unwrap();
    write!(stats, "\"depths\":{{{}}},", depths.iter().map(|(k, v)| format!("\"{}\":{}", k, v)).collect::<Vec<_>>().join(",")).unwrap();
    write!(stats, "\"encoded_sizes\":{{{}}},", sizes.iter().map(|(k, v)| format!("\"{}\":{}", k, v)).collect::<Vec<_>>().join(",")).unwrap();
    write!(stats, "\"samples\":[{}]}}", samples.iter().map(|s| format!("\"{}\"", s)).collect::<Vec<_>>().join(",")).unwrap();
    std::fs::write(format!("{outdir}/stats.json"), stats).unwrap();
}

/// mutate a valid encoding: flips, truncation, insertion, deletion, length-field edits, splices
fn mutate(r: &mut Rng, b: &mut Vec<u8>, other: &[u8]) {
    let n = r.range(1, 3);
    for _ in 0..n {
        if b.is_empty() {
            b.push(r.next() as u8);
            continue;
        }
        let i = r.below(b.len() as u64) as usize;
        match r.below(9) {
            0 => b[i] ^= 1 << r.below(8),
            1 => b[i] = r.next() as u8,
            2 => b.truncate(i),
            3 => b.insert(i, r.next() as u8),
            4 => {
                b.remove(i);
            }
            5 => b[i] = *r.pick(&[0u8, 1, 250, 251, 252, 253, 254, 255, 65, 66]),
            6 => b[i] = b[i].wrapping_add(1),
            7 => {
                // splice a piece of another encoding
                if !other.is_empty() {
                    let j = r.below(other.len() as u64) as usize;
                    let k = (j + r.range(1, 8) as usize).min(other.len());
                    let piece = other[j..k].to_vec();
                    b.splice(i..i, piece);
                }
            }
            _ => b.extend_from_slice(&[r.next() as u8]),
        }
    }
}

fn cmd_mut(outdir: &str, n: u64) {
    let seed = env_u64("VERIF_SEED", 1);
    let mut r = Rng::new(seed);
    let mut cases = std::io::BufWriter::new(std::fs::File::create(format!("{outdir}/cases.txt")).unwrap());
    let mut imp = std::io::BufWriter::new(std::fs::File::create(format!("{outdir}/impl.txt")).unwrap());
    let mut mon = std::io::BufWriter::new(std::fs::File::create(format!("{outdir}/monitor.txt")).unwrap());
    let mut stream: BTreeMap<&'static str, u64> = BTreeMap::new();
    let mut classes: BTreeMap<String, u64> = BTreeMap::new();
    let mut distinct = std::collections::HashSet::new();
    let mut nontrivial = 0u64;
    let mut samples: Vec<String> = Vec::new();
    let mut max_ratio = 0f64;
    let mut prev: Vec<u8> = vec![0];

    for i in 0..n {
        verif_harness::valuegen::set_budget(if r.chance(1, 100) { 70_000 } else { 200 });
        let which = r.below(10);
        let bytes: Vec<u8> = if which < 9 {
            let v = if r.chance(1, 2) {
                let d = r.range(1, 5) as u32;
                gen_tree(&mut r, d)
            } else {
                let d = r.range(1, 34) as u32;
                gen_chain(&mut r, d)
            };
            let sv = if r.chance(1, 2) {
                SerializedValue::serialize(&v)
            } else {
                SerializedValue::serialize_as::<tags::Value>(Legacy(&v))
            };
            let mut b = match sv {
                Ok(sv) => sv.to_vec(),
                Err(_) => vec![0],
            };
            if which < 3 {
                *stream.entry("valid").or_default() += 1;
            } else {
                *stream.entry("mutated").or_default() += 1;
                mutate(&mut r, &mut b, &prev);
            }
            b
        } else {
            *stream.entry("random").or_default() += 1;
            let len = r.range(1, 24) as usize;
            (0..len)
                .map(|_| if r.chance(1, 2) { r.below(66) as u8 } else { r.next() as u8 })
                .collect()
        };
        if bytes.is_empty() {
            continue;
        }
        if bytes.len() < 4096 {
            prev = bytes.clone();
        }
        let h = hex(&bytes);
        let (dec, peak1) = peak_during(|| run_op("dec", &[&h]));
        let (skip, peak2) = peak_during(|| run_op("skip", &[&h]));
        let (split, peak3) = peak_during(|| run_op("split", &[&h]));
        let kind = run_op("kind", &[&h]);
        for (op, res) in [("dec", &dec), ("skip", &skip), ("split", &split), ("kind", &kind)] {
            writeln!(cases, "{} {}", op, h).unwrap();
            writeln!(imp, "{}", res).unwrap();
        }
        let class = format!(
            "dec={} skip={}",
            if dec.starts_with('!') { dec.as_str() } else { "Ok" },
            if skip.starts_with('!') { skip.as_str() } else { "Ok" }
        );
        *classes.entry(class).or_default() += 1;
        if distinct.insert(h.clone()) && bytes.len() >= 2 {
            nontrivial += 1;
        }
        if i < 4 {
            samples.push(if h.len() > 200 { format!("{}…", &h[..200]) } else { h.clone() });
        }

        // ---- monitor on the implementation alone (the property statement) ----
        let mut fail = |what: &str| {
            writeln!(mon, "C07 {} bytes={} dec={} skip={} split={} kind={}", what, h,
                &dec[..dec.len().min(120)], skip, &split[..split.len().min(120)], kind).unwrap();
        };
        for (name, res) in [("dec", &dec), ("skip", &skip), ("split", &split), ("kind", &kind)] {
            if res.starts_with("!PANIC") || res.starts_with("!APIS") {
                fail(&format!("panic in {}", name));
            }
        }
        let dec_succeeded = !dec.starts_with('!') || dec == "!TrailingData";
        let skip_len: Option<usize> = skip.parse().ok();
        if dec_succeeded {
            match skip_len {
                None => fail("decode succeeds but skip fails"),
                Some(k) => {
                    if !dec.starts_with('!') && k != bytes.len() {
                        fail("skip length differs from the bytes decode consumed");
                    }
                    if dec == "!TrailingData" {
                        let sub = hex(&bytes[..k.min(bytes.len())]);
                        let d2 = run_op("dec", &[&sub]);
                        if k >= bytes.len() || d2.starts_with('!') {
                            fail("skip length is not the decoded prefix");
                        }
                    }
                }
            }
        }
        if let Some(k) = skip_len {
            if k == 0 || k > bytes.len() {
                fail("skip reports an impossible length");
            } else {
                let sub = hex(&bytes[..k]);
                let d2 = run_op("dec", &[&sub]);
                // skipping accepts what decoding accepts, except that it does not validate UTF-8
                if d2.starts_with('!') && d2 != "!Invalid" {
                    fail(&format!("skip accepts a prefix that decoding rejects with {}", d2));
                }
                // an opaque value that was split off re-decodes to the same value
                let sp = run_op("split", &[&sub]);
                if sp != sub {
                    fail("split-off of a skippable value does not return exactly its bytes");
                }
            }
        }
        if !kind.starts_with('!') && kind != format!("{}", bytes[0]) {
            fail("kind() differs from the first byte");
        }
        let peak = peak1.max(peak2).max(peak3);
        let bound = 1024 * bytes.len() + 65536;
        let ratio = peak as f64 / bytes.len() as f64;
        if ratio > max_ratio {
            max_ratio = ratio;
        }
        if peak > bound {
            fail(&format!("allocation {} exceeds bound {}", peak, bound));
        }
    }

    let mut stats = String::new();
    write!(stats, "{{\"seed\":{},\"inputs\":{},\"distinct_nontrivial\":{},\"max_alloc_per_input_byte\":{:.1},", seed, n, nontrivial, max_ratio).unwrap();
    write!(stats, "\"streams\":{{{}}},", stream.iter().map(|(k, v)| format!("\"{}\":{}", k, v)).collect::<Vec<_>>().join(",")).unwrap();
    write!(stats, "\"result_classes\":{{{}}},", classes.iter().map(|(k, v)| format!("\"{}\":{}", k, v)).collect::<Vec<_>>().join(",")).unwrap();
    write!(stats, "\"samples\":[{}]}}", samples.iter().map(|s| format!("\"{}\"", s)).collect::<Vec<_>>().join(",")).unwrap();
    std::fs::write(format!("{outdir}/stats.json"), stats).unwrap();
}

fn main() {
    quiet_panics();
    let args: Vec<String> = std::env::args().collect();
    match args.get(1).map(String::as_str) {
        Some("gen") => cmd_gen(&args[2], args[3].parse().unwrap()),
        Some("run") => cmd_run(&args[2], &args[3]),
        Some("mut") => cmd_mut(&args[2], args[3].parse().unwrap()),
        _ => {
            eprintln!("usage: codec gen <outdir> <n> | codec run <cases> <out>");
            std::process::exit(2);
        }
    }
}
