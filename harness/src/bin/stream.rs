//! C14 harness: the real `Packetizer`, `TokioTransport` and `Buffered` against the model.
//!
//! `stream gen <outdir> <n> <shard> <nshards>`: directed cases, the exhaustive chunkings of all
//!   frame streams of at most 12 bytes (shard-th part), `n` random cases; writes cases.txt (one
//!   operation per line, for the model driver), impl.txt (what the implementation answered, one
//!   line per operation), monitor.txt (property violations seen on the implementation alone) and
//!   stats.json.
//! `stream run <cases> <impl-out>`: interpret a cases file with the real code (replays).
//!
//! Operations (state persists until the next `new`/`tnew`/`bnew`):
//!   new | ext <room> <hex> | spare <room> | wr <hex> | next | drain
//!   tnew <rscript> <wscript> | trecv <rooms> | tsend <hex> | tready | tflush     (TokioTransport)
//!   bnew <rscript> <wscript> | brecv <rooms> | bsend <hex> | bready | bflush     (Buffered<Tokio>)
//! `<room>`/`<rooms>` are the spare-room values BytesMut chose (observed on the real code by this
//! harness and handed to the model as its capacity oracle); the real code ignores them.
use aldrin_core::message::{Message, MessageOps, Packetizer};
use aldrin_core::tokio::{TokioTransport, TokioTransportError};
use aldrin_core::transport::{AsyncTransport, AsyncTransportExt, Buffered};
use std::cell::RefCell;
use std::collections::{BTreeMap, HashSet, VecDeque};
use std::fmt::Write as _;
use std::io::{BufRead, Write};
use std::mem::MaybeUninit;
use std::pin::Pin;
use std::rc::Rc;
use std::task::{Context, Poll, Waker};
use tokio::io::{AsyncRead, AsyncWrite, ReadBuf};
use verif_harness::{catch, env_u64, hex, quiet_panics, unhex, Rng};

// ---------------------------------------------------------------- printing

fn blob(b: &[u8]) -> String {
    if b.is_empty() {
        "-".to_string()
    } else if b.len() <= 32 {
        hex(b)
    } else {
        let mut h: u64 = 0x811c9dc5;
        for &x in b {
            h = ((h ^ x as u64).wrapping_mul(16777619)) & 0xffff_ffff;
        }
        format!("#{}:{:08x}", b.len(), h)
    }
}

fn hex_or_dash(b: &[u8]) -> String {
    if b.is_empty() {
        "-".to_string()
    } else {
        hex(b)
    }
}

fn unhex_or_dash(s: &str) -> Vec<u8> {
    if s == "-" {
        Vec::new()
    } else {
        unhex(s)
    }
}

// ---------------------------------------------------------------- scripted I/O object

#[derive(Clone, Debug)]
enum R {
    Data(Vec<u8>),
    Pending,
    Err(u8),
}
#[derive(Clone, Debug)]
enum W {
    Ok(usize),
    Pending,
    Err(u8),
}

fn io_kind(k: u8) -> std::io::ErrorKind {
    use std::io::ErrorKind::*;
    match k {
        0 => BrokenPipe,
        1 => ConnectionReset,
        2 => TimedOut,
        _ => Other,
    }
}
fn io_code(e: &std::io::Error) -> String {
    use std::io::ErrorKind::*;
    match e.kind() {
        BrokenPipe => "io0".into(),
        ConnectionReset => "io1".into(),
        TimedOut => "io2".into(),
        Other => "io3".into(),
        UnexpectedEof => "eof".into(),
        WriteZero => "writezero".into(),
        k => format!("io?{:?}", k),
    }
}

#[derive(Default)]
struct Shared {
    rscript: VecDeque<R>,
    wscript: VecDeque<W>,
    rin: Vec<u8>,      // bytes handed out by poll_read since last taken
    wout: Vec<u8>,     // bytes accepted by poll_write since last taken
    rooms: Vec<usize>, // ReadBuf::remaining() seen by each poll_read since last taken
    flush_ok: u64,     // number of poll_flush calls answered Ready(Ok)
    zero_writes: u64,  // number of poll_write calls (with a non-empty buffer) answered Ready(Ok(0))
    eof_reads: u64,    // number of poll_read calls answered Ready(Ok) with zero bytes
    data_reads: u64,   // number of poll_read calls answered with data (even ones initialise the unfilled region)
}

struct ScriptIo(Rc<RefCell<Shared>>);

impl AsyncRead for ScriptIo {
    fn poll_read(self: Pin<&mut Self>, _cx: &mut Context<'_>, buf: &mut ReadBuf<'_>) -> Poll<std::io::Result<()>> {
        let mut s = self.0.borrow_mut();
        s.rooms.push(buf.remaining());
        match s.rscript.pop_front() {
            None | Some(R::Pending) => Poll::Pending,
            Some(R::Err(k)) => Poll::Ready(Err(io_kind(k).into())),
            Some(R::Data(bs)) => {
                let n = bs.len().min(buf.remaining());
                if n == 0 {
                    s.eof_reads += 1;
                }
                // every other data read behaves like an adapter/TLS-style reader: it zero-initialises
                // the whole unfilled region first and then advances by the bytes it really has
                // (ReadBuf contract: filled <= initialized; only filled() carries data)
                s.data_reads += 1;
                if s.data_reads % 2 == 0 {
                    let un = buf.initialize_unfilled();
                    un[..n].copy_from_slice(&bs[..n]);
                    buf.advance(n);
                } else {
                    buf.put_slice(&bs[..n]);
                }
                s.rin.extend_from_slice(&bs[..n]);
                if n < bs.len() {
                    s.rscript.push_front(R::Data(bs[n..].to_vec()));
                }
                Poll::Ready(Ok(()))
            }
        }
    }
}

impl AsyncWrite for ScriptIo {
    fn poll_write(self: Pin<&mut Self>, _cx: &mut Context<'_>, buf: &[u8]) -> Poll<std::io::Result<usize>> {
        let mut s = self.0.borrow_mut();
        match s.wscript.pop_front() {
            None | Some(W::Pending) => Poll::Pending,
            Some(W::Err(k)) => Poll::Ready(Err(io_kind(k).into())),
            Some(W::Ok(n)) => {
                let m = n.min(buf.len());
                if m == 0 && !buf.is_empty() {
                    s.zero_writes += 1;
                }
                s.wout.extend_from_slice(&buf[..m]);
                Poll::Ready(Ok(m))
            }
        }
    }
    fn poll_flush(self: Pin<&mut Self>, _cx: &mut Context<'_>) -> Poll<std::io::Result<()>> {
        let mut s = self.0.borrow_mut();
        match s.wscript.pop_front() {
            None | Some(W::Pending) => Poll::Pending,
            Some(W::Err(k)) => Poll::Ready(Err(io_kind(k).into())),
            Some(W::Ok(_)) => {
                s.flush_ok += 1;
                Poll::Ready(Ok(()))
            }
        }
    }
    fn poll_shutdown(self: Pin<&mut Self>, _cx: &mut Context<'_>) -> Poll<std::io::Result<()>> {
        Poll::Ready(Ok(()))
    }
}

fn rscript_str(rs: &[R]) -> String {
    if rs.is_empty() {
        return "-".into();
    }
    rs.iter()
        .map(|r| match r {
            R::Data(b) if b.is_empty() => "z".to_string(),
            R::Data(b) => format!("d{}", hex(b)),
            R::Pending => "p".to_string(),
            R::Err(k) => format!("e{}", k),
        })
        .collect::<Vec<_>>()
        .join(",")
}
fn wscript_str(ws: &[W]) -> String {
    if ws.is_empty() {
        return "-".into();
    }
    ws.iter()
        .map(|w| match w {
            W::Ok(n) => format!("w{}", n),
            W::Pending => "p".to_string(),
            W::Err(k) => format!("e{}", k),
        })
        .collect::<Vec<_>>()
        .join(",")
}
fn parse_rscript(s: &str) -> Vec<R> {
    if s == "-" {
        return vec![];
    }
    s.split(',')
        .map(|t| match t.as_bytes()[0] {
            b'd' => R::Data(unhex(&t[1..])),
            b'z' => R::Data(vec![]),
            b'p' => R::Pending,
            _ => R::Err(t[1..].parse().unwrap()),
        })
        .collect()
}
fn parse_wscript(s: &str) -> Vec<W> {
    if s == "-" {
        return vec![];
    }
    s.split(',')
        .map(|t| match t.as_bytes()[0] {
            b'w' => W::Ok(t[1..].parse().unwrap()),
            b'p' => W::Pending,
            _ => W::Err(t[1..].parse().unwrap()),
        })
        .collect()
}

// ---------------------------------------------------------------- executor over the real code

#[derive(Debug, Clone, PartialEq)]
enum RecvOut {
    Ready(Vec<u8>, bool), // frame bytes, decoded successfully
    Pending,
    Err(String),
    Panic(String),
}
#[derive(Debug, Clone, PartialEq)]
enum SendOut {
    Ready,
    Pending,
    Err(String),
    Panic(String),
}

trait Tp: AsyncTransport<Error = TokioTransportError> + Unpin {}
impl<T: AsyncTransport<Error = TokioTransportError> + Unpin> Tp for T {}

struct Exec {
    p: Packetizer,
    slice: Option<(*mut MaybeUninit<u8>, usize)>,
    t: Option<(Box<dyn Tp>, Rc<RefCell<Shared>>)>,
    // bytes read by the current transport and not yet delivered as frames (to name an
    // undecodable frame by its bytes)
    t_pending: Vec<u8>,
}

impl Exec {
    fn new() -> Self {
        Exec { p: Packetizer::new(), slice: None, t: None, t_pending: Vec::new() }
    }

    fn pk_new(&mut self) {
        self.p = Packetizer::new();
        self.slice = None;
    }
    fn pk_ext(&mut self, b: &[u8]) -> Result<(), String> {
        self.slice = None;
        catch(|| self.p.extend_from_slice(b))
    }
    fn pk_spare(&mut self) -> Result<usize, String> {
        self.slice = None;
        let r = catch(|| {
            let s = self.p.spare_capacity_mut();
            (s.as_mut_ptr(), s.len())
        });
        match r {
            Ok((ptr, len)) => {
                self.slice = Some((ptr, len));
                Ok(len)
            }
            Err(e) => Err(e),
        }
    }
    /// write `b` into the slice returned by the directly preceding `spare`, then bytes_written
    fn pk_wr(&mut self, b: &[u8]) -> Result<bool, String> {
        match self.slice.take() {
            Some((ptr, len)) if b.len() <= len => catch(|| unsafe {
                for (i, &x) in b.iter().enumerate() {
                    (*ptr.add(i)).write(x);
                }
                self.p.bytes_written(b.len());
                true
            }),
            _ => Ok(false),
        }
    }
    fn pk_next(&mut self) -> Result<Option<Vec<u8>>, String> {
        self.slice = None;
        catch(|| self.p.next_message().map(|m| m.to_vec()))
    }

    fn t_new(&mut self, rs: Vec<R>, ws: Vec<W>, buffered: bool) {
        let sh = Rc::new(RefCell::new(Shared { rscript: rs.into(), wscript: ws.into(), ..Default::default() }));
        let io = ScriptIo(sh.clone());
        let t: Box<dyn Tp> = if buffered {
            let b: Buffered<TokioTransport<ScriptIo>> = TokioTransport::new(io).buffered();
            Box::new(b)
        } else {
            Box::new(TokioTransport::new(io))
        };
        self.t = Some((t, sh));
        self.t_pending.clear();
    }
    /// (result, rooms seen by poll_read, bytes consumed from the reader)
    fn t_recv(&mut self) -> (RecvOut, Vec<usize>, Vec<u8>) {
        let (t, sh) = self.t.as_mut().expect("tnew first");
        let waker = Waker::noop();
        let mut cx = Context::from_waker(waker);
        let r = catch(|| Pin::new(&mut **t).receive_poll(&mut cx));
        let (rooms, rin) = {
            let mut s = sh.borrow_mut();
            (std::mem::take(&mut s.rooms), std::mem::take(&mut s.rin))
        };
        self.t_pending.extend_from_slice(&rin);
        let out = match r {
            Err(e) => RecvOut::Panic(e),
            Ok(Poll::Pending) => RecvOut::Pending,
            Ok(Poll::Ready(Ok(msg))) => {
                let f = msg.serialize_message().map(|b| b.to_vec()).unwrap_or_default();
                let n = f.len().min(self.t_pending.len());
                self.t_pending.drain(..n);
                RecvOut::Ready(f, true)
            }
            Ok(Poll::Ready(Err(TokioTransportError::Deserialize(_)))) => {
                // the frame the packetizer handed over: the announced length at the front of
                // the undelivered bytes (at least 4 bytes are dropped by split_to)
                let pend = &self.t_pending;
                let l = if pend.len() >= 4 { u32::from_le_bytes([pend[0], pend[1], pend[2], pend[3]]) as usize } else { 0 };
                let take = l.max(4).min(pend.len());
                let f: Vec<u8> = pend[..l.min(take)].to_vec();
                self.t_pending.drain(..take);
                RecvOut::Ready(f, false)
            }
            Ok(Poll::Ready(Err(TokioTransportError::Io(e)))) => RecvOut::Err(io_code(&e)),
            Ok(Poll::Ready(Err(e))) => RecvOut::Err(format!("other:{}", e)),
        };
        (out, rooms, rin)
    }
    fn t_send(&mut self, frame: &[u8]) -> String {
        let (t, _) = self.t.as_mut().expect("tnew first");
        let msg = match Message::deserialize_message(bytes::BytesMut::from(frame)) {
            Ok(m) => m,
            Err(e) => return format!("!badframe {:?}", e),
        };
        match catch(|| Pin::new(&mut **t).send_start(msg)) {
            Ok(Ok(())) => "ok".into(),
            Ok(Err(e)) => format!("err {}", e),
            Err(e) => format!("panic {}", e),
        }
    }
    fn t_poll(&mut self, flush: bool) -> (SendOut, Vec<u8>) {
        let (t, sh) = self.t.as_mut().expect("tnew first");
        let waker = Waker::noop();
        let mut cx = Context::from_waker(waker);
        let r = catch(|| {
            if flush {
                Pin::new(&mut **t).send_poll_flush(&mut cx)
            } else {
                Pin::new(&mut **t).send_poll_ready(&mut cx)
            }
        });
        let wout = std::mem::take(&mut sh.borrow_mut().wout);
        let out = match r {
            Err(e) => SendOut::Panic(e),
            Ok(Poll::Pending) => SendOut::Pending,
            Ok(Poll::Ready(Ok(()))) => SendOut::Ready,
            Ok(Poll::Ready(Err(TokioTransportError::Io(e)))) => SendOut::Err(io_code(&e)),
            Ok(Poll::Ready(Err(e))) => SendOut::Err(format!("other:{}", e)),
        };
        (out, wout)
    }
}

fn fmt_spare(r: &Result<usize, String>) -> String {
    match r {
        Ok(k) => format!("slice {}", k),
        Err(_) => "panic".into(),
    }
}
fn fmt_next(r: &Result<Option<Vec<u8>>, String>) -> String {
    match r {
        Ok(None) => "none".into(),
        Ok(Some(m)) => format!("some {}", blob(m)),
        Err(e) => format!("!PANIC {}", e),
    }
}
fn fmt_recv(r: &RecvOut, rin: &[u8]) -> String {
    let head = match r {
        RecvOut::Ready(f, _) => format!("ready {}", blob(f)),
        RecvOut::Pending => "pending".into(),
        RecvOut::Err(e) => format!("err {}", e),
        RecvOut::Panic(_) => "panic".into(),
    };
    format!("{} in={}", head, blob(rin))
}
fn fmt_send(r: &SendOut, out: &[u8]) -> String {
    let head = match r {
        SendOut::Ready => "ready".into(),
        SendOut::Pending => "pending".into(),
        SendOut::Err(e) => format!("err {}", e),
        SendOut::Panic(e) => format!("!PANIC {}", e),
    };
    format!("{} out={}", head, blob(out))
}
fn rooms_str(r: &[usize]) -> String {
    if r.is_empty() {
        "-".into()
    } else {
        r.iter().map(|x| x.to_string()).collect::<Vec<_>>().join(",")
    }
}

/// interpret one line of a cases file with the real code
fn exec_line(ex: &mut Exec, line: &str) -> String {
    let ws: Vec<&str> = line.split(' ').collect();
    let arg = |i: usize| ws.get(i).copied().unwrap_or("-");
    match ws[0] {
        "new" => {
            ex.pk_new();
            "-".into()
        }
        "ext" => match ex.pk_ext(&unhex_or_dash(arg(2))) {
            Ok(()) => "-".into(),
            Err(e) => format!("!PANIC {}", e),
        },
        "spare" => fmt_spare(&ex.pk_spare()),
        "wr" => match ex.pk_wr(&unhex_or_dash(arg(1))) {
            Ok(true) => "ok".into(),
            Ok(false) => "unsafe".into(),
            Err(e) => format!("!PANIC {}", e),
        },
        "next" => fmt_next(&ex.pk_next()),
        "drain" => {
            let mut out = Vec::new();
            for _ in 0..1_000_000 {
                match ex.pk_next() {
                    Ok(Some(m)) => out.push(blob(&m)),
                    Ok(None) => break,
                    Err(e) => {
                        out.push(format!("!PANIC {}", e));
                        break;
                    }
                }
            }
            let mut s = format!("frames {}", out.len());
            for o in out {
                s.push(' ');
                s.push_str(&o);
            }
            s
        }
        "tnew" | "bnew" => {
            ex.t_new(parse_rscript(arg(1)), parse_wscript(arg(2)), ws[0] == "bnew");
            "-".into()
        }
        "trecv" | "brecv" => {
            let (r, _, rin) = ex.t_recv();
            fmt_recv(&r, &rin)
        }
        "tsend" | "bsend" => ex.t_send(&unhex_or_dash(arg(1))),
        "tready" | "bready" => {
            let (r, o) = ex.t_poll(false);
            fmt_send(&r, &o)
        }
        "tflush" | "bflush" => {
            let (r, o) = ex.t_poll(true);
            fmt_send(&r, &o)
        }
        "#" | "" => "-".into(),
        w => format!("?unknown-op {}", w),
    }
}

// ---------------------------------------------------------------- generation

struct Out {
    cases: Vec<String>,
    impl_: Vec<String>,
    monitor: Vec<String>,
    case_start: usize,
    case_id: u64,
    classes: BTreeMap<String, u64>,
    ops: BTreeMap<String, u64>,
    frame_sizes: BTreeMap<String, u64>,
    chunk_sizes: BTreeMap<String, u64>,
    kinds: BTreeMap<String, u64>,
    distinct: HashSet<u64>,
    nontrivial: u64,
    samples: Vec<String>,
    evaluations: u64,
}

fn bump(m: &mut BTreeMap<String, u64>, k: &str) {
    *m.entry(k.to_string()).or_insert(0) += 1;
}

fn size_class(n: usize) -> &'static str {
    match n {
        0..=4 => "0-4",
        5 => "5",
        6..=16 => "6-16",
        17..=256 => "17-256",
        257..=8191 => "257-8191",
        8192..=65535 => "8192-65535",
        65536 => "65536",
        65537..=65540 => "65537-65540",
        _ => ">=65541",
    }
}
fn chunk_class(n: usize) -> &'static str {
    match n {
        0 => "0",
        1 => "1",
        2..=3 => "2-3",
        4..=16 => "4-16",
        17..=1024 => "17-1024",
        _ => ">1024",
    }
}

impl Out {
    fn new() -> Self {
        Out {
            cases: vec![],
            impl_: vec![],
            monitor: vec![],
            case_start: 0,
            case_id: 0,
            classes: BTreeMap::new(),
            ops: BTreeMap::new(),
            frame_sizes: BTreeMap::new(),
            chunk_sizes: BTreeMap::new(),
            kinds: BTreeMap::new(),
            distinct: HashSet::new(),
            nontrivial: 0,
            samples: vec![],
            evaluations: 0,
        }
    }
    fn begin(&mut self, kind: &str) {
        self.case_id += 1;
        self.push(format!("# case {} {}", self.case_id, kind), "-".into());
        self.case_start = self.cases.len();
        bump(&mut self.kinds, kind);
    }
    fn push(&mut self, case: String, imp: String) -> usize {
        let op = case.split(' ').next().unwrap_or("").to_string();
        if op != "#" {
            bump(&mut self.ops, &op);
            self.evaluations += 1;
            let class = imp.split(' ').take(if imp.starts_with("err") { 2 } else { 1 }).collect::<Vec<_>>().join(" ");
            bump(&mut self.classes, &format!("{}:{}", op, class));
        }
        self.cases.push(case);
        self.impl_.push(imp);
        self.cases.len() - 1
    }
    /// a property violation on the implementation alone; the replay is the case up to here
    fn violation(&mut self, what: &str) {
        let mut ops: Vec<&str> = self.cases[self.case_start..].iter().map(|s| s.as_str()).collect();
        let mut total = 0;
        for (i, o) in ops.iter().enumerate() {
            total += o.len();
            if total > 600_000 {
                ops.truncate(i);
                break;
            }
        }
        self.monitor.push(format!("{}\t{}\t{}", what, self.case_id, ops.join(";")));
    }
    fn end(&mut self, nontrivial: bool) {
        let mut h: u64 = 0xcbf29ce484222325;
        for l in &self.cases[self.case_start..] {
            for b in l.bytes() {
                h = (h ^ b as u64).wrapping_mul(0x100000001b3);
            }
            h = (h ^ 10).wrapping_mul(0x100000001b3);
        }
        if self.distinct.insert(h) && nontrivial {
            self.nontrivial += 1;
            if self.samples.len() < 6 && (self.nontrivial % 97 == 1) {
                let s = self.cases[self.case_start..].join(";");
                self.samples.push(if s.len() > 300 { format!("{}…", &s[..300]) } else { s });
            }
        }
    }
}

/// raw frame of `n >= 5` bytes: length prefix, kind byte, body
fn raw_frame(rng: &mut Rng, n: usize) -> Vec<u8> {
    let mut f = Vec::with_capacity(n);
    f.extend_from_slice(&(n as u32).to_le_bytes());
    f.push(rng.below(64) as u8);
    while f.len() < n {
        f.push(rng.next() as u8);
    }
    f
}

/// a real message serialized by the code under test, of exactly `n` bytes where possible
fn msg_frame(rng: &mut Rng, n: usize) -> Vec<u8> {
    use aldrin_core::message::{CreateObject, MessageKind, Shutdown, Sync};
    use aldrin_core::ObjectUuid;
    let m: Option<Message> = if n <= 5 {
        Some(Message::Shutdown(Shutdown))
    } else if n == 6 {
        Some(Message::Sync(Sync { serial: rng.below(200) as u32 }))
    } else if n == 22 {
        Some(Message::CreateObject(CreateObject { serial: rng.below(200) as u32, uuid: ObjectUuid(uuid::Uuid::from_u128(rng.next() as u128)) }))
    } else {
        None
    };
    if let Some(m) = m {
        return m.serialize_message().unwrap().to_vec();
    }
    // SendItem { cookie, value }: 4 + 1 + 4 + payload + 16
    let n = n.max(26);
    let payload = n - 25;
    let mut f = Vec::with_capacity(n);
    f.extend_from_slice(&(n as u32).to_le_bytes());
    f.push(u8::from(MessageKind::SendItem));
    f.extend_from_slice(&(payload as u32).to_le_bytes());
    f.push(3); // ValueKind::U8 ... any first byte; the payload is opaque to the message codec
    for _ in 1..payload {
        f.push(rng.next() as u8);
    }
    f.extend_from_slice(&rng.bytes(16));
    f
}

fn pick_frame_size(rng: &mut Rng, big_ok: bool) -> usize {
    let r = rng.below(100);
    if r < 45 {
        rng.range(5, 16) as usize
    } else if r < 70 {
        rng.range(17, 256) as usize
    } else if r < 85 {
        rng.range(257, 3000) as usize
    } else if !big_ok {
        rng.range(5, 64) as usize
    } else if r < 90 {
        rng.range(8000, 9000) as usize
    } else {
        *rng.pick(&[65535usize, 65536, 65536, 65537, 65540, 65541, 65542, 70000, 131072, 131077])
    }
}

#[derive(Clone, Copy, PartialEq)]
enum Iface {
    Ext,
    Spare,
    Mixed,
}

/// expected frames and how many bytes have been fed: the property statement on the
/// implementation's outputs alone
struct PkMonitor {
    frames: Vec<Vec<u8>>,
    ends: Vec<usize>,
    idx: usize,
    fed: usize,
}
impl PkMonitor {
    fn new(frames: &[Vec<u8>]) -> Self {
        let mut ends = vec![];
        let mut t = 0;
        for f in frames {
            t += f.len();
            ends.push(t);
        }
        PkMonitor { frames: frames.to_vec(), ends, idx: 0, fed: 0 }
    }
    fn on_next(&mut self, r: &Result<Option<Vec<u8>>, String>) -> Option<String> {
        match r {
            Err(e) => Some(format!("next_message panicked: {}", e)),
            Ok(Some(m)) => {
                if self.idx >= self.frames.len() {
                    return Some("next_message returned a frame that was never fed (duplicate or invented)".into());
                }
                if *m != self.frames[self.idx] {
                    return Some(format!("next_message returned frame #{} with wrong content (lost, duplicated or reordered bytes)", self.idx));
                }
                if self.fed < self.ends[self.idx] {
                    return Some(format!("next_message returned frame #{} before all its bytes were fed", self.idx));
                }
                self.idx += 1;
                None
            }
            Ok(None) => {
                if self.idx < self.frames.len() && self.fed >= self.ends[self.idx] {
                    Some(format!("next_message returned None although frame #{} is completely buffered", self.idx))
                } else {
                    None
                }
            }
        }
    }
}

struct PkCase<'a> {
    ex: &'a mut Exec,
    out: &'a mut Out,
    mon: PkMonitor,
    pending_ext: Option<usize>,
}

impl<'a> PkCase<'a> {
    fn ext(&mut self, b: &[u8]) {
        let r = self.ex.pk_ext(b);
        let i = self.out.push(
            format!("ext 0 {}", hex_or_dash(b)),
            match &r {
                Ok(()) => "-".into(),
                Err(e) => format!("!PANIC {}", e),
            },
        );
        self.pending_ext = Some(i);
        self.mon.fed += b.len();
        bump(&mut self.out.chunk_sizes, chunk_class(b.len()));
        if let Err(e) = r {
            self.out.violation(&format!("extend_from_slice panicked: {}", e));
        }
    }
    /// returns the slice length (0 on the debug assertion)
    fn spare(&mut self) -> usize {
        let r = self.ex.pk_spare();
        let k = *r.as_ref().unwrap_or(&0);
        if let Some(i) = self.pending_ext.take() {
            // the spare room the preceding extend_from_slice left, as observed now
            let old = self.out.cases[i].clone();
            let mut parts = old.splitn(3, ' ');
            let (a, _, c) = (parts.next().unwrap(), parts.next(), parts.next().unwrap_or("-"));
            self.out.cases[i] = format!("{} {} {}", a, k, c);
        }
        self.out.push(format!("spare {}", k), fmt_spare(&r));
        match &r {
            Err(e) => self.out.violation(&format!("spare_capacity_mut: empty slice, its debug assertion fired: {}", e)),
            Ok(0) => self.out.violation("spare_capacity_mut: returned an empty slice"),
            Ok(_) => {}
        }
        k
    }
    fn wr(&mut self, b: &[u8]) {
        let r = self.ex.pk_wr(b);
        self.out.push(
            format!("wr {}", hex_or_dash(b)),
            match &r {
                Ok(true) => "ok".into(),
                Ok(false) => "unsafe".into(),
                Err(e) => format!("!PANIC {}", e),
            },
        );
        if let Ok(true) = r {
            self.mon.fed += b.len();
        }
        bump(&mut self.out.chunk_sizes, chunk_class(b.len()));
        if let Err(e) = r {
            self.out.violation(&format!("bytes_written panicked: {}", e));
        }
    }
    fn next(&mut self) -> bool {
        let r = self.ex.pk_next();
        self.out.push("next".into(), fmt_next(&r));
        if let Some(v) = self.mon.on_next(&r) {
            self.out.violation(&v);
        }
        matches!(r, Ok(Some(_)))
    }
    /// feed one chunk through the second interface; a chunk larger than the slice takes several
    /// spare/written rounds (without draining in between unless the slice comes back empty)
    fn feed_spare(&mut self, mut b: &[u8]) {
        let mut empty_rounds = 0;
        while !b.is_empty() {
            let k = self.spare();
            if k == 0 {
                empty_rounds += 1;
                if empty_rounds > 2 {
                    return;
                }
                // a reader that gets no room can only drain and retry
                while self.next() {}
                continue;
            }
            let n = k.min(b.len());
            self.wr(&b[..n]);
            b = &b[n..];
        }
    }
    fn finish(&mut self) {
        // drain: every frame still buffered comes out, in order
        let mut got = vec![];
        let mut lines = vec![];
        for _ in 0..1_000_000 {
            let r = self.ex.pk_next();
            if let Some(v) = self.mon.on_next(&r) {
                lines.push(v);
            }
            match r {
                Ok(Some(m)) => got.push(blob(&m)),
                _ => break,
            }
        }
        let mut s = format!("frames {}", got.len());
        for g in &got {
            s.push(' ');
            s.push_str(g);
        }
        self.out.push("drain".into(), s);
        for v in lines {
            self.out.violation(&v);
        }
        let complete = self.mon.ends.iter().filter(|&&e| e <= self.mon.fed).count();
        if self.mon.idx != complete {
            self.out.violation(&format!("after draining, {} frames were delivered but {} complete frames were fed", self.mon.idx, complete));
        }
    }
}

/// one packetizer case: `stream` = concat of `frames` (possibly followed by an incomplete tail),
/// cut into `chunks`; `nextp` in percent: chance of next_message calls after a chunk
fn pk_case(ex: &mut Exec, out: &mut Out, rng: &mut Rng, kind: &str, frames: &[Vec<u8>], tail: &[u8], chunks: &[usize], iface: Iface, nextp: u64) {
    out.begin(kind);
    ex.pk_new();
    out.push("new".into(), "-".into());
    let mut stream: Vec<u8> = frames.concat();
    stream.extend_from_slice(tail);
    for f in frames {
        bump(&mut out.frame_sizes, size_class(f.len()));
    }
    let mut c = PkCase { ex, out, mon: PkMonitor::new(frames), pending_ext: None };
    let mut pos = 0;
    for &n in chunks {
        let b = &stream[pos..pos + n];
        pos += n;
        let use_ext = match iface {
            Iface::Ext => true,
            Iface::Spare => false,
            Iface::Mixed => rng.chance(1, 2),
        };
        if use_ext {
            c.ext(b);
        } else {
            c.feed_spare(b);
        }
        if nextp >= 100 {
            while c.next() {}
        } else if nextp > 0 && rng.below(100) < nextp {
            let times = rng.range(1, 3);
            for _ in 0..times {
                if !c.next() {
                    break;
                }
            }
        }
    }
    c.finish();
    let nontrivial = frames.len() >= 2 || chunks.len() >= 2;
    out.end(nontrivial);
}

fn compositions(n: usize) -> Vec<Vec<usize>> {
    // all ways to cut n bytes into non-empty pieces: 2^(n-1)
    let mut res = vec![];
    for mask in 0..(1u32 << (n - 1)) {
        let mut parts = vec![];
        let mut cur = 1;
        for i in 0..n - 1 {
            if mask & (1 << i) != 0 {
                parts.push(cur);
                cur = 1;
            } else {
                cur += 1;
            }
        }
        parts.push(cur);
        res.push(parts);
    }
    res
}

fn random_chunks(rng: &mut Rng, total: usize) -> Vec<usize> {
    // the model appends to a list: keep (number of chunks) x (stream length) bounded
    let style = rng.below(6);
    let min_avg = (total / 400).max(1);
    let mut out = vec![];
    let mut left = total;
    while left > 0 {
        let n = match style {
            0 if total <= 3000 => 1,
            1 => rng.range(1, 4) as usize * min_avg,
            2 => rng.range(1, 40) as usize * min_avg,
            3 => {
                if rng.chance(1, 4) && total <= 6000 {
                    1
                } else {
                    rng.range(1, 3000) as usize + min_avg
                }
            }
            4 => rng.range(1, 70000) as usize,
            _ => rng.range(1, 12) as usize * min_avg,
        };
        let n = n.min(left).max(1);
        out.push(n);
        left -= n;
    }
    out
}

fn directed(ex: &mut Exec, out: &mut Out, rng: &mut Rng) {
    // the packetizer unit tests of /repo (three messages, cut 3 / 25 / 6), both interfaces
    let unit: Vec<Vec<u8>> = vec![
        vec![5, 0, 0, 0, 2],
        vec![22, 0, 0, 0, 3, 1, 0xb7, 0xc3, 0xbe, 0x13, 0x53, 0x77, 0x46, 0x6e, 0xb4, 0xbf, 0x37, 0x38, 0x76, 0x52, 0x3d, 0x1b],
        vec![7, 0, 0, 0, 19, 0, 0],
    ];
    pk_case(ex, out, rng, "unit-ext", &unit, &[], &[3, 25, 6], Iface::Ext, 100);
    pk_case(ex, out, rng, "unit-spare", &unit, &[], &[3, 25, 6], Iface::Spare, 100);
    // second interface used twice without draining (DESIGN §5 item 1), shortest forms
    {
        out.begin("directed-refill-4calls");
        ex.pk_new();
        out.push("new".into(), "-".into());
        let f = vec![8u8, 0, 0, 0, 1, 2, 3, 4];
        let mut c = PkCase { ex, out, mon: PkMonitor::new(&[f.clone()]), pending_ext: None };
        c.ext(&f[..4]);
        c.next();
        c.ext(&f[4..]);
        c.spare();
        c.finish();
        out.end(true);
    }
    {
        out.begin("directed-refill-design");
        ex.pk_new();
        out.push("new".into(), "-".into());
        let f = vec![8u8, 0, 0, 0, 1, 2, 3, 4];
        let mut c = PkCase { ex, out, mon: PkMonitor::new(&[f.clone()]), pending_ext: None };
        c.ext(&f[..4]);
        c.next();
        let k = c.spare();
        c.wr(&f[4..4 + k.min(4)]);
        c.spare();
        c.finish();
        out.end(true);
    }
    {
        // only the second interface: fill the first slice (whatever its size) exactly
        out.begin("directed-refill-spare-only");
        ex.pk_new();
        out.push("new".into(), "-".into());
        let k0 = ex.pk_spare().unwrap_or(0);
        ex.pk_new();
        let n = k0.max(8).min(1 << 20);
        let f = raw_frame(rng, n);
        let mut c = PkCase { ex, out, mon: PkMonitor::new(&[f.clone()]), pending_ext: None };
        let k = c.spare();
        if k >= 4 {
            c.wr(&f[..4]);
            c.next();
            let k2 = c.spare();
            c.wr(&f[4..4 + k2.min(n - 4)]);
            c.spare();
        }
        c.finish();
        out.end(true);
    }
    // frames around the 64 KiB reserve step, single pieces and halves, both interfaces
    for &n in &[65535usize, 65536, 65537, 65541, 131073] {
        let f = raw_frame(rng, n);
        for iface in [Iface::Ext, Iface::Spare] {
            pk_case(ex, out, rng, "directed-64k", &[f.clone()], &[], &[n], iface, 100);
            pk_case(ex, out, rng, "directed-64k", &[f.clone()], &[], &[4, n - 5, 1], iface, 100);
            let f5 = raw_frame(rng, 5);
            pk_case(ex, out, rng, "directed-64k", &[f.clone(), f5], &[], &[3, n / 2, n - n / 2 - 3 + 5], iface, 30);
        }
    }
}

fn exhaustive(ex: &mut Exec, out: &mut Out, rng: &mut Rng, shard: u64, nshards: u64) {
    let mut streams: Vec<Vec<usize>> = (5..=12).map(|n| vec![n]).collect();
    streams.extend([vec![5, 5], vec![5, 6], vec![6, 5], vec![5, 7], vec![6, 6], vec![7, 5]]);
    let mut idx = 0u64;
    for sizes in &streams {
        let total: usize = sizes.iter().sum();
        let frames: Vec<Vec<u8>> = sizes.iter().map(|&n| raw_frame(rng, n)).collect();
        for comp in compositions(total) {
            for iface in [Iface::Ext, Iface::Spare, Iface::Mixed] {
                for nextp in [100u64, 0, 50] {
                    idx += 1;
                    if idx % nshards != shard {
                        continue;
                    }
                    pk_case(ex, out, rng, "exhaustive<=12", &frames, &[], &comp, iface, nextp);
                }
            }
        }
    }
}

fn random_pk(ex: &mut Exec, out: &mut Out, rng: &mut Rng) {
    let big = rng.chance(1, 12);
    let nframes = if big { rng.range(1, 3) } else { rng.range(1, 8) } as usize;
    let mut frames = vec![];
    let mut total = 0;
    for _ in 0..nframes {
        let n = pick_frame_size(rng, big);
        total += n;
        frames.push(if rng.chance(1, 3) { msg_frame(rng, n) } else { raw_frame(rng, n) });
        if total > 300_000 {
            break;
        }
    }
    // sometimes a proper prefix of a further frame stays behind
    let tail: Vec<u8> = if rng.chance(1, 4) {
        let n = rng.range(5, 40) as usize;
        let f = raw_frame(rng, n);
        let k = rng.below(f.len() as u64) as usize;
        f[..k].to_vec()
    } else {
        vec![]
    };
    let total: usize = frames.iter().map(|f| f.len()).sum::<usize>() + tail.len();
    let chunks = random_chunks(rng, total);
    let iface = *rng.pick(&[Iface::Ext, Iface::Spare, Iface::Mixed, Iface::Mixed]);
    let nextp = *rng.pick(&[0u64, 30, 70, 100, 100]);
    let kind = match iface {
        Iface::Ext => "random-ext",
        Iface::Spare => "random-spare",
        Iface::Mixed => "random-mixed",
    };
    pk_case(ex, out, rng, kind, &frames, &tail, &chunks, iface, nextp);
}

fn random_messages(rng: &mut Rng, max_total: usize) -> Vec<Vec<u8>> {
    let big = rng.chance(1, 8);
    let n = if big { rng.range(1, 3) } else { rng.range(1, 7) } as usize;
    let mut v = vec![];
    let mut total = 0;
    for _ in 0..n {
        let sz = match rng.below(10) {
            0..=2 => 5,
            3 => 6,
            4 => 22,
            _ => pick_frame_size(rng, big),
        };
        let f = msg_frame(rng, sz);
        total += f.len();
        v.push(f);
        if total > max_total {
            break;
        }
    }
    v
}

/// receive side: a stream of serialized messages cut into reads, with Pending / errors / EOF
fn random_recv(ex: &mut Exec, out: &mut Out, rng: &mut Rng, buffered: bool) {
    let p = if buffered { "b" } else { "t" };
    out.begin(if buffered { "buffered-recv" } else { "tokio-recv" });
    let mut msgs = random_messages(rng, 200_000);
    // sometimes the last frame is undecodable (unknown message kind)
    let bad_last = rng.chance(1, 8);
    if bad_last {
        let n = rng.range(5, 30) as usize;
        let mut f = raw_frame(rng, n);
        f[4] = 0xee;
        msgs.push(f);
    }
    for f in &msgs {
        bump(&mut out.frame_sizes, size_class(f.len()));
    }
    let stream: Vec<u8> = msgs.concat();
    let chunks = random_chunks(rng, stream.len());
    let mut rs: Vec<R> = vec![];
    let mut pos = 0;
    let ending = rng.below(10); // 0-1: EOF at the end, 2: error somewhere, 3: EOF somewhere, else: open
    let cut = rng.below(chunks.len() as u64 + 1) as usize;
    for (i, &n) in chunks.iter().enumerate() {
        if i == cut && ending == 2 {
            rs.push(R::Err(rng.below(4) as u8));
        }
        if i == cut && ending == 3 {
            rs.push(R::Data(vec![]));
        }
        if rng.chance(1, 5) {
            rs.push(R::Pending);
        }
        rs.push(R::Data(stream[pos..pos + n].to_vec()));
        bump(&mut out.chunk_sizes, chunk_class(n));
        pos += n;
    }
    if ending <= 1 {
        rs.push(R::Data(vec![]));
    }
    ex.t_new(rs.clone(), vec![], buffered);
    out.push(format!("{}new {} -", p, rscript_str(&rs)), "-".into());
    // monitor: delivered frames are the sent ones, in order, each once, only when complete
    let mut ends = vec![];
    let mut t = 0;
    for f in &msgs {
        t += f.len();
        ends.push(t);
    }
    let mut idx = 0;
    let mut consumed = 0usize;
    let mut stalls = 0;
    for _ in 0..(rs.len() + msgs.len() + 6) {
        let script_empty_before = { ex.t.as_ref().unwrap().1.borrow().rscript.is_empty() };
        let eof_before = ex.t.as_ref().unwrap().1.borrow().eof_reads;
        let (r, rooms, rin) = ex.t_recv();
        let eof_seen = ex.t.as_ref().unwrap().1.borrow().eof_reads != eof_before;
        consumed += rin.len();
        out.push(format!("{}recv {}", p, rooms_str(&rooms)), fmt_recv(&r, &rin));
        if rooms.iter().any(|&k| k == 0) {
            out.violation("receive_poll: poll_read was given an empty buffer (spare_capacity_mut returned an empty slice)");
        }
        match &r {
            RecvOut::Ready(f, decoded) => {
                if idx >= msgs.len() {
                    out.violation("receive_poll delivered a message that was never sent");
                } else {
                    if *f != msgs[idx] {
                        out.violation(&format!("receive_poll delivered message #{} with wrong content or order", idx));
                    }
                    if consumed < ends[idx] {
                        out.violation(&format!("receive_poll delivered message #{} before all its bytes were read", idx));
                    }
                    let expect_decoded = !(bad_last && idx == msgs.len() - 1);
                    if *decoded != expect_decoded {
                        out.violation(&format!("receive_poll: message #{} decode result differs from what was sent", idx));
                    }
                    idx += 1;
                }
            }
            RecvOut::Pending => {
                if idx < msgs.len() && consumed >= ends[idx] {
                    out.violation(&format!("receive_poll returned Pending although message #{} was completely read", idx));
                }
                if script_empty_before {
                    stalls += 1;
                    if stalls >= 2 {
                        break;
                    }
                }
            }
            RecvOut::Err(e) => {
                if e == "eof" && !eof_seen {
                    out.violation("receive_poll reported UnexpectedEof although the reader did not signal end-of-stream");
                }
                if idx < msgs.len() && consumed >= ends[idx] {
                    out.violation(&format!("receive_poll returned an error although message #{} was completely read", idx));
                }
                if rng.chance(1, 2) {
                    break;
                }
            }
            RecvOut::Panic(e) => {
                out.violation(&format!("receive_poll panicked: {}", e));
                break;
            }
        }
        if eof_seen && !matches!(r, RecvOut::Err(ref e) if e == "eof") {
            out.violation("receive_poll did not report end-of-stream (a zero-length read) as UnexpectedEof");
        }
    }
    out.end(msgs.len() >= 2 || chunks.len() >= 2);
}

/// send side: send_start / send_poll_ready / send_poll_flush over short writes, Pending, errors
fn random_send(ex: &mut Exec, out: &mut Out, rng: &mut Rng, buffered: bool) {
    let p = if buffered { "b" } else { "t" };
    out.begin(if buffered { "buffered-send" } else { "tokio-send" });
    let msgs = random_messages(rng, 150_000);
    for f in &msgs {
        bump(&mut out.frame_sizes, size_class(f.len()));
    }
    let total: usize = msgs.iter().map(|f| f.len()).sum();
    // write script: enough entries to let everything through, with disturbances
    let mut ws: Vec<W> = vec![];
    let style = rng.below(5);
    let entries = match style {
        0 if total <= 2000 => total + 8,
        _ => 12 + msgs.len() * 6 + total / 2000,
    };
    let trouble = rng.below(10); // 0: an error, 1: a zero-length write, else none
    let at = rng.below(entries as u64) as usize;
    for i in 0..entries {
        if i == at && trouble == 0 {
            ws.push(W::Err(rng.below(4) as u8));
        }
        if i == at && trouble == 1 {
            ws.push(W::Ok(0));
        }
        if rng.chance(1, 6) {
            ws.push(W::Pending);
        }
        let n = match style {
            0 if total <= 2000 => 1,
            1 => rng.range(1, 8) as usize,
            2 => rng.range(1, 5000) as usize,
            _ => rng.range(1, 100_000) as usize,
        };
        ws.push(W::Ok(n));
    }
    ex.t_new(vec![], ws.clone(), buffered);
    out.push(format!("{}new - {}", p, wscript_str(&ws)), "-".into());
    let mut sent: Vec<u8> = vec![]; // concat of everything passed to send_start
    let mut accepted: Vec<u8> = vec![];
    let poll = |ex: &mut Exec, out: &mut Out, flush: bool, sent: &Vec<u8>, accepted: &mut Vec<u8>| -> SendOut {
        let flush_before = ex.t.as_ref().unwrap().1.borrow().flush_ok;
        let zero_before = ex.t.as_ref().unwrap().1.borrow().zero_writes;
        let (r, o) = ex.t_poll(flush);
        out.push(format!("{}{}", p, if flush { "flush" } else { "ready" }), fmt_send(&r, &o));
        accepted.extend_from_slice(&o);
        if accepted.len() > sent.len() || accepted[..] != sent[..accepted.len()] {
            out.violation("the bytes accepted by the I/O object are not a prefix of the serialized messages in send order");
        }
        let flush_after = ex.t.as_ref().unwrap().1.borrow().flush_ok;
        let zero_after = ex.t.as_ref().unwrap().1.borrow().zero_writes;
        let is_wz = matches!(&r, SendOut::Err(e) if e == "writezero");
        if is_wz != (zero_after != zero_before) {
            out.violation("a zero-length write of the I/O object and the WriteZero error do not coincide");
        }
        match &r {
            SendOut::Ready if flush => {
                if accepted.len() != sent.len() {
                    out.violation("send_poll_flush returned Ready(Ok) before all earlier messages were written");
                }
                if flush_after <= flush_before {
                    out.violation("send_poll_flush returned Ready(Ok) without a successful flush of the I/O object");
                }
            }
            SendOut::Panic(e) => out.violation(&format!("send path panicked: {}", e)),
            _ => {}
        }
        r
    };
    let mut dead = false;
    for f in &msgs {
        if rng.chance(2, 3) || buffered {
            // the Sink discipline: poll_ready before start_send
            let mut ok = false;
            for _ in 0..40 {
                match poll(ex, out, false, &sent, &mut accepted) {
                    SendOut::Ready => {
                        ok = true;
                        break;
                    }
                    SendOut::Pending => continue,
                    _ => {
                        dead = true;
                        break;
                    }
                }
            }
            if dead || !ok {
                break;
            }
        }
        let r = ex.t_send(f);
        out.push(format!("{}send {}", p, hex(f)), r.clone());
        if r != "ok" {
            out.violation(&format!("send_start failed for a valid message: {}", r));
            break;
        }
        sent.extend_from_slice(f);
        if rng.chance(1, 3) {
            for _ in 0..rng.range(1, 3) {
                if !matches!(poll(ex, out, true, &sent, &mut accepted), SendOut::Pending) {
                    break;
                }
            }
        }
    }
    if !dead {
        let mut done = false;
        for _ in 0..(ws.len() + 4) {
            match poll(ex, out, true, &sent, &mut accepted) {
                SendOut::Ready => {
                    done = true;
                    break;
                }
                SendOut::Pending => {
                    if ex.t.as_ref().unwrap().1.borrow().wscript.is_empty() {
                        break;
                    }
                }
                _ => break,
            }
        }
        let _ = done;
    }
    out.end(msgs.len() >= 2 || sent.len() > 64);
}

fn write_stats(outdir: &str, seed: u64, out: &Out) {
    let m = |m: &BTreeMap<String, u64>| m.iter().map(|(k, v)| format!("\"{}\":{}", k, v)).collect::<Vec<_>>().join(",");
    let mut s = String::new();
    write!(s, "{{\"seed\":{},\"cases\":{},\"evaluations\":{},\"distinct_nontrivial\":{},\"monitor_failures\":{},", seed, out.case_id, out.evaluations, out.nontrivial, out.monitor.len()).unwrap();
    write!(s, "\"case_kinds\":{{{}}},", m(&out.kinds)).unwrap();
    write!(s, "\"ops\":{{{}}},", m(&out.ops)).unwrap();
    write!(s, "\"result_classes\":{{{}}},", m(&out.classes)).unwrap();
    write!(s, "\"frame_sizes\":{{{}}},", m(&out.frame_sizes)).unwrap();
    write!(s, "\"chunk_sizes\":{{{}}},", m(&out.chunk_sizes)).unwrap();
    write!(s, "\"samples\":[{}]}}", out.samples.iter().map(|x| format!("\"{}\"", x.replace('"', "'"))).collect::<Vec<_>>().join(",")).unwrap();
    std::fs::write(format!("{outdir}/stats.json"), s).unwrap();
}

fn flush_files(outdir: &str, out: &Out) {
    let mut f = std::io::BufWriter::new(std::fs::File::create(format!("{outdir}/cases.txt")).unwrap());
    for l in &out.cases {
        writeln!(f, "{}", l).unwrap();
    }
    let mut f = std::io::BufWriter::new(std::fs::File::create(format!("{outdir}/impl.txt")).unwrap());
    for l in &out.impl_ {
        writeln!(f, "{}", l).unwrap();
    }
    let mut f = std::io::BufWriter::new(std::fs::File::create(format!("{outdir}/monitor.txt")).unwrap());
    for l in &out.monitor {
        writeln!(f, "{}", l).unwrap();
    }
}

fn main() {
    quiet_panics();
    let args: Vec<String> = std::env::args().collect();
    match args.get(1).map(|s| s.as_str()) {
        Some("gen") => {
            let outdir = &args[2];
            let n: u64 = args[3].parse().unwrap();
            let shard: u64 = args.get(4).map(|s| s.parse().unwrap()).unwrap_or(0);
            let nshards: u64 = args.get(5).map(|s| s.parse().unwrap()).unwrap_or(1);
            let seed = env_u64("VERIF_SEED", 1);
            let mut rng = Rng::new(seed);
            let mut ex = Exec::new();
            let mut out = Out::new();
            std::fs::create_dir_all(outdir).unwrap();
            directed(&mut ex, &mut out, &mut rng);
            exhaustive(&mut ex, &mut out, &mut rng, shard, nshards);
            for i in 0..n {
                match i % 10 {
                    0..=5 => random_pk(&mut ex, &mut out, &mut rng),
                    6 => random_recv(&mut ex, &mut out, &mut rng, false),
                    7 => random_send(&mut ex, &mut out, &mut rng, false),
                    8 => random_recv(&mut ex, &mut out, &mut rng, true),
                    _ => random_send(&mut ex, &mut out, &mut rng, true),
                }
            }
            flush_files(outdir, &out);
            write_stats(outdir, seed, &out);
        }
        Some("run") => {
            let f = std::fs::File::open(&args[2]).unwrap();
            let mut o = std::io::BufWriter::new(std::fs::File::create(&args[3]).unwrap());
            let mut ex = Exec::new();
            for line in std::io::BufReader::new(f).lines() {
                let line = line.unwrap();
                writeln!(o, "{}", exec_line(&mut ex, &line)).unwrap();
            }
        }
        _ => {
            eprintln!("usage: stream gen <outdir> <n> [shard nshards] | stream run <cases> <impl-out>");
            std::process::exit(2);
        }
    }
}
