//! `schema c18 <outdir> <n>`        generated syntactically valid schemas with arbitrary layout
//! `schema c18files <outdir> <list>` every schema file named in <list> (one path per line)
//! `schema c17 <outdir> <n> <list>`  token soups, mutations of the listed files and of generated
//!                                   schemas, valid schemas with adversarial doc comments
//! `schema one <c18|c17> <outdir> <file> [imports-spec]`  replay of a single source text
//! Output (like codec.rs): cases.txt (ops for extract/schema_driver.ml), impl.txt (what the real
//! code answered), monitor.txt (property violations seen on the real code alone), tie.txt
//! (correspondence breaks that are not property violations), stats.json.
#![allow(clippy::all)]
#[path = "../schema/ast.rs"]
mod ast;
#[path = "../schema/gen.rs"]
mod gen;
#[path = "../schema/layout.rs"]
mod layout;
#[path = "../schema/run.rs"]
mod run;

use run::{Imports, Out};
use std::fmt::Write as _;
use verif_harness::{catch, env_u64, hex, quiet_panics, unhex, Rng};

fn write_out(dir: &str, o: &Out, tie: &str, extra: &str) {
    std::fs::create_dir_all(dir).unwrap();
    std::fs::write(format!("{dir}/cases.txt"), &o.cases).unwrap();
    std::fs::write(format!("{dir}/impl.txt"), &o.imp).unwrap();
    std::fs::write(format!("{dir}/monitor.txt"), &o.monitor).unwrap();
    std::fs::write(format!("{dir}/tie.txt"), tie).unwrap();
    let mut s = String::from("{\n");
    writeln!(s, " \"seed\": {},", env_u64("VERIF_SEED", 1)).unwrap();
    writeln!(s, " \"distinct_nontrivial\": {},", o.distinct.len()).unwrap();
    s.push_str(" \"result_classes\": {");
    s.push_str(&o.counts.iter().map(|(k, v)| format!("\"{}\": {}", k, v)).collect::<Vec<_>>().join(", "));
    s.push_str("},\n \"diagnostic_kinds\": {");
    s.push_str(&o.kinds.iter().map(|(k, v)| format!("\"{}\": {}", k, v)).collect::<Vec<_>>().join(", "));
    s.push_str("},\n");
    s.push_str(extra);
    for (name, t) in [("doc_link_matrix", &o.link_matrix), ("doc_link_paths", &o.link_paths), ("named_ref_matrix", &o.ref_matrix), ("link_resolutions", &o.link_resolutions)] {
        if !t.is_empty() {
            writeln!(s, " \"{}\": {{{}}},", name, t.iter().map(|(k, v)| format!("\"{}\": {}", k, v)).collect::<Vec<_>>().join(", ")).unwrap();
        }
    }
    s.push_str(" \"samples\": [");
    s.push_str(&o.samples.iter().take(4).map(|x| format!("\"{}\"", hex(x.as_bytes()))).collect::<Vec<_>>().join(", "));
    s.push_str("]\n}\n");
    std::fs::write(format!("{dir}/stats.json"), s).unwrap();
}

fn read_list(path: &str) -> Vec<(String, String)> {
    let mut v = Vec::new();
    for l in std::fs::read_to_string(path).unwrap().lines() {
        if l.trim().is_empty() {
            continue;
        }
        if let Ok(s) = std::fs::read_to_string(l) {
            v.push((l.to_owned(), s));
        }
    }
    v
}

/// sibling schema files of `path` as resolvable imports
fn siblings(path: &str, all: &[(String, String)]) -> Imports {
    let dir = std::path::Path::new(path).parent().map(|p| p.to_owned());
    let mut v: Imports = Vec::new();
    for (p, s) in all {
        let pp = std::path::Path::new(p);
        if p != path && pp.parent().map(|x| x.to_owned()) == dir {
            if let Some(stem) = pp.file_stem().and_then(|s| s.to_str()) {
                v.push((stem.to_owned(), Some(s.clone())));
            }
        }
    }
    v
}

fn c18(dir: &str, n: u64) {
    let mut rng = Rng::new(env_u64("VERIF_SEED", 1));
    let mut o = Out::default();
    let imports = run::std_imports();
    let mut styles = [0u64; 3];
    let mut bytes = 0usize;
    for i in 0..n {
        let budget = *rng.pick(&[4i64, 10, 25, 60, 120]);
        let a = gen::Gen::new(&mut rng, budget).schema();
        let (src, style) = {
            let mut l = layout::Layout::new(&mut rng);
            l.schema(&a);
            (l.out, l.style)
        };
        styles[style as usize] += 1;
        bytes += src.len();
        if i < 4 {
            o.samples.push(src.clone());
        }
        run::check_c18(&src, &imports, Some(&a), &mut o);
    }
    let extra = format!(
        " \"inputs\": {},\n \"source_bytes\": {},\n \"streams\": {{\"layout_canonical\": {}, \"layout_compact\": {}, \"layout_chaotic\": {}}},\n",
        n, bytes, styles[0], styles[1], styles[2]
    );
    write_out(dir, &o, "", &extra);
}

fn c18files(dir: &str, list: &str) {
    let files = read_list(list);
    let mut o = Out::default();
    let mut valid = 0;
    for (p, s) in &files {
        let imps = siblings(p, &files);
        if run::check_c18(s, &imps, None, &mut o) {
            valid += 1;
        }
        if o.samples.len() < 2 {
            o.samples.push(p.clone());
        }
    }
    let extra = format!(" \"inputs\": {},\n \"streams\": {{\"repository_files\": {}, \"repository_files_syntactically_valid\": {}}},\n", files.len(), files.len(), valid);
    write_out(dir, &o, "", &extra);
}

// ------------------------------------------------------------------ C17

const SOUP: [&str; 70] = [
    "import", "struct", "enum", "service", "fn", "event", "const", "newtype", "required", "u8", "i64", "string",
    "uuid", "bool", "value", "box", "vec", "bytes", "map", "set", "option", "version", "args", "ok", "err", "sender",
    "receiver", "lifetime", "unit", "result", "fallback", "object_id", "service_id", "f32", ";", "=", "(", ")", "<", ">",
    "->", "::", "#", "[", "]", ",", "{", "}", "@", "!", "-", ":", "/", "x", "Foo", "_", "é", "1", "-1", "007",
    "6ac4a2ad-5b0a-4a5e-9a3c-0a1b2c3d4e5f", "\"s\"", "\"\\\"\"", "\"", "// c\n", "/// d\n", "//! i\n", "//", "€", "\u{301}",
];

fn soup(rng: &mut Rng) -> String {
    let n = rng.below(40);
    let mut s = String::new();
    for _ in 0..n {
        s.push_str(*rng.pick(&SOUP));
        match rng.below(10) {
            0 | 1 | 2 => {}
            3 => s.push('\n'),
            4 => s.push_str("\r\n"),
            5 => s.push('\t'),
            6 => s.push(*rng.pick(&['\u{a0}', '\u{2028}', '\r', '\u{3000}', '\u{b}'])),
            _ => s.push(' '),
        }
    }
    s
}

/// a grammar-shaped soup: mostly right token sequences with local damage
fn near_valid(rng: &mut Rng) -> String {
    let budget = *rng.pick(&[4i64, 10, 30]);
    let a = gen::Gen::new(rng, budget).schema();
    let s = layout::render(rng, &a);
    mutate(rng, &s)
}

fn char_starts(s: &str) -> Vec<usize> {
    let mut v: Vec<usize> = s.char_indices().map(|(i, _)| i).collect();
    v.push(s.len());
    v
}

fn mutate(rng: &mut Rng, s: &str) -> String {
    let mut cur = s.to_owned();
    for _ in 0..1 + rng.below(3) {
        let cs = char_starts(&cur);
        let at = cs[rng.below(cs.len() as u64) as usize];
        let at2 = cs[rng.below(cs.len() as u64) as usize];
        let (lo, hi) = (at.min(at2), at.max(at2));
        cur = match rng.below(9) {
            0 => format!("{}{}", &cur[..lo], &cur[hi..]),                              // delete a range
            1 => format!("{}{}{}", &cur[..at], rng.pick(&SOUP), &cur[at..]),             // insert a token
            2 => cur[..at].to_owned(),                                                   // truncate
            3 => format!("{}{}{}", &cur[..hi], &cur[lo..hi], &cur[hi..]),               // duplicate a range
            4 => {
                let c = *rng.pick(&['\r', '\n', '\t', '/', '!', '"', '\\', '{', '}', '\u{a0}', 'é', '中', '😀', '\u{301}', ' ', '@', '-']);
                let nxt = cs.iter().copied().find(|&x| x > at).unwrap_or(cur.len());
                format!("{}{}{}", &cur[..at], c, &cur[nxt..])                          // replace one char
            }
            5 => {
                // remove a whitespace run
                let b = cur.as_bytes();
                let mut e = at;
                while e < b.len() && (b[e] == b' ' || b[e] == b'\n') {
                    e += 1;
                }
                format!("{}{}", &cur[..at], &cur[e..])
            }
            6 => cur.replace('\n', "\r\n"),
            7 => cur.replacen(";", "", 1),
            _ => format!("{}{}{}", &cur[..at], rng.pick(&["/// [x](", "//! [`a`] é", "// \r", "#[a(b,)]", "required ", " = fallback;"]), &cur[at..]),
        };
        if cur.len() > 20000 {
            cur.truncate(char_starts(&cur).into_iter().filter(|&i| i <= 20000).last().unwrap_or(0));
        }
    }
    cur
}

const DOC_PIECES: [&str; 58] = [
    "::dep_a::Foo", "::zeta::Foo", "[`::zeta::Foo`]", "[x](::Alpha::Bar::A)", "[`::dep_b::Id`]", "::main::", "::self::", "dep_a", "zeta",
    "[y](::dep_a::Svc::f::args)",
    "[", "]", "(", ")", "`", "Foo", "self::", "::", "nope", " ", " ", "\t", "\r", "é", "中", "😀", "*", "_", "<", ">",
    "http://x.y", "!", "\\", "|", "-", "#", "&amp;", "\"", "'", "--", "...", "[^", "]:", "x", "X", "Bar", "dep_a::Foo",
    "[Foo]", "[x](Foo)", "[`Foo`]", "[a\rb]", "\u{a0}", "\u{301}", "a", "1.", "- ", "> ", "    ",
];

fn adversarial_doc(rng: &mut Rng) -> String {
    let mut s = String::new();
    for _ in 0..1 + rng.below(10) {
        s.push_str(*rng.pick(&DOC_PIECES));
    }
    s.trim_end().to_owned()
}

fn inject_docs(rng: &mut Rng, a: &mut ast::Schema) {
    let mk = |rng: &mut Rng| -> Vec<String> { (0..1 + rng.below(4)).map(|_| adversarial_doc(rng)).collect() };
    if rng.chance(1, 2) {
        a.doc = mk(rng);
    }
    for d in &mut a.defs {
        match d {
            ast::Def::Struct(s) => {
                s.doc = mk(rng);
                for f in &mut s.fields {
                    if rng.chance(1, 2) {
                        f.doc = mk(rng);
                    }
                }
            }
            ast::Def::Enum(s) => {
                s.doc = mk(rng);
                for f in &mut s.vars {
                    if rng.chance(1, 2) {
                        f.doc = mk(rng);
                    }
                }
            }
            ast::Def::Service(s) => {
                s.doc = mk(rng);
                for i in &mut s.items {
                    match i {
                        ast::Item::Fn(f) => f.doc = mk(rng),
                        ast::Item::Ev(e) => e.doc = mk(rng),
                    }
                }
            }
            ast::Def::Const(s) => s.doc = mk(rng),
            ast::Def::Newtype(s) => s.doc = mk(rng),
        }
    }
}

/// transcription of BrokenDocLink::linecol_to_index (mirrors coq/Schema/Span.v); Err = arithmetic underflow
fn linecol(docs: &[(usize, usize, String)], line: usize, col: usize, end: bool) -> Result<Option<usize>, ()> {
    let mut ln = 0usize;
    for (start, _, value) in docs {
        let mut offset = 0usize;
        for part in value.split('\r') {
            ln += 1;
            if ln == line {
                if col > part.len() {
                    return Ok(None);
                }
                let idx = (offset + col).checked_sub(1).ok_or(())? + end as usize;
                return Ok(if value.is_char_boundary(idx) { Some(start + idx) } else { None });
            }
            offset += part.len() + 1;
        }
    }
    Ok(None)
}

struct SpanCase {
    docs: Vec<(usize, usize, String)>,
    pos: (usize, usize, usize, usize),
    error: String,
}

/// replicate BrokenDocLink::validate on every doc list of the main schema with the same comrak
/// options, and collect the source positions of the links that do not resolve
fn resolved_name(r: &aldrin_parser::ResolvedLink) -> &'static str {
    use aldrin_parser::ResolvedLink as R;
    match r {
        R::Foreign => "Foreign",
        R::Schema(..) => "Schema",
        R::Struct(..) => "Struct",
        R::Field(..) => "Field",
        R::FallbackField(..) => "FallbackField",
        R::Enum(..) => "Enum",
        R::Variant(..) => "Variant",
        R::FallbackVariant(..) => "FallbackVariant",
        R::Service(..) => "Service",
        R::Function(..) => "Function",
        R::FunctionFallback(..) => "FunctionFallback",
        R::Event(..) => "Event",
        R::EventFallback(..) => "EventFallback",
        R::Const(..) => "Const",
        R::Newtype(..) => "Newtype",
        R::FunctionArgsStruct(..) | R::FunctionOkStruct(..) | R::FunctionErrStruct(..) | R::FunctionArgsEnum(..) | R::FunctionOkEnum(..) | R::FunctionErrEnum(..) => "FunctionPartInlineType",
        R::EventStruct(..) | R::EventEnum(..) => "EventInlineType",
        R::EventField(..) | R::EventFallbackField(..) | R::EventVariant(..) | R::EventFallbackVariant(..) => "EventInlineMember",
        _ => "FunctionPartInlineMember",
    }
}

fn resolve_error_name(e: &aldrin_parser::ResolveLinkError, p: &aldrin_parser::Parser) -> String {
    use aldrin_parser::ResolveLinkError as E;
    match e {
        E::InvalidFormat => "InvalidFormat".into(),
        E::SchemaNotFound(name) => {
            // the two lookups behind this error: the import list of the linking schema, then the schema map
            if p.main_schema().imports().iter().any(|i| i.schema_name().value() == *name) {
                "SchemaNotFound:imported_but_not_in_schema_map".into()
            } else if p.get_schema(name).is_some() {
                "SchemaNotFound:not_imported_but_in_schema_map".into()
            } else {
                "SchemaNotFound:not_imported".into()
            }
        }
        E::DefinitionNotFound(s, _) => {
            if s.name() == p.main_schema().name() {
                "DefinitionNotFound:own_schema".into()
            } else if s.source().is_none() {
                "DefinitionNotFound:unreadable_import".into()
            } else if s.definitions().is_empty() {
                "DefinitionNotFound:import_without_definitions".into()
            } else {
                "DefinitionNotFound:import".into()
            }
        }
        E::FieldNotFound(..) => "FieldNotFound".into(),
        E::InlineFieldNotFound(..) => "InlineFieldNotFound".into(),
        E::LinkIntoField(..) => "LinkIntoField".into(),
        E::VariantNotFound(..) => "VariantNotFound".into(),
        E::InlineVariantNotFound(..) => "InlineVariantNotFound".into(),
        E::LinkIntoVariant(..) => "LinkIntoVariant".into(),
        E::ItemNotFound(..) => "ItemNotFound".into(),
        E::InvalidFunctionPart(..) => "InvalidFunctionPart".into(),
        E::NoFunctionArgsInlineType(..) => "NoFunctionArgsInlineType".into(),
        E::NoFunctionOkInlineType(..) => "NoFunctionOkInlineType".into(),
        E::NoFunctionErrInlineType(..) => "NoFunctionErrInlineType".into(),
        E::InvalidEventPart(..) => "InvalidEventPart".into(),
        E::NoEventInlineType(..) => "NoEventInlineType".into(),
        E::LinkIntoConst(..) => "LinkIntoConst".into(),
        E::LinkIntoNewtype(..) => "LinkIntoNewtype".into(),
    }
}

fn expected_broken_links(p: &aldrin_parser::Parser) -> (Vec<SpanCase>, gen::Tally) {
    let mut tally = gen::Tally::new();
    use comrak::nodes::NodeValue;
    use comrak::options::BrokenLinkReference;
    use comrak::{Arena, Options, ResolvedReference};
    use std::sync::Arc;
    let schema = p.main_schema();
    let mut out = Vec::new();
    for docs in ast::doc_lists(schema) {
        if docs.is_empty() {
            continue;
        }
        let mut text = String::new();
        for d in docs {
            text.push_str(d.value_inner());
            text.push('\n');
        }
        let mut options = Options::default();
        options.extension.footnotes = true;
        options.extension.strikethrough = true;
        options.extension.table = true;
        options.extension.tasklist = true;
        options.parse.smart = true;
        options.parse.broken_link_callback = Some(Arc::new(|link: BrokenLinkReference| {
            aldrin_parser::LinkResolver::convert_broken_link(link.original).map(|link| ResolvedReference { url: link.to_owned(), title: String::new() })
        }));
        let arena = Arena::new();
        let root = comrak::parse_document(&arena, &text, &options);
        let lr = aldrin_parser::LinkResolver::new(p, schema);
        for node in root.descendants() {
            let data = node.data.borrow();
            let NodeValue::Link(ref link) = data.value else { continue };
            let res = lr.resolve(&link.url);
            match &res {
                Ok(r) => {
                    let other = !matches!(r, aldrin_parser::ResolvedLink::Foreign)
                        && link.url.strip_prefix("::").map(|r| r.split("::").next().map(|c| c != "self" && c != schema.name()).unwrap_or(false)).unwrap_or(false);
                    *tally.entry(format!("Ok:{}{}", resolved_name(r), if other { ":other_schema" } else { "" })).or_insert(0) += 1
                }
                Err(e) => *tally.entry(format!("Err:{}", resolve_error_name(e, p))).or_insert(0) += 1,
            }
            if let Err(e) = res {
                let sp = data.sourcepos;
                out.push(SpanCase {
                    docs: docs.iter().map(|d| (d.span_inner().start, d.span_inner().end, d.value_inner().to_owned())).collect(),
                    pos: (sp.start.line, sp.start.column, sp.end.line, sp.end.column),
                    error: e.to_string(),
                });
            }
        }
    }
    (out, tally)
}

fn span_of(c: &SpanCase) -> Result<(usize, usize), ()> {
    let s = linecol(&c.docs, c.pos.0, c.pos.1, false)?;
    let e = match s {
        Some(_) => linecol(&c.docs, c.pos.2, c.pos.3, true)?,
        None => None,
    };
    Ok(match (s, e) {
        (Some(s), Some(e)) => (s, e),
        _ => {
            let (fs, _, _) = &c.docs[0];
            let (_, le, _) = c.docs.last().unwrap();
            (*fs, *le)
        }
    })
}

fn parse_span_num(d: &str, key: &str) -> Option<usize> {
    let i = d.find(key)? + key.len();
    d[i..].chars().take_while(|c| c.is_ascii_digit()).collect::<String>().parse().ok()
}

fn c17_one(src: &Option<String>, imports: &Imports, variant: u64, stream: &str, o: &mut Out, tie: &mut String) {
    let s_for_mon = src.clone().unwrap_or_default();
    o.count(&format!("stream:{}", stream));
    let r1 = catch(|| run::front_end(src, imports, variant));
    let r2 = catch(|| run::front_end(src, imports, variant));
    let (a, b) = match (r1, r2) {
        (Ok(a), Ok(b)) => (a, b),
        (Err(m), _) | (_, Err(m)) => {
            o.mon(&format!("panic:{}", m.chars().take(60).collect::<String>().replace(' ', "_")), &s_for_mon, imports, &format!("variant {} {}", variant, m));
            if let Some(s) = src {
                o.case(&format!("parse {}", hex(s.as_bytes())), "-");
            }
            return;
        }
    };
    if a.sigs != b.sigs {
        let only1: Vec<_> = a.sigs.iter().filter(|s| !b.sigs.contains(s)).collect();
        let only2: Vec<_> = b.sigs.iter().filter(|s| !a.sigs.contains(s)).collect();
        let all_dup_uuid = only1.iter().chain(only2.iter()).all(|s| run::kind_of(s) == "DuplicateServiceUuid");
        let all_free_id = only1.iter().chain(only2.iter()).all(|s| {
            let k = run::kind_of(s);
            k == "DuplicateFunctionId" || k == "DuplicateEventId" || k == "DuplicateStructFieldId" || k == "DuplicateEnumVariantId"
        });
        let is_free_id = |k: &str| k == "DuplicateFunctionId" || k == "DuplicateEventId" || k == "DuplicateStructFieldId" || k == "DuplicateEnumVariantId";
        let both_known = only1.iter().chain(only2.iter()).all(|s| {
            let k = run::kind_of(s);
            k == "DuplicateServiceUuid" || is_free_id(&k)
        });
        let what = if all_dup_uuid {
            "diagnostics_not_repeatable:DuplicateServiceUuid_attribution"
        } else if all_free_id {
            "diagnostics_not_repeatable:free_id_suggestion"
        } else if both_known {
            // the two known order dependencies in one input, nothing else differs
            "diagnostics_not_repeatable:DuplicateServiceUuid_attribution+free_id_suggestion"
        } else {
            "diagnostics_not_repeatable:other"
        };
        o.mon(what, &s_for_mon, imports, &format!("variant {}\nfirst only: {:?}\nsecond only: {:?}", variant, only1, only2));
    } else if a.rendered != b.rendered {
        o.mon("rendering_not_repeatable", &s_for_mon, imports, &format!("variant {}", variant));
    }
    if a.raw_order != b.raw_order {
        o.count("note:diagnostic_order_varies");
    }
    if a.formatted != b.formatted || a.generated != b.generated || a.ast != b.ast {
        o.mon("output_not_repeatable", &s_for_mon, imports, &format!("variant {}", variant));
    }
    if a.generated.is_some() && a.n_errors != 0 {
        o.mon("codegen_reached_with_errors", &s_for_mon, imports, "");
    }
    if let Some(g) = &a.generated {
        o.count(if g.starts_with("!ERR") { "class:codegen_err" } else { "class:codegen_ok" });
    }
    let class = if a.syntax { "syntax_error" } else if a.n_errors > 0 { "semantic_errors" } else { "no_errors" };
    o.count(&format!("class:{}", class));
    o.count(&format!("stream_class:{}:{}", stream, class));
    if stream.ends_with("_clean") {
        for s in a.sigs.iter().filter(|s| s.starts_with("E:")) {
            o.count(&format!("clean_world_error:{}", run::kind_of(s)));
        }
    }
    o.count(if a.formatted.is_some() { "class:formatted" } else { "class:formatter_refused" });
    for s in &a.sigs {
        *o.kinds.entry(run::kind_of(s)).or_insert(0) += 1;
    }
    if let Some(s) = src {
        if s.len() >= 2 {
            o.distinct.insert(run::fnv(s));
        }
        match &a.ast {
            Some(d) => o.case(&format!("parse {}", hex(s.as_bytes())), &format!("ok {}", d)),
            None => o.case(&format!("parse {}", hex(s.as_bytes())), "err"),
        }
        // span correspondence and span monitors (main schema only)
        if !a.syntax {
            let p = run::parse(run::MAIN, s, imports);
            let mut actual: Vec<(usize, usize, String)> = Vec::new();
            for w in p.warnings() {
                let d = format!("{:?}", w);
                if run::kind_of(&d) == "BrokenDocLink" {
                    let st = parse_span_num(&d, "start: ").unwrap_or(usize::MAX);
                    let en = parse_span_num(&d, "end: ").unwrap_or(usize::MAX);
                    let err = d.find("error: ").map(|i| d[i + 7..].to_owned()).unwrap_or_default();
                    if !(st <= en && en <= s.len() && s.is_char_boundary(st) && s.is_char_boundary(en)) {
                        o.mon("doc_link_span_out_of_bounds", s, imports, &d);
                    }
                    actual.push((st, en, err));
                    o.count("class:broken_doc_link_warning");
                }
            }
            match catch(|| expected_broken_links(&p)) {
                Err(m) => writeln!(tie, "comrak_replication_panic {} input={}", m.replace(' ', "_"), hex(s.as_bytes())).unwrap(),
                Ok((cases, tally)) => {
                    for (k, v) in tally {
                        *o.link_resolutions.entry(k).or_insert(0) += v;
                    }
                    let mut exp: Vec<(usize, usize)> = Vec::new();
                    let mut lines = Vec::new();
                    let mut underflow = false;
                    for c in &cases {
                        if c.pos.1 == 0 || c.pos.3 == 0 {
                            o.count("note:comrak_column_zero");
                        }
                        let mut case = format!("span {}", c.docs.len());
                        for (st, en, v) in &c.docs {
                            write!(case, " {} {} s{}", st, en, hex(v.as_bytes())).unwrap();
                        }
                        write!(case, " {} {} {} {}", c.pos.0, c.pos.1, c.pos.2, c.pos.3).unwrap();
                        match span_of(c) {
                            Ok((st, en)) => {
                                exp.push((st, en));
                                lines.push((case, format!("{} {}", st, en)));
                                let direct = linecol(&c.docs, c.pos.0, c.pos.1, false) != Ok(None);
                                o.count(if direct { "class:span_direct" } else { "class:span_fallback" });
                            }
                            Err(()) => {
                                underflow = true;
                                lines.push((case, "underflow".into()));
                            }
                        }
                    }
                    let mut act: Vec<(usize, usize)> = actual.iter().map(|x| (x.0, x.1)).collect();
                    act.sort();
                    exp.sort();
                    if underflow {
                        // the real code would have panicked (overflow checks) or wrapped; we got here without a panic
                        writeln!(tie, "span_underflow_predicted_but_no_panic input={}", hex(s.as_bytes())).unwrap();
                    } else if act != exp {
                        writeln!(tie, "span_mismatch expected={:?} actual={:?} input={}", exp, act, hex(s.as_bytes())).unwrap();
                    }
                    for (c, i) in lines {
                        o.case(&c, &i);
                    }
                }
            }
        }
    }
}

/// the names the fixed dependency texts define (read off the real parser's AST once)
struct Fixed {
    a: gen::Names,
    b: gen::Names,
    rich: gen::Names,
}

fn fixed_names() -> Fixed {
    let of = |src: &str, imps: &Imports| -> gen::Names {
        catch(|| {
            let p = run::parse("dep", src, imps);
            assert!(p.errors().is_empty(), "a fixed dependency has errors: {:?}", p.errors());
            gen::names_of(&ast::from_real(p.main_schema()))
        })
        .unwrap_or_default()
    };
    Fixed { a: of(run::DEP_A, &Vec::new()), b: of(run::DEP_B, &run::std_imports()), rich: of(run::DEP_RICH, &Vec::new()) }
}

/// schema names a generated main schema imports or mentions
const SCHEMA_NAMES: [&str; 18] = [
    "dep_a", "dep_b", "zeta", "Alpha", "cfg", "other_schema", "X1", "rich", "struct", "import", "fn", "u8x", "é", "_", "__x_", "Self", "main",
    "self",
];

/// a text that cannot parse whatever it starts with
fn bad_source(rng: &mut Rng) -> String {
    match rng.below(4) {
        0 => format!("{}\n@", soup(rng)),
        1 => format!("{}\n@", run::DEP_A),
        2 => format!("{}\n}}", near_valid(rng).replace('}', "")),
        _ => rng.pick(&["struct", "@", "import ;", "struct Foo { a @ 1 = ; }", "\u{feff}x", "/// doc without item\n"]).to_string(),
    }
}

/// C17 stream `valid_doc_links`: a generated main schema in a world of schemas in known import
/// situations; doc links (every link form) and named references whose schema component and item
/// path are drawn from that world.  Returns the source text and the resolver entries.
fn semantic(rng: &mut Rng, fx: &Fixed, o: &mut Out) -> (String, Imports, bool) {
    use gen::{Names, Target, World};
    let clean = rng.chance(1, 4);
    let budget = *rng.pick(&[10i64, 30, 30, 60]);
    let mut a = gen::Gen::new(rng, budget).schema();
    if clean {
        gen::make_clean(rng, &mut a);
    }
    let own = gen::names_of(&a);
    let own_uuid = a.defs.iter().find_map(|d| if let ast::Def::Service(s) = d { Some(s.uuid.clone()) } else { None });
    let mut targets: Vec<Target> = Vec::new();
    let mut entries: Imports = Vec::new();
    let mut import_names: Vec<String> = Vec::new();
    let pool: &[&str] = if clean { &["dep_a", "dep_b", "rich"] } else { &SCHEMA_NAMES };
    let n = if clean { rng.below(4) } else { *rng.pick(&[0u64, 1, 2, 3, 4, 4, 6, 8]) };
    for _ in 0..n {
        let name = rng.pick(pool).to_string();
        if import_names.contains(&name) {
            if !clean && rng.chance(1, 4) {
                import_names.push(name); // a duplicate import statement
            }
            continue;
        }
        import_names.push(name.clone());
        if name == run::MAIN {
            continue; // importing oneself: the schema map has it, it is the `self` situation
        }
        let sit: &'static str = if clean { "resolves" } else { *rng.pick(&["missing", "unreadable", "syntax_error", "resolves"]) };
        let names = match sit {
            "missing" => Names::default(),
            "unreadable" => {
                entries.push((name.clone(), None));
                Names::default()
            }
            "syntax_error" => {
                entries.push((name.clone(), Some(bad_source(rng))));
                Names::default()
            }
            _ => {
                let kind = if clean {
                    match name.as_str() {
                        "dep_a" => 0,
                        "rich" => 1,
                        _ => 5,
                    }
                } else {
                    rng.below(5)
                };
                let (src, names) = match kind {
                    0 => (run::DEP_A.to_owned(), fx.a.clone()),
                    1 => (run::DEP_RICH.to_owned(), fx.rich.clone()),
                    2 => {
                        let b = gen::Gen::new(rng, 20).schema();
                        (layout::render(rng, &b), gen::names_of(&b))
                    }
                    3 => {
                        // a cycle through main: refers back to a type of main and shares a service uuid with it
                        let t = if own.types.is_empty() { "Nope".to_owned() } else { rng.pick(&own.types).0.clone() };
                        let t = if gen::kw_prefixed(&t) { "Nope".to_owned() } else { t };
                        let uuid = own_uuid.clone().unwrap_or_else(|| "6ac4a2ad-5b0a-4a5e-9a3c-0a1b2c3d4e5f".into());
                        let src = format!("import {m};\n\nstruct Cyc {{\n    a @ 1 = {m}::{t};\n    required b @ 2 = option<{m}::{t}>;\n}}\n\nservice CycSvc {{\n    uuid = {uuid};\n    version = 1;\n\n    fn f @ 1 = Cyc;\n}}\n", m = run::MAIN);
                        let mut nm = Names::default();
                        nm.paths = ["Cyc", "Cyc::a", "Cyc::b", "CycSvc", "CycSvc::f"].iter().map(|s| s.to_string()).collect();
                        nm.near = ["Cyc::a::x", "Cyc::c", "CycSvc::f::ok", "CycSvc::f::args", "CycSvc::g"].iter().map(|s| s.to_string()).collect();
                        nm.types = vec![("Cyc".into(), 0)];
                        nm.others = vec!["CycSvc".into()];
                        (src, nm)
                    }
                    4 => {
                        // loads `hidden` into the schema map without main importing it
                        let src = "import hidden;\n\nstruct Via {\n    a @ 1 = hidden::Foo;\n}\n\nnewtype ViaKey = hidden::Foo;\n".to_owned();
                        if !entries.iter().any(|(n, _)| n == "hidden") {
                            entries.push(("hidden".into(), Some(run::DEP_A.into())));
                        }
                        let mut nm = Names::default();
                        nm.paths = ["Via", "Via::a", "ViaKey"].iter().map(|s| s.to_string()).collect();
                        nm.near = ["Via::a::x", "ViaKey::x", "Via::b"].iter().map(|s| s.to_string()).collect();
                        nm.types = vec![("Via".into(), 0), ("ViaKey".into(), 1)];
                        (src, nm)
                    }
                    _ => (run::DEP_B.to_owned(), fx.b.clone()),
                };
                entries.push((name.clone(), Some(src)));
                names
            }
        };
        targets.push(Target { name, situation: sit, names });
    }
    // DEP_B imports dep_a: without an entry it would have an error of its own
    if clean && import_names.iter().any(|n| n == "dep_b") && !entries.iter().any(|(n, _)| n == "dep_a") {
        entries.push(("dep_a".into(), Some(run::DEP_A.into())));
    }
    // schemas main does not import: unknown everywhere, known to the resolver but never loaded,
    // loaded through another import (in the schema map), names of the pool that were not drawn
    let imported = |n: &str| import_names.iter().any(|x| x == n);
    targets.push(Target { name: "nope".into(), situation: "not_imported", names: Names::default() });
    if !imported("extra") {
        entries.push(("extra".into(), Some(run::DEP_A.into())));
        targets.push(Target { name: "extra".into(), situation: "not_imported", names: fx.a.clone() });
    }
    for (n, _) in entries.clone() {
        if !imported(&n) && n != "extra" {
            targets.push(Target { name: n, situation: "not_imported", names: fx.a.clone() });
        }
    }
    let spare = rng.pick(&SCHEMA_NAMES).to_string();
    if !imported(&spare) && spare != run::MAIN && spare != "self" && !gen::KEYWORDS.contains(&spare.as_str()) {
        targets.push(Target { name: spare, situation: "not_imported", names: Names::default() });
    }
    for _ in 0..2 {
        let k = rng.pick(&gen::KEYWORDS).to_string();
        if !imported(&k) {
            targets.push(Target { name: k, situation: "keyword", names: Names::default() });
        }
    }
    targets.push(Target { name: run::MAIN.into(), situation: "self", names: own });
    let w = World { targets };
    a.imports = import_names.iter().map(|n| ast::Import { comment: Vec::new(), name: n.clone() }).collect();
    gen::retarget_refs(rng, &mut a, &w, clean, &mut o.ref_matrix);
    gen::inject_link_docs(rng, &mut a, &w, &mut o.link_matrix, &mut o.link_paths);
    o.count(if clean { "world:clean" } else { "world:any" });
    for t in &w.targets {
        if import_names.contains(&t.name) {
            o.count(&format!("world_import:{}", t.situation));
        }
    }
    (layout::render(rng, &a), entries, clean)
}

fn c17(dir: &str, n: u64, list: &str) {
    let files = read_list(list);
    let mut rng = Rng::new(env_u64("VERIF_SEED", 1));
    let mut o = Out::default();
    let mut tie = String::new();
    let fx = fixed_names();
    for f in gen::LINK_FORMS {
        for s in gen::SITUATIONS {
            o.link_matrix.insert(format!("{f}|{s}"), 0);
        }
    }
    for i in 0..n {
        let variant = rng.below(256);
        let stream = rng.below(10);
        let mut world_imports: Option<Imports> = None;
        let (src, name): (Option<String>, &str) = match stream {
            0 | 1 => (Some(soup(&mut rng)), "token_soup"),
            2 if rng.chance(1, 2) => (Some(near_valid(&mut rng)), "mutated_generated"),
            2 => {
                let (s, imps, _) = semantic(&mut rng, &fx, &mut o);
                world_imports = Some(imps);
                (Some(mutate(&mut rng, &s)), "mutated_doc_links")
            }
            3 | 4 | 5 if !files.is_empty() => {
                let (_, s) = &files[rng.below(files.len() as u64) as usize];
                (Some(mutate(&mut rng, s)), "mutated_repository_file")
            }
            6 if !files.is_empty() && rng.chance(1, 3) => (Some(files[(i as usize) % files.len()].1.clone()), "repository_file"),
            9 if rng.chance(1, 10) => (None, "unreadable_main"),
            7 => {
                let mut a = gen::Gen::new(&mut rng, 30).schema();
                inject_docs(&mut rng, &mut a);
                (Some(layout::render(&mut rng, &a)), "valid_adversarial_docs")
            }
            _ => {
                let (s, imps, clean) = semantic(&mut rng, &fx, &mut o);
                world_imports = Some(imps);
                (Some(s), if clean { "valid_doc_links_clean" } else { "valid_doc_links" })
            }
        };
        let imports: Imports = match rng.below(6) {
            _ if world_imports.is_some() => world_imports.take().unwrap(),
            0 => Vec::new(),
            1 | 2 => run::std_imports(),
            3 => vec![("dep_a".into(), None), ("dep_b".into(), Some(run::DEP_B.into()))],
            4 => vec![("dep_a".into(), Some(near_valid(&mut rng))), ("dep_b".into(), Some(soup(&mut rng)))],
            _ => {
                // an import that defines a service with the same uuid as one of ours, and a cycle
                vec![("dep_a".into(), Some(format!("import main;\nimport dep_b;\n{}", run::DEP_A))), ("dep_b".into(), Some(run::DEP_A.into()))]
            }
        };
        if i < 4 {
            if let Some(s) = &src {
                o.samples.push(s.clone());
            }
        }
        c17_one(&src, &imports, variant, name, &mut o, &mut tie);
    }
    write_out(dir, &o, &tie, &format!(" \"inputs\": {},\n", n));
}

fn parse_imports(spec: &str) -> Imports {
    let mut v = Vec::new();
    for part in spec.split('|') {
        if let Some((n, h)) = part.split_once(':') {
            v.push((n.to_owned(), if h == "!" { None } else { Some(String::from_utf8_lossy(&unhex(h)).into_owned()) }));
        }
    }
    v
}

fn main() {
    if std::env::var("VERIF_LOUD").is_err() {
        quiet_panics();
    }
    let args: Vec<String> = std::env::args().collect();
    match args.get(1).map(|s| s.as_str()) {
        Some("c18") => c18(&args[2], args[3].parse().unwrap()),
        Some("c18files") => c18files(&args[2], &args[3]),
        Some("c17") => c17(&args[2], args[3].parse().unwrap(), &args[4]),
        Some("one") => {
            let src = std::fs::read_to_string(&args[4]).unwrap();
            let imports = match args.get(5) {
                Some(s) if s == "std" => run::std_imports(),
                Some(s) => parse_imports(s),
                None => Vec::new(),
            };
            let mut o = Out::default();
            let mut tie = String::new();
            if args[2] == "c18" {
                run::check_c18(&src, &imports, None, &mut o);
            } else {
                let vs: Vec<u64> = match std::env::var("VERIF_VARIANT") { Ok(v) => vec![v.parse().unwrap()], Err(_) => vec![0u64, 3, 255, 16, 32, 64, 128, 1, 2, 4] };
                for variant in vs {
                    c17_one(&Some(src.clone()), &imports, variant, "replay", &mut o, &mut tie);
                }
            }
            write_out(&args[3], &o, &tie, "");
            print!("{}", o.monitor);
            print!("{}", tie);
        }
        _ => {
            eprintln!("usage: schema c18|c18files|c17|one ...");
            std::process::exit(2);
        }
    }
}
